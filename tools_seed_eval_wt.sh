#!/bin/sh
# usage: tools_seed_eval_wt.sh <worktree with the seeded change applied> <PID> [tier]
# Runs the check against the worktree (VERIF_REPO) so that /repo is left alone; evidence is restored afterwards.
wt=$1; pid=$2; tier=${3:-quick}
cd /verif
cp evidence/$pid.json /tmp/evidence_$pid.bak 2>/dev/null
VERIF_REPO=$wt VERIF_TMP=/tmp timeout 1500 ./check $pid --tier $tier > /tmp/seed_eval_$pid.out 2>&1
rc=$?
cp /tmp/evidence_$pid.bak evidence/$pid.json 2>/dev/null
echo "rc=$rc violations=$(grep -c '^VIOLATION' /tmp/seed_eval_$pid.out)"; grep "^VIOLATION\|^MACHINERY" -A1 /tmp/seed_eval_$pid.out | head -6 | cut -c1-220
