#!/bin/sh
# usage: tools_seed_eval_wt.sh <worktree with the seeded change applied> <PID> [tier]
# Runs the check against the worktree (VERIF_REPO) so that /repo is left alone; evidence and failure files go to a
# scratch directory (VERIF_EVIDENCE / VERIF_OUT), so several evaluations may run at the same time.
wt=$1; pid=$2; tier=${3:-quick}
cd /verif
tag=$(basename $wt)_$pid
mkdir -p /tmp/seedeval/$tag
VERIF_REPO=$wt VERIF_TMP=/tmp VERIF_EVIDENCE=/tmp/seedeval/$tag/evidence VERIF_OUT=/tmp/seedeval/$tag/out timeout 1500 ./check $pid --tier $tier > /tmp/seedeval/$tag/out.txt 2>&1
rc=$?
echo "rc=$rc violations=$(grep -c '^VIOLATION' /tmp/seedeval/$tag/out.txt)"; grep "^VIOLATION\|^MACHINERY" -A1 /tmp/seedeval/$tag/out.txt | head -6 | cut -c1-220
