#!/bin/sh
# usage: tools_seed_eval.sh <patch.diff> <PID> [tier]   -- apply a seeded change to /repo, run the check, undo
patch=$1; pid=$2; tier=${3:-quick}
cd /repo || exit 2
git diff --quiet || { echo "/repo has uncommitted changes"; exit 2; }
git apply "$patch" || { echo "patch does not apply"; exit 2; }
cd /verif
timeout 1500 ./check $pid --tier $tier > /tmp/seed_eval_$pid.out 2>&1
rc=$?
git -C /repo checkout -- .
git -C /verif checkout -- evidence 2>/dev/null
echo "rc=$rc"; grep -c "^VIOLATION" /tmp/seed_eval_$pid.out; grep "^VIOLATION\|^KNOWN\|^MACHINERY" -A1 /tmp/seed_eval_$pid.out | head -8 | cut -c1-250
