#!/bin/sh
# run every claimed check once (quick tier by default) and summarise
tier=${1:-quick}
cd "$(dirname "$0")" || exit 2
out=${RUNALL_OUT:-/tmp}
for p in ${RUNALL_PIDS:-C01 C02 C03 C04 C05 C06 C07 C08 C09 C10 C11 C12 C13 C14 C15 C16 C17 C18 C19 C20}; do
  s=$(date +%s)
  timeout 3000 ./check $p --tier $tier > $out/runall_$p.out 2>&1
  rc=$?
  e=$(( $(date +%s) - s ))
  echo "$p rc=$rc ${e}s $(grep -c '^VIOLATION' $out/runall_$p.out) violations $(grep -c '^KNOWN-FINDING' $out/runall_$p.out) known $(grep -c MACHINERY $out/runall_$p.out) machinery"
done
