for s in 2 3 4; do echo "== seed $s"; VERIF_SEED=$s sh tools_run_all.sh quick; done
