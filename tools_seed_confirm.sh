#!/bin/sh
# usage: tools_seed_confirm.sh <worktree> <name>  -- confirm a seeded change (suite passes, demo FAILs with it, PASSes without) and file it
wt=$1; name=$2
cd $wt || exit 2
python=/venv/bin/python
where=$($python -c "import xtuml; print(xtuml.__file__)")
case "$where" in $wt/*) ;; *) echo "wrong import path $where"; exit 2;; esac
# ply never re-validates a cached lexer table, and without tables in the worktree the editable install falls back to those
# of /repo: regenerate them in the worktree for the state under test
regen() { rm -f xtuml/__*tab.py bridgepoint/__*tab.py; $python -c "import sys; sys.meta_path[:] = [f for f in sys.meta_path if not str(getattr(f, '__module__', type(f).__module__)).startswith('__editable__')]; import xtuml, bridgepoint.oal as o; xtuml.ModelLoader().input(''); o.parse('x = 1;')" >/dev/null 2>&1; }
regen
suite=$($python -m pytest -q -p no:cacheprovider --timeout=900 2>&1 | tail -1)
$python demo.py > /tmp/demo_with.out 2>&1; with=$?
git diff -- xtuml bridgepoint > /tmp/confirm_$$.patch; git apply -R /tmp/confirm_$$.patch
regen
$python demo.py > /tmp/demo_without.out 2>&1; without=$?
git apply /tmp/confirm_$$.patch; rm -f /tmp/confirm_$$.patch
regen
echo "suite: $suite | demo with change: exit $with | without: exit $without"
[ "$with" = 1 ] && [ "$without" = 0 ] || { echo "NOT CONFIRMED"; exit 1; }
case "$suite" in *"244 passed"*) ;; *) echo "NOT CONFIRMED (suite)"; exit 1;; esac
mkdir -p /verif/seeded/$name
git diff -- xtuml bridgepoint > /verif/seeded/$name/patch.diff
cp demo.py /verif/seeded/$name/demo.py
cp meta.json /verif/seeded/$name/meta.agent.json
echo "$suite" > /verif/seeded/$name/suite.txt
echo confirmed
