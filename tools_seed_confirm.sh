#!/bin/sh
# usage: tools_seed_confirm.sh <worktree> <name>  -- confirm a seeded change (suite passes, demo FAILs with it, PASSes without) and file it
wt=$1; name=$2
cd $wt || exit 2
python=/venv/bin/python
where=$($python -c "import xtuml; print(xtuml.__file__)")
case "$where" in $wt/*) ;; *) echo "wrong import path $where"; exit 2;; esac
suite=$($python -m pytest -q -p no:cacheprovider --timeout=900 2>&1 | tail -1)
$python demo.py > /tmp/demo_with.out 2>&1; with=$?
git diff -- xtuml bridgepoint > /tmp/confirm_$$.patch; git apply -R /tmp/confirm_$$.patch
$python demo.py > /tmp/demo_without.out 2>&1; without=$?
git apply /tmp/confirm_$$.patch; rm -f /tmp/confirm_$$.patch
echo "suite: $suite | demo with change: exit $with | without: exit $without"
[ "$with" = 1 ] && [ "$without" = 0 ] || { echo "NOT CONFIRMED"; exit 1; }
case "$suite" in *"244 passed"*) ;; *) echo "NOT CONFIRMED (suite)"; exit 1;; esac
mkdir -p /verif/seeded/$name
git diff -- xtuml bridgepoint > /verif/seeded/$name/patch.diff
cp demo.py /verif/seeded/$name/demo.py
cp meta.json /verif/seeded/$name/meta.agent.json
echo "$suite" > /verif/seeded/$name/suite.txt
echo confirmed
