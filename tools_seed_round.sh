#!/bin/sh
# usage: tools_seed_round.sh <worktree> ...   -- confirm each seeded change (name from its meta.json), file it, evaluate it
for wt in "$@"; do
  pid=$(python3 -c "import json;print(json.load(open('$wt/meta.json'))['property'])")
  nm=$(python3 -c "import json;print(json.load(open('$wt/meta.json'))['name'])")
  name=$pid-$nm
  echo "=== $name"
  sh /verif/tools_seed_confirm.sh $wt $name 2>&1 | tail -2
  sh /verif/tools_seed_eval_wt.sh $wt $pid
done
