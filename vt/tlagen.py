"""Python values -> TLA+ expressions; generation of MC modules and cfg files."""
import re

_ID = re.compile(r'^[A-Za-z_][A-Za-z0-9_]*$')
_KEYWORDS = {'IF', 'THEN', 'ELSE', 'LET', 'IN', 'CASE', 'OTHER', 'CHOOSE', 'DOMAIN', 'SUBSET', 'UNION',
             'ENABLED', 'UNCHANGED', 'EXCEPT', 'TRUE', 'FALSE', 'VARIABLE', 'VARIABLES', 'CONSTANT',
             'CONSTANTS', 'EXTENDS', 'INSTANCE', 'WITH', 'MODULE', 'ASSUME', 'THEOREM', 'LOCAL',
             'RECURSIVE', 'LAMBDA', 'BOOLEAN', 'STRING', 'WF_', 'SF_'}


def tla(v):
    if isinstance(v, bool):
        return 'TRUE' if v else 'FALSE'
    if isinstance(v, int):
        return str(v)
    if isinstance(v, str):
        return '"' + v.replace('\\', '\\\\').replace('"', '\\"').replace('\n', '\\n').replace('\t', '\\t') + '"'
    if isinstance(v, SetOf):
        return '{' + ', '.join(tla(x) for x in v) + '}'
    if isinstance(v, (list, tuple)):
        return '<<' + ', '.join(tla(x) for x in v) + '>>'
    if isinstance(v, (set, frozenset)):
        return '{' + ', '.join(tla(x) for x in sorted(v, key=repr)) + '}'
    if isinstance(v, dict):
        if not v:
            return '<<>>'
        if all(isinstance(k, str) and _ID.match(k) and k not in _KEYWORDS for k in v):
            return '[' + ', '.join('%s |-> %s' % (k, tla(x)) for k, x in v.items()) + ']'
        if len(v) <= 6:
            return '(' + ' @@ '.join('%s :> %s' % (tla(k), tla(x)) for k, x in v.items()) + ')'
        # a long @@ chain nests deeply and overflows TLC's evaluation stack
        ks = list(v.keys())
        return ('(LET ks == %s vs == %s IN [k \\in {ks[i] : i \\in DOMAIN ks} |-> '
                'vs[CHOOSE i \\in DOMAIN ks : ks[i] = k]])' % (tla(ks), tla([v[k] for k in ks])))
    raise TypeError('cannot express %r in TLA+' % (v,))


def mc_module(name, extends, defs):
    """defs: ordered dict  constant name -> python value (or raw TLA+ text if wrapped in Raw)."""
    lines = ['---- MODULE %s ----' % name, 'EXTENDS %s' % ', '.join(extends)]
    for k, v in defs.items():
        lines.append('MC_%s == %s' % (k, v.text if isinstance(v, Raw) else tla(v)))
    lines.append('====')
    return '\n'.join(lines) + '\n'


def cfg_constants(defs, plain=None):
    lines = ['CONSTANTS']
    for k in defs:
        lines.append('  %s <- MC_%s' % (k, k))
    for k, v in (plain or {}).items():
        lines.append('  %s = %s' % (k, v))
    return '\n'.join(lines) + '\n'


class SetOf(list):
    """a list to be emitted as a TLA+ set (for elements that are not hashable in python)"""


class Raw(object):
    def __init__(self, text):
        self.text = text
