"""Shared paths, scratch-directory handling and small helpers of the harness."""
import atexit
import json
import os
import shutil
import subprocess
import sys
import tempfile
import time

VERIF = os.path.dirname(os.path.dirname(os.path.abspath(__file__)))
REPO = os.environ.get('VERIF_REPO', '/repo')
SPEC = os.path.join(VERIF, 'spec')
# (seeded-change evaluations write their evidence and failure files elsewhere: VERIF_EVIDENCE / VERIF_OUT)
EVIDENCE = os.environ.get('VERIF_EVIDENCE') or os.path.join(VERIF, 'evidence')
FAILDIR = os.path.join(os.environ.get('VERIF_OUT') or os.path.join(VERIF, 'out'), 'failures')
PY = os.environ.get('VERIF_PYTHON', '/venv/bin/python')
NCPU = int(os.environ.get('VERIF_CPUS', os.cpu_count() or 4))
GUARD = 'PYXTUML_VERIF'


class MachineryError(Exception):
    """Raised when the harness itself fails (exit status 2, never a VIOLATION)."""


_scratch_dirs = []


def scratch(prefix='vt-'):
    """A scratch directory outside /repo and /verif, removed at exit."""
    base = os.environ.get('VERIF_TMP') or tempfile.gettempdir()
    d = tempfile.mkdtemp(prefix=prefix, dir=base)
    _scratch_dirs.append(d)
    return d


def _cleanup():
    if os.environ.get('VERIF_KEEP'):
        return
    for d in _scratch_dirs:
        shutil.rmtree(d, ignore_errors=True)


atexit.register(_cleanup)


def seed():
    try:
        return int(os.environ.get('VERIF_SEED', '0'))
    except ValueError:
        return 0


def write_json(path, obj, **kw):
    os.makedirs(os.path.dirname(path) or '.', exist_ok=True)
    tmp = path + '.tmp'
    with open(tmp, 'w') as f:
        json.dump(obj, f, **kw)
    os.replace(tmp, path)


def read_json(path):
    with open(path) as f:
        return json.load(f)


def log(*a):
    print(*a, file=sys.stderr, flush=True)


class Timer(object):
    def __init__(self):
        self.t0 = time.time()

    def s(self):
        return round(time.time() - self.t0, 3)


def run(cmd, env=None, cwd=None, timeout=None, input=None):
    e = dict(os.environ)
    if env:
        e.update(env)
    p = subprocess.run(cmd, env=e, cwd=cwd, timeout=timeout, input=input,
                       stdout=subprocess.PIPE, stderr=subprocess.STDOUT,
                       universal_newlines=True)
    return p.returncode, p.stdout
