"""Seeded generator of OAL programs as syntax trees in the vocabulary of
OalSyntax.tla.  Programs are name-resolved and type-correct over a small class
model so that the same corpus serves parsing (C07, C13), interpretation (C04,
C15), prebuild/text generation (C05, C06) and keyword case (C08).  The generator
only chooses programs; it never computes what they mean."""

# the class model the programs talk about (same data as vt/schemas.py entries)
from . import schemas as S

ID = 'UNIQUE_ID'
OAL_SCHEMA = {
    'classes': ['A', 'B', 'L', 'P', 'M'],
    'attrs': {'A': [S.at('Id', ID), S.at('N', 'INTEGER'), S.at('S', 'STRING'), S.at('F', 'BOOLEAN'), S.at('Prev_Id', ID)],
              'B': [S.at('Id', ID), S.at('N', 'INTEGER'), S.at('A_Id', ID)],
              'L': [S.at('A_Id', ID), S.at('B_Id', ID), S.at('W', 'INTEGER')],
              'P': [S.at('Id', ID), S.at('N', 'INTEGER')],
              'M': [S.at('One_Id', ID), S.at('Other_Id', ID), S.at('W', 'INTEGER')]},
    'assocs': [S.A('R1', 'B', ['A_Id'], 'MC', 'A', ['Id'], '1C'),
               S.A('R2', 'A', ['Prev_Id'], '1C', 'A', ['Id'], '1C', sphrase='succeeds', tphrase='precedes'),
               S.A('R3', 'L', ['A_Id'], '1C', 'A', ['Id'], '1'),
               S.A('R3', 'L', ['B_Id'], '1C', 'B', ['Id'], '1'),
               # a reflexive association class (the shape of tests/test_xtuml/test_phrase.py)
               S.A('R4', 'M', ['One_Id'], 'MC', 'P', ['Id'], '1', sphrase='one', tphrase='other'),
               S.A('R4', 'M', ['Other_Id'], 'MC', 'P', ['Id'], '1', sphrase='other', tphrase='one')],
    'uniques': {'A': [S.U('I1', 'Id')], 'B': [S.U('I1', 'Id')], 'L': [S.U('I1', 'A_Id', 'B_Id')], 'P': [S.U('I1', 'Id')],
                'M': [S.U('I1', 'One_Id', 'Other_Id')]},
}
S.SCHEMAS['oal'] = OAL_SCHEMA

ATTRS = {'A': {'N': 'int', 'S': 'str', 'F': 'bool'}, 'B': {'N': 'int'}, 'L': {'W': 'int'}, 'P': {'N': 'int'}, 'M': {'W': 'int'}}
# navigation steps: (from class) -> [(to class, rel, phrase, many)]
NAV = {
    'A': [('B', 'R1', '', True), ('A', 'R2', "'precedes'", False), ('A', 'R2', "'succeeds'", False), ('L', 'R3', '', False),
          ('B', 'R3', '', False)],
    'B': [('A', 'R1', '', False), ('L', 'R3', '', False), ('A', 'R3', '', False)],
    'L': [('A', 'R3', '', False), ('B', 'R3', '', False)],
    'P': [('M', 'R4', "'one'", True), ('M', 'R4', "'other'", True), ('P', 'R4', "'one'", True), ('P', 'R4', "'other'", True)],
    'M': [('P', 'R4', "'one'", False), ('P', 'R4', "'other'", False)],
}


# the action homes in which self names an instance (of class A)
SELF_HOMES = ('op', 'derived', 'state', 'transition')

# every keyword the grammar accepts where it says `identifier` (kw_as_identifier_1 .. 4), capitalised
KWIDS = ['Across', 'Any', 'Assign', 'Assigner', 'Break', 'By', 'Class', 'Continue', 'Control', 'Create', 'Creator', 'Delete', 'Each',
         'Event', 'For', 'From', 'Generate', 'In', 'Instances', 'Instance', 'Many', 'Object', 'One', 'Related', 'Relate', 'Select',
         'Stop', 'To', 'Where', 'Unrelate', 'Using', 'Bridge', 'Cardinality', 'Empty', 'False', 'Not', 'Not_empty', 'Send',
         'Transform', 'True', 'Of', 'Param', 'Rcvd_evt', 'Selected', 'Self', 'And', 'Elif', 'Else', 'If', 'Or', 'Return', 'While']


def I(v):
    return {'t': 'int', 'v': str(v)}


def V(n):
    return {'t': 'var', 'n': n}


def B(v):
    return {'t': 'bool', 'v': 'true' if v else 'false'}


def Str(s):
    return {'t': 'str', 'v': '"%s"' % s}


def Bin(op, l, r):
    return {'t': 'bin', 'op': op, 'l': l, 'r': r}


def Un(op, e):
    return {'t': 'un', 'op': op, 'e': e}


def Field(h, n):
    return {'t': 'field', 'h': h, 'n': n}


def Ret(e=None):
    return {'t': 'return', 'has': e is not None, 'e': e if e is not None else I(0)}


def If(c, b, elifs=(), els=None):
    return {'t': 'if', 'c': c, 'b': b, 'elifs': [{'c': x, 'b': y} for x, y in elifs], 'haselse': els is not None,
            'els': els if els is not None else []}


def Assign(lhs, e):
    return {'t': 'assign', 'lhs': lhs, 'e': e}


class Gen(object):
    def __init__(self, rnd, maxdepth=3, parens=0.0, syntax_only=False):
        self.rnd = rnd
        self.maxdepth = maxdepth
        self.parens = parens
        self.syntax_only = syntax_only
        self.scopes = [{}]       # name -> type ('int','str','bool','inst:A','set:A')
        self.ok = [set()]        # instance variables known to hold a live instance
        self.n = 0
        self.loops = 0
        self.home = 'func'

    # ---- symbol table ----
    def vars_of(self, ty):
        return [n for sc in self.scopes for n, t in sc.items() if t == ty]

    def fresh(self, ty, prefix='v'):
        self.n += 1
        name = '%s%d' % (prefix, self.n)
        if getattr(self, 'casevars', False) and self.rnd.random() < 0.3:
            # variable names are compared exactly: a new variable may differ from a visible one in letter case only
            seen = getattr(self, 'used', set())
            cands = sorted(n for sc in self.scopes for n in sc if n[:1].islower() and n[:1].upper() + n[1:] not in seen)
            if cands:
                other = self.rnd.choice(cands)
                name = other[:1].upper() + other[1:]
        self.used = getattr(self, 'used', set()) | {name}
        self.scopes[-1][name] = ty
        return name

    def declare(self, name, ty):
        for sc in self.scopes:
            if name in sc:
                sc[name] = ty
                return
        self.scopes[-1][name] = ty

    def live_insts(self, cls=None):
        out = []
        for sc in self.scopes:
            for n, t in sc.items():
                if t.startswith('inst:') and (cls is None or t == 'inst:' + cls) and any(n in s for s in self.ok):
                    out.append((n, t[5:]))
        return out

    def maybe_paren(self, e):
        if self.parens and self.rnd.random() < self.parens:
            return {'t': 'paren', 'e': e}
        return e

    # ---- expressions ----
    def expr(self, ty, d=0):
        r = self.rnd
        leaf = d >= self.maxdepth or r.random() < 0.3
        if ty == 'int':
            opts = ['lit']
            if self.vars_of('int'):
                opts += ['var', 'var']
            if any(ATTRS[c].get('N') or ATTRS[c].get('W') for _, c in self.live_insts()):
                opts += ['attr']
            if [n for sc in self.scopes for n, t in sc.items() if t.startswith('set:')]:
                opts += ['card']
            if not leaf:
                opts += ['bin', 'bin', 'bin', 'neg']
            k = r.choice(opts)
            if k == 'lit':
                return I(r.randint(0, 9))
            if k == 'var':
                return V(r.choice(self.vars_of('int')))
            if k == 'attr':
                n, c = r.choice([x for x in self.live_insts() if any(t == 'int' for t in ATTRS[x[1]].values())])
                a = r.choice([a for a, t in ATTRS[c].items() if t == 'int'])
                return Field(V(n), a)
            if k == 'card':
                s = r.choice([n for sc in self.scopes for n, t in sc.items() if t.startswith('set:')])
                return Un('cardinality', V(s))
            if k == 'neg':
                return Un(r.choice(['-', '+']), self.maybe_paren(self.expr('int', d + 1)))
            op = r.choice(['+', '-', '*', '+', '-', '%'] + ([] if getattr(self, 'no_division', False) else ['/']))
            if op in ('%', '/'):
                return Bin(op, self.maybe_paren(self.expr('int', d + 1)), I(r.randint(1, 4)))
            return Bin(op, self.maybe_paren(self.expr('int', d + 1)), self.maybe_paren(self.expr('int', d + 1)))
        if ty == 'bool':
            opts = ['lit']
            if self.vars_of('bool'):
                opts += ['var']
            if [x for x in self.live_insts() if x[1] == 'A']:
                opts += ['attr']
            insts = [n for sc in self.scopes for n, t in sc.items() if t.startswith('inst:') or t.startswith('set:')]
            if insts:
                opts += ['empty', 'empty']
            if not leaf:
                opts += ['cmp', 'cmp', 'cmp', 'and', 'or', 'not', 'scmp', 'bcmp']
            k = r.choice(opts)
            if k == 'lit':
                return B(r.random() < 0.5)
            if k == 'var':
                return V(r.choice(self.vars_of('bool')))
            if k == 'attr':
                n, c = r.choice([x for x in self.live_insts() if x[1] == 'A'])
                return Field(V(n), 'F')
            if k == 'empty':
                return Un(r.choice(['empty', 'not_empty']), V(r.choice(insts)))
            if k == 'cmp':
                return Bin(r.choice(['==', '!=', '<', '<=', '>', '>=']), self.maybe_paren(self.expr('int', d + 1)),
                           self.maybe_paren(self.expr('int', d + 1)))
            if k == 'scmp':
                return Bin(r.choice(['==', '!=']), self.expr('str', d + 1), self.expr('str', d + 1))
            if k == 'bcmp':
                # booleans compared with each other (a literal on either side among them)
                return Bin(r.choice(['==', '!=']), self.maybe_paren(self.expr('bool', self.maxdepth)),
                           self.maybe_paren(self.expr('bool', self.maxdepth)))
            if k == 'not':
                return Un('not', self.maybe_paren(self.expr('bool', d + 1)))
            return Bin('and' if k == 'and' else 'or', self.maybe_paren(self.expr('bool', d + 1)),
                       self.maybe_paren(self.expr('bool', d + 1)))
        if ty == 'str':
            opts = ['lit']
            if self.vars_of('str'):
                opts += ['var']
            if [x for x in self.live_insts() if x[1] == 'A']:
                opts += ['attr']
            if not leaf:
                opts += ['cat']
            k = r.choice(opts)
            if k == 'lit':
                if getattr(self, 'oddstrings', False) and r.random() < 0.3:
                    # a backslash is an ordinary character of a string literal
                    return Str(r.choice(['C:\\\\temp\\\\new', 'a\\\\n', 'C:\\dir', 'tab\\t', 'line\\n', 'end\\', '\\\\', '\\']))
                return Str(r.choice(['', 'a', 'b', 'hello world', 'x y']))
            if k == 'var':
                return V(r.choice(self.vars_of('str')))
            if k == 'attr':
                n, c = r.choice([x for x in self.live_insts() if x[1] == 'A'])
                return Field(V(n), 'S')
            return Bin('+', self.expr('str', d + 1), self.expr('str', d + 1))
        raise ValueError(ty)

    def where(self, cls, d=1):
        """a where clause over `selected` of class cls"""
        r = self.rnd
        ints = [a for a, t in ATTRS[cls].items() if t == 'int']
        if r.random() < 0.25:
            # equalities between an attribute of the candidate and a literal of its type, alone or joined by and
            def eq(a, t):
                lit = {'int': lambda: I(r.randint(0, 3)), 'bool': lambda: B(r.random() < 0.5),
                       'str': lambda: Str(r.choice(['', 'a', 'b']))}[t]()
                f = Field({'t': 'selected'}, a)
                return Bin('==', f, lit) if r.random() < 0.8 else Bin('==', lit, f)
            names = sorted(ATTRS[cls].items())
            r.shuffle(names)
            e = eq(*names[0])
            for a, t in names[1:r.choice([1, 1, 2, 3])]:
                e = Bin('and', self.maybe_paren(e), self.maybe_paren(eq(a, t)))
            return self.maybe_paren(e) if r.random() < 0.5 else e
        if ints and r.random() < 0.8:
            e = Bin(r.choice(['==', '!=', '<', '>=']), Field({'t': 'selected'}, r.choice(ints)), self.expr('int', self.maxdepth - 1))
        elif cls == 'A':
            e = r.choice([Field({'t': 'selected'}, 'F'), Bin('==', Field({'t': 'selected'}, 'S'), self.expr('str', self.maxdepth))])
        else:
            e = B(True)
        if r.random() < 0.3 and ints:
            e = Bin(r.choice(['and', 'or']), self.maybe_paren(e),
                    Bin('<', Field({'t': 'selected'}, ints[0]), I(r.randint(1, 9))))
        return e

    # ---- statements ----
    def block(self, d, n=None):
        self.scopes.append({})
        self.ok.append(set())
        out = []
        for _ in range(n if n is not None else self.rnd.randint(1, 3)):
            s = self.stmt(d)
            if s is not None:
                out.extend(s if isinstance(s, list) else [s])
        self.scopes.pop()
        self.ok.pop()
        return out

    def stmt(self, d):
        r = self.rnd
        kinds = ['assign', 'assign', 'assign', 'create', 'select_from', 'attr_write', 'select_related', 'attr_write', 'select_related']
        # (a relate / unrelate chosen blindly is often rejected, which puts the whole program outside the domain)
        if self.syntax_only or r.random() < 0.3:
            kinds += ['relate', 'relate_using']
        if d < self.maxdepth:
            kinds += ['if', 'if', 'while', 'for']
        if self.loops:
            kinds += ['break', 'continue']
        if d > 0:
            kinds += ['return']
            if not self.syntax_only and r.random() < 0.25:
                kinds += ['control']
        if self.live_insts():
            kinds += ['delete']
        if self.syntax_only:
            kinds += ['syntax', 'syntax']
        if getattr(self, 'calls', False):
            kinds += ['callable'] * (6 if getattr(self, 'more', False) else 3)
        if getattr(self, 'events', False):
            kinds += ['event', 'event']
        if getattr(self, 'ports', False):
            kinds += ['port', 'port']
        k = r.choice(kinds)
        if k == 'assign':
            ty = r.choice(['int', 'int', 'bool', 'str'])
            e = self.maybe_paren(self.expr(ty))
            old = self.vars_of(ty)
            name = r.choice(old) if old and r.random() < 0.5 else self.fresh(ty)
            return Assign(V(name), e)
        if k == 'create':
            c = r.choice(['A', 'B', 'A', 'P', 'M', 'L'])
            name = self.fresh('inst:' + c, 'i')
            self.ok[-1].add(name)
            return {'t': 'create', 'v': name, 'k': c}
        if k == 'delete':
            n, c = r.choice(self.live_insts())
            for s in self.ok:
                s.discard(n)
            return {'t': 'delete', 'v': n}
        if k == 'attr_write':
            li = self.live_insts()
            if not li:
                return None
            n, c = r.choice(li)
            a, t = r.choice(sorted(ATTRS[c].items()))
            return Assign(Field(V(n), a), self.maybe_paren(self.expr(t)))
        if k == 'select_from':
            c = r.choice(['A', 'B'])
            card = r.choice(['any', 'many'])
            haswhere = r.random() < 0.5
            w = self.where(c) if haswhere else B(True)
            name = self.fresh(('inst:' if card == 'any' else 'set:') + c, 's')
            return {'t': 'select_from', 'card': card, 'v': name, 'k': c, 'haswhere': haswhere, 'w': w}
        if k == 'select_related':
            li = self.live_insts()
            sets = [(n, t[4:]) for sc in self.scopes for n, t in sc.items() if t.startswith('set:')]
            if not li and not sets:
                return None
            frm_set = bool(sets) and (not li or r.random() < 0.3)
            n, c = r.choice(sets if frm_set else li)
            chain = []
            cur = c
            many = frm_set
            for _ in range(r.randint(1, 3)):
                kd, rel, ph, m = r.choice(NAV[cur])
                chain.append({'k': kd, 'rel': rel, 'ph': ph})
                many = many or m
                cur = kd
            card = r.choice(['many', 'any']) if many else r.choice(['one', 'any'])
            haswhere = r.random() < 0.4
            w = self.where(cur) if haswhere else B(True)
            name = self.fresh(('set:' if card == 'many' else 'inst:') + cur, 'r')
            return {'t': 'select_related', 'card': card, 'v': name, 'h': V(n), 'chain': chain, 'haswhere': haswhere, 'w': w}
        if k == 'relate':
            la = self.live_insts('A')
            lb = self.live_insts('B')
            if la and lb and r.random() < 0.6:
                a, b = r.choice(la)[0], r.choice(lb)[0]
                x, y = (a, b) if r.random() < 0.5 else (b, a)
                return {'t': r.choice(['relate', 'relate', 'unrelate']), 'a': x, 'b': y, 'rel': 'R1', 'ph': '', 'using': ''}
            if len(la) >= 2:
                x, y = r.sample([n for n, _ in la], 2)
                return {'t': r.choice(['relate', 'relate', 'unrelate']), 'a': x, 'b': y, 'rel': 'R2',
                        'ph': r.choice(["'precedes'", "'succeeds'"]), 'using': ''}
            return None
        if k == 'relate_using':
            op = r.choice(['relate', 'relate', 'unrelate'])
            lp, lm = self.live_insts('P'), self.live_insts('M')
            la, lb, ll = self.live_insts('A'), self.live_insts('B'), self.live_insts('L')
            if len(lp) >= 2 and lm and r.random() < 0.6:
                x, y = r.sample([n for n, _ in lp], 2)
                return {'t': op, 'a': x, 'b': y, 'rel': 'R4', 'ph': r.choice(["'one'", "'other'"]), 'using': r.choice(lm)[0]}
            if la and lb and ll:
                x, y = r.choice(la)[0], r.choice(lb)[0]
                if r.random() < 0.5:
                    x, y = y, x
                return {'t': op, 'a': x, 'b': y, 'rel': 'R3', 'ph': '', 'using': r.choice(ll)[0]}
            return None
        if k == 'if':
            # a guard on an instance handle makes it usable inside the block
            insts = [(n, t[5:]) for sc in self.scopes for n, t in sc.items() if t.startswith('inst:')]
            if insts and r.random() < 0.4:
                n, c = r.choice(insts)
                self.scopes.append({})
                self.ok.append({n})
                body = []
                for _ in range(r.randint(1, 3)):
                    s = self.stmt(d + 1)
                    if s is not None:
                        body.extend(s if isinstance(s, list) else [s])
                if not body:
                    body = [Assign(V(self.fresh('int')), I(1))]
                self.scopes.pop()
                self.ok.pop()
                return If(Un('not_empty', V(n)), body)
            c = self.maybe_paren(self.expr('bool'))
            b = self.block(d + 1)
            elifs = [(self.expr('bool'), self.block(d + 1)) for _ in range(r.choice([0, 0, 1, 2]))]
            els = self.block(d + 1) if r.random() < 0.5 else None
            return If(c, b, elifs, els)
        if k == 'while':
            # bounded counter pattern: c = n; while (c > 0) ... c = c - 1; end while
            cn = self.fresh('int', 'c')
            self.loops += 1
            body = self.block(d + 1)
            self.loops -= 1
            dec = Assign(V(cn), Bin('-', V(cn), I(1)))
            # decrement first so that `continue` cannot skip it
            return [Assign(V(cn), I(r.randint(0, 3))),
                    {'t': 'while', 'c': Bin('>', V(cn), I(0)), 'b': [dec] + body}]
        if k == 'for':
            sets = [(n, t[4:]) for sc in self.scopes for n, t in sc.items() if t.startswith('set:')]
            pre = []
            if not sets:
                c = r.choice(['A', 'B'])
                sn = self.fresh('set:' + c, 's')
                pre.append({'t': 'select_from', 'card': 'many', 'v': sn, 'k': c, 'haswhere': False, 'w': B(True)})
                sets = [(sn, c)]
            sn, c = r.choice(sets)
            # the loop variable is new, or a visible instance variable of that class bound further out (an earlier loop
            # variable, a created or selected instance): the binding is updated where it is
            old = [n for sc in self.scopes for n, t in sc.items() if t == 'inst:' + c]
            iv = r.choice(old) if old and r.random() < 0.4 else self.fresh('inst:' + c, 'e')
            self.scopes.append({})
            self.ok.append({iv})
            self.loops += 1
            body = []
            for _ in range(r.randint(1, 3)):
                s = self.stmt(d + 1)
                if s is not None:
                    body.extend(s if isinstance(s, list) else [s])
            self.loops -= 1
            if not body:
                body = [Assign(V(self.fresh('int')), I(2))]
            self.scopes.pop()
            self.ok.pop()
            return pre + [{'t': 'for', 'v': iv, 's': sn, 'b': body}]
        if k == 'break':
            return {'t': 'break'}
        if k == 'continue':
            return {'t': 'continue'}
        if k == 'return':
            return Ret(self.maybe_paren(self.expr(r.choice(['int', 'int', 'bool', 'str']))) if r.random() < 0.85 else None)
        if k == 'control':
            return {'t': 'control'}
        if k == 'syntax':
            return self.syntax_stmt()
        if k == 'callable':
            return self.callable_stmt()
        if k == 'event':
            return self.event_stmt()
        if k == 'port':
            return self.port_stmt()
        return None

    # name-resolved invocations of the callables every C05/C06 model declares (see vt/callgen.py, vt/adapters/prebuildgen.py)
    def callable_stmt(self):
        r = self.rnd
        ps = lambda **kw: [{'n': a, 'e': e} for a, e in kw.items()]
        intv = lambda: self.expr('int', self.maxdepth - 1)
        kinds = ['fcall_stmt', 'fcall_value', 'mix', 'classop', 'classop_value', 'bridge', 'bridge_assign', 'enum', 'const',
                 'bridge_value', 'ref_read']
        kinds += ['udt_call', 'redeclare', 'array', 'array', 'nested_call', 'nested_call']
        if self.home != 'derived':
            kinds += ['param', 'param_if', 'udt_param']        # a derived attribute has no parameters
        la = self.live_insts('A')
        if la:
            kinds += ['instop', 'instop_value']
        if self.home in SELF_HOMES:
            kinds += ['self_attr', 'self_read', 'self_op', 'self_relate', 'self_relate', 'self_relate', 'self_select']
        if getattr(self, 'events', False):
            kinds += ['event'] * 5
        if getattr(self, 'more', False):
            # real literals and real-typed variables, creation without a variable, copies of instance handles and of
            # instance sets, assignments to parameters
            kinds += ['real', 'real', 'create_nv', 'handle_copy', 'handle_copy', 'set_ops', 'set_ops']
            if self.home in ('func', 'bridge', 'op'):
                kinds += ['param_write']
        if getattr(self, 'arrays', False):
            # elements of an array-valued attribute (Items of A) and of an array-valued parameter / event data item (vec)
            if la or self.home in SELF_HOMES:
                kinds += ['attr_array'] * 3
            if self.home != 'derived':
                kinds += ['param_array'] * 2
        k = r.choice(kinds)
        if k == 'event':
            return self.event_stmt()

        def assign_new(ty, prefix, e):
            # the value is generated before the variable exists
            return Assign(V(self.fresh(ty, prefix)), e)

        def scoped(make):
            self.scopes.append({})
            self.ok.append(set())
            body = make()
            self.scopes.pop()
            self.ok.pop()
            return body
        if k == 'real':
            R = lambda: {'t': 'real', 'v': r.choice(['1.5', '0.25', '10.0', '007.50', '.5', '2.', '1e3', '3.25f', '2.0L', '0.00001'])}
            rv = self.vars_of('real')
            atom = lambda: V(r.choice(rv)) if rv and r.random() < 0.5 else R()
            e = r.choice([atom, lambda: Bin(r.choice(['+', '-', '*']), atom(), r.choice([R, lambda: I(r.randint(1, 9))])()),
                          lambda: Un('-', atom()), lambda: self.maybe_paren(Bin('*', atom(), atom()))])()
            out = [Assign(V(r.choice(rv)), e) if rv and r.random() < 0.4 else assign_new('real', 'rv', e)]
            if r.random() < 0.5:
                out.append(assign_new('bool', 'rb', Bin(r.choice(['<', '>=', '==']), V(r.choice(self.vars_of('real'))), R())))
            iv = self.vars_of('int')
            if iv and r.random() < 0.5:
                # a real value assigned to a variable that was first assigned an integer: the variable stays what it was
                x = r.choice(iv)
                out += [Assign(V(x), R() if r.random() < 0.6 else V(r.choice(self.vars_of('real')))),
                        assign_new('int', 'rk', V(x) if r.random() < 0.5 else Bin('*', V(x), I(2)))]
            return out
        if k == 'set_ops':
            # union, intersection, difference and symmetric difference of instance sets of one class (typed like their left
            # operand); | binds like + and -, & and ^ like * and /
            sets = [(n, t[4:]) for sc in self.scopes for n, t in sc.items() if t.startswith('set:')]
            if not sets:
                return None
            n1, c = r.choice(sets)
            same = [n for n, c2 in sets if c2 == c]
            e = Bin(r.choice(['|', '&', '-', '^']), V(n1), V(r.choice(same)))
            if r.random() < 0.5:
                e2 = V(r.choice(same))
                op = r.choice(['|', '&', '-', '^'])
                e = self.maybe_paren(Bin(op, e, e2) if r.random() < 0.5 else Bin(op, e2, e))
            name = self.fresh('set:' + c, 'su')
            return [Assign(V(name), e), assign_new('int', 'sn', Un('cardinality', V(name)))]
        if k == 'create_nv':
            return {'t': 'create_nv', 'k': r.choice(['A', 'B', 'P'])}
        if k == 'param_write':
            return Assign({'t': 'param', 'n': 'x'}, intv())
        if k == 'handle_copy':
            li = self.live_insts()
            sets = [(n, t[4:]) for sc in self.scopes for n, t in sc.items() if t.startswith('set:')]
            if li and (not sets or r.random() < 0.6):
                n, c = r.choice(li)
                name = self.fresh('inst:' + c, 'h')
                self.ok[-1].add(name)
                out = [Assign(V(name), V(n))]
                if c in ATTRS and r.random() < 0.6:
                    a, t = r.choice(sorted(ATTRS[c].items()))
                    out.append(assign_new(t, 'hc', Field(V(name), a)))
                return out
            if sets:
                n, c = r.choice(sets)
                name = self.fresh('set:' + c, 'hs')
                return [Assign(V(name), V(n)), assign_new('int', 'hn', Un('cardinality', V(name)))]
            return None
        if k in ('attr_array', 'param_array'):
            idx = lambda h, e: {'t': 'index', 'h': h, 'e': e}
            anyidx = lambda: I(r.randint(0, 3)) if r.random() < 0.6 else intv()
            if k == 'param_array':
                e = idx({'t': 'param', 'n': 'vec'}, anyidx())
                e = e if r.random() < 0.5 else Bin(r.choice(['+', '*']), e, intv())
                return assign_new('int', 'pv', e)
            hs = [V(n) for n, _ in la] + ([{'t': 'self'}] if self.home in SELF_HOMES else [])
            h = r.choice(hs)
            out = [Assign(idx(Field(h, 'Items'), anyidx()), intv())]
            if r.random() < 0.7:
                h2 = r.choice(hs)
                out.append(Assign(idx(Field(h2, 'Items'), anyidx()), Bin('+', idx(Field(h, 'Items'), anyidx()), I(r.randint(1, 3)))))
            if r.random() < 0.7:
                out.append(assign_new('int', 'av', idx(Field(r.choice(hs), 'Items'), anyidx())))
            return out
        if k == 'array':
            # elements of array variables: the first assignment to an element declares the array (constant index) with the
            # type of the value; later elements are written and read under any index expression; two dimensions
            idx = lambda h, e: {'t': 'index', 'h': h, 'e': e}
            ty = r.choice(['int', 'int', 'str', 'bool'])
            lit = {'int': lambda: I(r.randint(0, 9)), 'str': lambda: Str(r.choice(['', 'a', 'x y'])), 'bool': lambda: B(r.random() < 0.5)}[ty]
            arr = self.fresh('arr:' + ty, 'arr')
            anyidx = lambda: I(r.randint(0, 3)) if r.random() < 0.6 else intv()
            out = [Assign(idx(V(arr), I(r.randint(0, 4))), lit() if r.random() < 0.6 else self.expr(ty, self.maxdepth))]
            if r.random() < 0.7:
                rhs = idx(V(arr), anyidx())
                if ty == 'int':
                    rhs = Bin(r.choice(['+', '*', '-']), rhs, I(r.randint(1, 3)))
                out.append(Assign(idx(V(arr), anyidx()), rhs))
            if r.random() < 0.8:
                out.append(assign_new(ty, 'e', idx(V(arr), anyidx())))
            if r.random() < 0.4:
                m = self.fresh('arr:int', 'mat')
                out.append(Assign(idx(idx(V(m), I(r.randint(0, 2))), I(r.randint(0, 2))), intv()))
                out.append(assign_new('int', 'c', Bin('+', idx(idx(V(m), anyidx()), anyidx()), I(1))))
            if ty == 'int' and r.random() < 0.4:
                out.append(If(Bin('>', idx(V(arr), anyidx()), I(r.randint(0, 5))),
                              scoped(lambda: [Assign(idx(V(arr), anyidx()), I(0))])))
            return out
        if k == 'nested_call':
            # an invocation statement whose arguments are invocations themselves: of the same kind and of other kinds
            inner = lambda: r.choice([
                lambda: {'t': 'fcall', 'n': 'fact', 'ps': ps(n=intv())},
                lambda: {'t': 'icall', 'kind': 'implicit', 'ns': 'A', 'n': 'cop', 'ps': ps(x=intv())},
                # (an invocation written NS::name(...) inside an expression is of the implicit kind)
                lambda: {'t': 'icall', 'kind': 'implicit', 'ns': 'EE1', 'n': 'br', 'ps': ps(s=Str('in'), n=intv())},
                lambda: Bin('+', {'t': 'fcall', 'n': 'fact', 'ps': ps(n=I(r.randint(0, 3)))}, I(1))])()
            outer = r.choice(['fcall', 'classop', 'bridge', 'mix'])
            if outer == 'fcall':
                inv = {'t': 'fcall', 'n': 'fact', 'ps': ps(n=inner())}
            elif outer == 'classop':
                inv = {'t': 'icall', 'kind': 'implicit', 'ns': 'A', 'n': 'cop', 'ps': ps(x=inner())}
            elif outer == 'bridge':
                inv = {'t': 'icall', 'kind': 'bridge', 'ns': 'EE1', 'n': 'br', 'ps': ps(s=self.expr('str', self.maxdepth), n=inner())}
            else:
                args = [('a', inner()), ('b', inner()), ('s', Str('x')), ('f', B(True))]
                r.shuffle(args)
                inv = {'t': 'fcall', 'n': 'mix', 'ps': [{'n': a, 'e': e} for a, e in args]}
            return {'t': 'call', 'inv': inv}
        if k == 'fcall_stmt':
            return {'t': 'call', 'inv': {'t': 'fcall', 'n': 'fact', 'ps': ps(n=intv())}}
        if k == 'fcall_value':
            return assign_new('int', 'f', Bin('+', {'t': 'fcall', 'n': 'fact', 'ps': ps(n=intv())}, I(1)))
        if k == 'mix':
            args = [('a', intv()), ('b', intv()), ('s', self.expr('str', self.maxdepth)), ('f', self.expr('bool', self.maxdepth))]
            r.shuffle(args)
            return assign_new('int', 'm', {'t': 'fcall', 'n': 'mix', 'ps': [{'n': a, 'e': e} for a, e in args]})
        if k == 'classop':
            return {'t': 'call', 'inv': {'t': 'icall', 'kind': 'implicit', 'ns': 'A', 'n': 'cop', 'ps': ps(x=intv())}}
        if k == 'classop_value':
            return assign_new('int', 'k', Bin('-', {'t': 'icall', 'kind': 'implicit', 'ns': 'A', 'n': 'cop', 'ps': ps(x=intv())}, I(2)))
        if k == 'bridge':
            return {'t': 'call', 'inv': {'t': 'icall', 'kind': 'bridge', 'ns': 'EE1', 'n': 'br',
                                         'ps': ps(s=self.expr('str', self.maxdepth), n=intv())}}
        if k == 'bridge_assign':
            return assign_new('int', 'b', {'t': 'icall', 'kind': 'implicit', 'ns': 'EE1', 'n': 'br',
                                           'ps': ps(s=self.expr('str', self.maxdepth), n=intv())})
        if k == 'bridge_value':
            inv = lambda: {'t': 'icall', 'kind': 'implicit', 'ns': 'EE1', 'n': 'br', 'ps': ps(s=Str('x'), n=intv())}
            c = Bin('!=', I(4), inv())
            return If(c, scoped(lambda: [assign_new('int', 'q', Bin('*', inv(), I(2)))]))
        if k == 'instop':
            n, _ = r.choice(la)
            return {'t': 'call', 'inv': {'t': 'ocall', 'h': V(n), 'n': 'iop', 'ps': ps(k=intv())}}
        if k == 'instop_value':
            n, _ = r.choice(la)
            return assign_new('int', 'o', Bin('+', {'t': 'ocall', 'h': V(n), 'n': 'iop', 'ps': ps(k=intv())}, I(1)))
        if k == 'param':
            return assign_new('int', 'p', Bin('+', {'t': 'param', 'n': 'x'}, intv()))
        if k == 'redeclare':
            # a name declared in a nested block and declared again, with another type, after that block has closed
            # (in a sibling branch and in the enclosing block)
            held = {}

            def first():
                held['n'] = self.fresh('int', 'rd')
                return [Assign(V(held['n']), I(r.randint(0, 9))), assign_new('int', 'rk', Bin('+', V(held['n']), I(1)))]

            def sibling():
                self.scopes[-1][held['n']] = 'bool'
                return [Assign(V(held['n']), B(r.random() < 0.5)), If(V(held['n']), scoped(lambda: [assign_new('int', 'rj', I(2))]))]
            a, b = scoped(first), scoped(sibling)
            self.scopes[-1][held['n']] = 'str'
            return [If(self.expr('bool', self.maxdepth), a, [], b), Assign(V(held['n']), Str('one')),
                    assign_new('str', 'rs', Bin('+', V(held['n']), Str('!')))]
        if k in ('udt_param', 'udt_call'):
            # values of a user-defined type (Count over integer): the variable they declare, and what is computed from it
            src = {'t': 'param', 'n': 'cnt'} if k == 'udt_param' else {'t': 'fcall', 'n': 'tally', 'ps': ps(n=intv())}
            first = assign_new('int', 'u', src)
            u = first['lhs']['n']
            return [first, Assign(V(u), Bin(r.choice(['+', '*']), V(u), I(r.randint(1, 3)))),
                    If(Bin(r.choice(['>', '==']), V(u), I(r.randint(0, 5))),
                       scoped(lambda: [assign_new('int', 'w', Bin('+', I(1), V(u)))]))]
        if k == 'param_if':
            return If({'t': 'param', 'n': 'flag'}, scoped(lambda: [assign_new('str', 'p', {'t': 'param', 'n': 's'})]))
        if k == 'enum':
            return assign_new('int', 'c', {'t': 'enum', 'ns': 'Color', 'n': r.choice(['RED', 'GREEN', 'BLUE'])})
        if k == 'const':
            # (two constant specifications hold a constant LIMIT)
            ns, n = r.choice([('Group', 'LIMIT'), ('Bounds', 'LIMIT'), ('Bounds', 'LIMIT'), ('Bounds', 'FLOOR')])
            return assign_new('int', 'l', Bin('+', {'t': 'enum', 'ns': ns, 'n': n}, I(1)))
        if k == 'self_attr':
            return Assign(Field({'t': 'self'}, 'N'), intv())
        if k == 'self_read':
            return assign_new('int', 'n', Field({'t': 'self'}, 'N'))
        if k == 'ref_read':
            # a referential attribute read: typed as the attribute it refers to
            cands = [(n, t[5:]) for sc in self.scopes for n, t in sc.items() if t in ('inst:B', 'inst:L', 'inst:M') and n in set().union(*self.ok)]
            if not cands:
                b = self.fresh('inst:B', 'b')
                self.ok[-1].add(b)
                pre = [{'t': 'create', 'v': b, 'k': 'B'}]
                cands = [(b, 'B')]
            else:
                pre = []
            n, c = r.choice(cands)
            attr = r.choice({'B': ['A_Id'], 'L': ['A_Id', 'B_Id'], 'M': ['One_Id', 'Other_Id']}[c])
            return pre + [assign_new('id', 'k', Field(V(n), attr))]
        if k == 'self_relate':
            # self named as an instance of a relate / unrelate statement
            bs = [n for sc in self.scopes for n, t in sc.items() if t == 'inst:B']
            pre = []
            if not bs:
                b = self.fresh('inst:B', 'b')
                pre.append({'t': 'create', 'v': b, 'k': 'B'})
                bs = [b]
            x, y = ('self', r.choice(bs)) if r.random() < 0.5 else (r.choice(bs), 'self')
            return pre + [{'t': r.choice(['relate', 'unrelate']), 'a': x, 'b': y, 'rel': 'R1', 'ph': '', 'using': ''}]
        if k == 'self_select':
            sn = self.fresh('set:B', 'r')
            return {'t': 'select_related', 'card': 'many', 'v': sn, 'h': {'t': 'self'}, 'chain': [{'k': 'B', 'rel': 'R1', 'ph': ''}],
                    'haswhere': False, 'w': B(True)}
        if k == 'self_op':
            return assign_new('int', 'w', {'t': 'ocall', 'h': {'t': 'self'}, 'n': 'iop', 'ps': ps(k=intv())})
        return None

    # statement productions that are only parsed (events, bridges, operations, ports, arrays, enumerators)
    # the state machines of the corpus model (vt/adapters/prebuildgen.py declares them): label -> (meaning, data items)
    INST_EVENTS = {'A': {'A1': ("'go'", [('x', 'int'), ('flag', 'bool'), ('s', 'str')]), 'A2': ("'stop now'", []),
                         'A3': ("'set'", [('n', 'int')]), 'A5': ("'poly'", [('n', 'int')])},
                   'B': {'B1': ("'ping'", [('n', 'int'), ('m', 'int')])}}
    POLY_EVENTS = ('A5',)
    CLASS_EVENTS = {'A': {'A_A1': ("'tick'", [('n', 'int')]), 'A_A2': ("'reset'", [])}}

    def event_stmt(self):
        """a name-resolved event statement: generate to an instance / a creator / a class (assigner) state machine, create
        event instance ..., generate of an event instance created before.  The data items are supplied by name in any
        order; an event variable is declared by the first create event statement that names it"""
        r = self.rnd

        def spec(table, c):
            label = r.choice(sorted(table[c]))
            meaning, items = table[c][label]
            items = list(items)
            r.shuffle(items)
            data = [{'n': n, 'e': self.maybe_paren(self.expr(ty, self.maxdepth - 1))} for n, ty in items]
            # (A5 is a polymorphic event: it may be written with or without its star)
            return {'id': label, 'poly': label in self.POLY_EVENTS and r.random() < 0.7, 'meaning': meaning, 'hasdata': bool(data) or r.random() < 0.5, 'data': data}
        targets = [(V(n), c) for n, c in self.live_insts() if c in self.INST_EVENTS]
        if self.home in SELF_HOMES:
            targets.append(({'t': 'self'}, 'A'))
        evs = self.vars_of('event')
        kinds = ['gen_creator', 'gen_class', 'create_creator', 'create_class'] + (['gen_inst', 'gen_inst', 'create_inst'] if targets else []) \
            + (['gen_pre', 'gen_pre'] if evs else [])
        k = r.choice(kinds)

        def evvar():
            # an event variable seen before (it is assigned again) or a new one
            if evs and r.random() < 0.4:
                return r.choice(evs)
            return self.fresh('event', 'ev')
        if k == 'gen_inst':
            to, c = r.choice(targets)
            return {'t': 'gen_inst', 'ev': spec(self.INST_EVENTS, c), 'to': to}
        if k == 'gen_creator':
            c = r.choice(sorted(self.INST_EVENTS))
            return {'t': 'gen_class', 'ev': spec(self.INST_EVENTS, c), 'k': c, 'word': 'creator'}
        if k == 'gen_class':
            return {'t': 'gen_class', 'ev': spec(self.CLASS_EVENTS, 'A'), 'k': 'A', 'word': 'class'}
        if k == 'gen_pre':
            return {'t': 'gen_pre', 'e': V(r.choice(evs))}
        if k == 'create_inst':
            to, c = r.choice(targets)
            ev = spec(self.INST_EVENTS, c)
            return {'t': 'create_ev_inst', 'v': evvar(), 'ev': ev, 'to': to}
        if k == 'create_creator':
            c = r.choice(sorted(self.INST_EVENTS))
            ev = spec(self.INST_EVENTS, c)
            return {'t': 'create_ev_class', 'v': evvar(), 'ev': ev, 'k': c, 'word': 'creator'}
        ev = spec(self.CLASS_EVENTS, 'A')
        return {'t': 'create_ev_class', 'v': evvar(), 'ev': ev, 'k': 'A', 'word': 'class'}

    # the ports of the component the corpus model lives in (vt/adapters/prebuildgen.py): Req requires and Prov provides the
    # interface Iface with the operations op1(a, b) -> integer, op0() and the signals sig1(n), sig0()
    PORT_NAMES = ('Req', 'Prov')
    PORT_OPS = {'op1': [('a', 'int'), ('b', 'str')], 'op0': []}
    PORT_SIGS = {'sig1': [('n', 'int')], 'sig0': []}

    def port_stmt(self):
        """messages across a port: a signal or an operation as a statement (with or without the word send), the value of an
        operation assigned (send x = ...) or used inside an expression, a signal sent to a target (send P::s(..) to x)"""
        r = self.rnd

        def msg(table, name, kind):
            items = list(table[name])
            r.shuffle(items)
            return {'t': 'icall', 'kind': kind, 'ns': r.choice(self.PORT_NAMES), 'n': name,
                    'ps': [{'n': n, 'e': self.maybe_paren(self.expr(ty, self.maxdepth - 1))} for n, ty in items]}
        word = lambda: r.choice(['port', 'implicit'])
        li = self.live_insts()
        k = r.choice(['sig_stmt', 'sig_stmt', 'op_stmt', 'op_assign', 'op_assign', 'op_value'] + (['send_to', 'send_to'] if li else []))
        if k == 'sig_stmt':
            return {'t': 'call', 'inv': msg(self.PORT_SIGS, r.choice(sorted(self.PORT_SIGS)), word())}
        if k == 'op_stmt':
            return {'t': 'call', 'inv': msg(self.PORT_OPS, r.choice(sorted(self.PORT_OPS)), word())}
        if k == 'op_assign':
            e = msg(self.PORT_OPS, 'op1', word())
            return Assign(V(self.fresh('int', 'po')), e)
        if k == 'op_value':
            e = Bin(r.choice(['+', '*', '-']), msg(self.PORT_OPS, 'op1', 'implicit'), I(r.randint(1, 3)))
            return Assign(V(self.fresh('int', 'pw')), e)
        m = msg(self.PORT_SIGS, r.choice(sorted(self.PORT_SIGS)), 'port')
        return {'t': 'send_event', 'port': m['ns'], 'n': m['n'], 'ps': m['ps'], 'to': V(r.choice(li)[0])}

    def syntax_stmt(self):
        r = self.rnd
        ps = lambda: [{'n': r.choice(['p', 'q', 'value']), 'e': self.expr(r.choice(['int', 'bool', 'str']))}
                      for _ in range(r.randint(0, 3))]
        ev = lambda: {'id': r.choice(['A1', 'B2', 'E_3']), 'poly': False, 'meaning': r.choice(['', "'go'", "'ready now'"]),
                      'hasdata': False, 'data': []}

        def evd():
            e = ev()
            e['data'] = ps()
            e['hasdata'] = bool(e['data'])
            return e
        k = r.choice(['bridge', 'bridge_assign', 'class_op', 'class_assign', 'inst_op', 'fcall', 'fcall_value', 'send', 'control',
                      'gen_class', 'gen_inst', 'gen_pre', 'create_ev_class', 'create_ev_inst', 'send_event', 'enum', 'index',
                      'param', 'create_nv', 'using', 'selfattr'])
        icall = lambda kind: {'t': 'icall', 'kind': kind, 'ns': r.choice(['LOG', 'ARCH', 'T_1']), 'n': r.choice(['LogInfo', 'op', 'f2']),
                              'ps': ps()}
        if k == 'bridge':
            return {'t': 'call', 'inv': icall('bridge')}
        if k == 'bridge_assign':
            return Assign(V(self.fresh('int', 'b')), icall('bridge'))
        if k == 'class_op':
            return {'t': 'call', 'inv': icall(r.choice(['class', 'implicit']))}
        if k == 'class_assign':
            return Assign(V(self.fresh('int', 'k')), icall(r.choice(['class', 'implicit'])))
        if k == 'send':
            return r.choice([{'t': 'call', 'inv': icall('port')}, Assign(V(self.fresh('int', 'p')), icall('port'))])
        if k == 'inst_op':
            h = r.choice([V('someinst'), {'t': 'self'}])
            return {'t': 'call', 'inv': {'t': 'ocall', 'h': h, 'n': 'compute', 'ps': ps()}}
        if k == 'fcall':
            return {'t': 'call', 'inv': {'t': 'fcall', 'n': r.choice(['f', 'do_it']), 'ps': ps()}}
        if k == 'fcall_value':
            return Assign(V(self.fresh('int', 'f')), Bin('+', {'t': 'fcall', 'n': 'g', 'ps': ps()}, I(1)))
        if k == 'control':
            return {'t': 'control'}
        if k == 'gen_class':
            return {'t': 'gen_class', 'ev': evd(), 'k': 'A', 'word': r.choice(['class', 'creator'])}
        if k == 'gen_inst':
            return {'t': 'gen_inst', 'ev': evd(), 'to': r.choice([V('target'), {'t': 'self'}])}
        if k == 'gen_pre':
            return {'t': 'gen_pre', 'e': V('evt')}
        if k == 'create_ev_class':
            return {'t': 'create_ev_class', 'v': 'evt', 'ev': evd(), 'k': 'B', 'word': r.choice(['class', 'creator'])}
        if k == 'create_ev_inst':
            return {'t': 'create_ev_inst', 'v': 'evt', 'ev': evd(), 'to': r.choice([V('target'), {'t': 'self'}])}
        if k == 'send_event':
            return {'t': 'send_event', 'port': 'Port1', 'n': 'sig', 'ps': ps(), 'to': V('target')}
        if k == 'enum':
            return Assign(V(self.fresh('int', 'n')), {'t': 'enum', 'ns': 'Color', 'n': r.choice(['RED', 'green'])})
        if k == 'index':
            return Assign({'t': 'index', 'h': V('arr'), 'e': self.expr('int')},
                          {'t': 'index', 'h': Field(V('rec'), 'items'), 'e': I(r.randint(0, 3))})
        if k == 'param':
            return Assign(V(self.fresh('int', 'a')), Bin('*', {'t': 'param', 'n': 'x'}, Field({'t': 'param', 'n': 'rec'}, 'w')))
        if k == 'create_nv':
            return {'t': 'create_nv', 'k': 'A'}
        if k == 'using':
            return {'t': r.choice(['relate', 'unrelate']), 'a': 'uno', 'b': 'other', 'rel': 'R3', 'ph': r.choice(['', "'of'"]),
                    'using': 'link'}
        return Assign(Field({'t': 'self'}, 'N'), self.expr('int'))

    def form_cover(self):
        """one program per statement / operand form of the grammar that random generation seldom reaches: every relate /
        unrelate form, phrases without ticks, the words transform / assigner / creator, polymorphic events, empty
        parameter lists in parentheses, empty statements, real constants, self and selected as whole expressions, keywords
        used as attribute, parameter, class, function and event names, rcvd_evt, nested index / field chains"""
        r = self.rnd
        E = lambda ty='int': self.expr(ty, 1)
        kwid = lambda: r.choice(KWIDS)
        ps = lambda n=None: [{'n': r.choice(['p', 'q', kwid()]), 'e': E(r.choice(['int', 'bool', 'str']))}
                             for _ in range(r.randint(1, 3) if n is None else n)]
        ev = lambda **kw: dict({'id': r.choice(['A1', 'B2', 'E_3', kwid()]), 'poly': False, 'meaning': r.choice(['', "'go'", 'ready']),
                                'hasdata': False, 'data': []}, **kw)
        out = []
        for t in ('relate', 'unrelate'):
            for ph in ('', "'is next to'", 'precedes', kwid()):
                for using in ('', 'lnk', 'self'):
                    a, b = r.choice([('x', 'y'), ('self', 'y'), ('x', 'self'), ('Each', 'Many')])
                    out.append([{'t': t, 'a': a, 'b': b, 'rel': r.choice(['R1', 'R22', 'Across']), 'ph': ph, 'using': using}])
        for word in ('class', 'creator', 'assigner'):
            out.append([{'t': 'gen_class', 'ev': ev(poly=r.random() < 0.5), 'k': r.choice(['A', kwid()]), 'word': word}])
            out.append([{'t': 'create_ev_class', 'v': 'evt', 'ev': ev(hasdata=True, data=ps()), 'k': 'B', 'word': word}])
        out.append([{'t': 'gen_inst', 'ev': ev(poly=True, hasdata=True, data=[]), 'to': V('target')}])
        out.append([{'t': 'gen_inst', 'ev': ev(poly=True, meaning="'x y'", hasdata=True, data=ps()), 'to': {'t': 'self'}}])
        out.append([{'t': 'create_ev_inst', 'v': 'e1', 'ev': ev(hasdata=True, data=[]), 'to': Field(V('x'), kwid())}])
        out.append([{'t': 'create_ev_inst', 'v': 'e2', 'ev': ev(poly=True), 'to': {'t': 'self'}}, {'t': 'gen_pre', 'e': V('e2')}])
        # instance-based operations with and without the word transform
        oc = lambda h: {'t': 'ocall', 'h': h, 'n': r.choice(['compute', kwid()]), 'ps': ps(r.randint(0, 2))}
        out.append([{'t': 'call', 'inv': oc(V('x')), 'tw': True}, {'t': 'call', 'inv': oc({'t': 'self'})}])
        out.append([dict(Assign(V('v'), oc(V('x'))), tw=True), Assign(Field(V('x'), 'N'), oc({'t': 'selected'}))])
        # empty statements
        out.append([{'t': 'empty'}, Assign(V('x'), E()), {'t': 'empty'}, {'t': 'empty'}, Ret(E())])
        out.append([If(E('bool'), [{'t': 'empty'}, Assign(V('y'), E())], [(E('bool'), [{'t': 'empty'}])], [{'t': 'empty'}, {'t': 'break'}])])
        out.append([{'t': 'while', 'c': E('bool'), 'b': [{'t': 'empty'}]}, {'t': 'for', 'v': 'e', 's': 'es', 'b': [{'t': 'continue'}, {'t': 'empty'}]}])
        # real constants, self / selected as whole expressions
        out.append([Assign(V('f'), Bin(r.choice(['+', '*', '-']), {'t': 'real', 'v': r.choice(['3.25', '0.5', '10.0'])}, E())),
                    Ret({'t': 'real', 'v': '2.75'})])
        # literal spellings are kept as written
        R = lambda *vs: {'t': 'real', 'v': r.choice(vs)}
        out.append([Assign(V('f'), R('1.50', '2.00', '007.5', '10.10')),
                    Assign(V('g'), Bin(r.choice(['+', '*']), R('.5', '1.', '1e3', '1.e5'), R('3.25f', '2.0L', '1e3F', '.5l'))),
                    Ret(Bin('*', Un('-', R('0.00001', '0.250')), R('12345678901234567890.5')))])
        out.append([Assign(V('i'), I(r.choice(['007', '00', '0']))), Assign(V('j'), Bin('-', I('12345678901234567890'), I('0010'))),
                    Assign(V('s'), Bin('+', Str(r.choice(['a // b', 'x//'])), Str(r.choice(['/* c */', '/*', '*/'])))),
                    Ret(Bin('+', Str(''), Str(r.choice(["it's 'x'", ' lead and trail ', 'end if;', '1.5']))))])
        # white space inside a token belongs to the token: tabs and runs of blanks in strings and ticked phrases
        out.append([Assign(V('t'), Bin('+', Str('a\tb'), Str(r.choice(['\t', 'x  y\t', ' \t ', 'two  blanks'])))),
                    {'t': 'relate', 'a': 'x', 'b': 'y', 'rel': 'R1', 'ph': r.choice(["'is\tpart of'", "'two  blanks'", "'\t'"]), 'using': ''},
                    {'t': 'select_related', 'card': 'many', 'v': 'r', 'h': V('x'),
                     'chain': [{'k': 'B', 'rel': 'R1', 'ph': r.choice(["'has\ta'", "'a   b'"])}], 'haswhere': False, 'w': B(True)}])
        out.append([Assign(V('me'), {'t': 'self'}),
                    {'t': 'select_from', 'card': r.choice(['any', 'many']), 'v': 's', 'k': r.choice(['A', kwid()]), 'haswhere': True,
                     'w': Bin('==', {'t': 'selected'}, {'t': 'self'})},
                    If(Bin('!=', {'t': 'self'}, V('me')), [Ret({'t': 'selected'})])])
        # keywords as names
        out.append([Assign(Field(V('x'), kwid()), Field(Field(V('y'), kwid()), kwid())),
                    {'t': 'call', 'inv': {'t': 'fcall', 'n': kwid(), 'ps': ps()}},
                    {'t': 'create', 'v': 'q', 'k': kwid()}, {'t': 'create_nv', 'k': kwid()},
                    Assign(V('c'), {'t': 'enum', 'ns': r.choice(['Color', 'From']), 'n': kwid()}),
                    Assign(V('d'), {'t': 'icall', 'kind': 'implicit', 'ns': 'LOG', 'n': kwid(), 'ps': ps()})])
        out.append([{'t': 'select_related', 'card': r.choice(['one', 'any', 'many']), 'v': 'r', 'h': r.choice([V('x'), {'t': 'self'}]),
                     'chain': [{'k': kwid(), 'rel': 'R1', 'ph': r.choice(['', 'precedes', "'a b'", kwid()])},
                               {'k': 'B', 'rel': r.choice(['R2', 'From']), 'ph': ''}],
                     'haswhere': True, 'w': Bin('>', Field({'t': 'selected'}, kwid()), E())}])
        # every keyword that may stand for an identifier, as the class of a selection (with and without where clause; the
        # renderer writes or drops the words `instances of`), of a creation, as attribute, function and parameter name
        out.append([{'t': 'select_from', 'card': r.choice(['any', 'many']), 'v': 's%d' % j, 'k': w, 'haswhere': bool(j % 2),
                     'w': Bin('==', Field({'t': 'selected'}, 'N'), I(j)) if j % 2 else B(True)} for j, w in enumerate(KWIDS)])
        out.append([[{'t': 'create', 'v': 'c%d' % j, 'k': w}, Assign(Field(V('c%d' % j), w), I(j)),
                     {'t': 'call', 'inv': {'t': 'fcall', 'n': w, 'ps': [{'n': w, 'e': I(j)}]}}][j % 3] for j, w in enumerate(KWIDS)])
        # parameters of both kinds, index and field chains
        pr = lambda w, n: {'t': 'param', 'w': w, 'n': n} if False else {'t': 'param', 'n': n}
        out.append([Assign({'t': 'index', 'h': {'t': 'index', 'h': V('m'), 'e': E()}, 'e': E()},
                           {'t': 'index', 'h': Field({'t': 'index', 'h': V('arr'), 'e': I(1)}, 'items'), 'e': Field({'t': 'param', 'n': 'rec'}, 'w')}),
                    Ret(Bin('+', {'t': 'index', 'h': {'t': 'param', 'n': 'vals'}, 'e': I(0)}, {'t': 'param', 'n': 'x'}))])
        out.append([{'t': 'send_event', 'port': 'Port1', 'n': r.choice(['sig', kwid()]), 'ps': [], 'to': Field(V('x'), 'peer')},
                    {'t': 'call', 'inv': {'t': 'icall', 'kind': 'port', 'ns': 'P', 'n': 'msg', 'ps': []}},
                    {'t': 'call', 'inv': {'t': 'icall', 'kind': 'bridge', 'ns': 'LOG', 'n': 'LogInfo', 'ps': []}},
                    {'t': 'call', 'inv': {'t': 'icall', 'kind': 'class', 'ns': 'A', 'n': 'op', 'ps': []}},
                    {'t': 'control'}, {'t': 'delete', 'v': r.choice(['x', 'self'])}, Ret()])
        # the seam between a condition (or the set of a for each) and the block when the optional word then / loop is
        # left out: conditions ending in a name, a field, a literal, a parenthesis; blocks beginning with an invocation
        # that starts with `::`, a bridge call, an assignment to self, an empty statement (four renderings each, so that
        # the word is dropped in some of them)
        ends = [V('busy'), Field(V('x'), 'ready'), Un('not', V('done')), {'t': 'paren', 'e': V('busy')}, B(True),
                Un('not_empty', V('x')), Bin('==', V('n'), V('m'))]
        firsts = [lambda: {'t': 'call', 'inv': {'t': 'fcall', 'n': r.choice(['tick', kwid()]), 'ps': ps(r.randint(0, 1))}},
                  lambda: {'t': 'call', 'inv': {'t': 'icall', 'kind': 'bridge', 'ns': 'LOG', 'n': 'LogInfo', 'ps': ps(1)}},
                  lambda: Assign(Field({'t': 'self'}, 'N'), I(1)),
                  lambda: {'t': 'empty'}]
        for rep in range(4):
            c = lambda: ends[r.randrange(len(ends))] if rep else ends[0]
            f = lambda: firsts[r.randrange(len(firsts))]() if rep > 1 else firsts[0]()
            out.append([{'t': 'while', 'c': c(), 'b': [f(), {'t': 'break'}]},
                        If(c(), [f()], [(c(), [f()]), (c(), [f(), f()])], [f()]),
                        {'t': 'for', 'v': 'item', 's': 'items', 'b': [f()]},
                        If(c(), [f(), f()])])
        return out

    def setup(self):
        """a population built by the program itself: instances, attribute values, links"""
        r = self.rnd
        body = []
        As, Bs = [], []
        for _ in range(r.randint(1, 3)):
            n = self.fresh('inst:A', 'a')
            self.ok[-1].add(n)
            As.append(n)
            body.append({'t': 'create', 'v': n, 'k': 'A'})
            if r.random() < 0.8:
                body.append(Assign(Field(V(n), 'N'), I(r.randint(0, 5))))
            if r.random() < 0.5:
                body.append(Assign(Field(V(n), 'S'), Str(r.choice(['a', 'b', 'x y']))))
            if r.random() < 0.5:
                body.append(Assign(Field(V(n), 'F'), B(r.random() < 0.5)))
        for _ in range(r.randint(0, 3)):
            n = self.fresh('inst:B', 'b')
            self.ok[-1].add(n)
            Bs.append(n)
            body.append({'t': 'create', 'v': n, 'k': 'B'})
            if r.random() < 0.8:
                body.append(Assign(Field(V(n), 'N'), I(r.randint(0, 5))))
            if As and r.random() < 0.8:
                a = r.choice(As)
                x, y = (a, n) if r.random() < 0.5 else (n, a)
                body.append({'t': 'relate', 'a': x, 'b': y, 'rel': 'R1', 'ph': '', 'using': ''})
        for i in range(len(As) - 1):
            if r.random() < 0.6:
                body.append({'t': 'relate', 'a': As[i], 'b': As[i + 1], 'rel': 'R2',
                             'ph': r.choice(["'precedes'", "'succeeds'"]), 'using': ''})
        if r.random() < 0.6:
            Ps = []
            for _ in range(r.randint(2, 3)):
                n = self.fresh('inst:P', 'p')
                self.ok[-1].add(n)
                Ps.append(n)
                body.append({'t': 'create', 'v': n, 'k': 'P'})
                body.append(Assign(Field(V(n), 'N'), I(r.randint(0, 5))))
            for _ in range(r.randint(1, 2)):
                m = self.fresh('inst:M', 'm')
                self.ok[-1].add(m)
                body.append({'t': 'create', 'v': m, 'k': 'M'})
                x, y = r.sample(Ps, 2)
                body.append({'t': 'relate', 'a': x, 'b': y, 'rel': 'R4', 'ph': r.choice(["'one'", "'other'"]), 'using': m})
        if As and Bs and r.random() < 0.5:
            l = self.fresh('inst:L', 'l')
            self.ok[-1].add(l)
            body.append({'t': 'create', 'v': l, 'k': 'L'})
            body.append({'t': 'relate', 'a': r.choice(As), 'b': r.choice(Bs), 'rel': 'R3', 'ph': '', 'using': l})
        return body

    def loop_patterns(self):
        """loops that re-bind a variable bound further out: the same loop variable again at a deeper nesting level, and again
        after a loop that was left by break / skipped by continue; every loop acts through its variable"""
        r = self.rnd
        sn, t, x = self.fresh('set:A', 's'), self.fresh('int', 't'), self.fresh('inst:A', 'x')
        xn = Field(V(x), 'N')
        out = [{'t': 'select_from', 'card': 'many', 'v': sn, 'k': 'A', 'haswhere': False, 'w': B(True)}, Assign(V(t), I(0))]
        first = [Assign(V(t), Bin('+', V(t), xn))]
        if r.random() < 0.6:
            first.insert(0, If(Bin(r.choice(['>', '<', '==']), xn, I(r.randint(0, 4))), [{'t': r.choice(['break', 'continue'])}], [], None))
        out.append({'t': 'for', 'v': x, 's': sn, 'b': first})
        inner = {'t': 'for', 'v': x, 's': sn, 'b': [Assign(xn, Bin('+', xn, I(r.randint(1, 3)))),
                                                       Assign(V(t), Bin('+', Bin('*', V(t), I(2)), xn))]}
        k = r.randint(0, 3)
        if k == 0:
            out.append(If(Bin('>=', V(t), I(0)), [inner], [], None))
        elif k == 1:
            c = self.fresh('int', 'c')
            out += [Assign(V(c), I(r.randint(1, 2))),
                    {'t': 'while', 'c': Bin('>', V(c), I(0)), 'b': [Assign(V(c), Bin('-', V(c), I(1))), inner]}]
        elif k == 2:
            y = self.fresh('inst:A', 'y')
            out.append({'t': 'for', 'v': y, 's': sn, 'b': [If(Bin('>', Field(V(y), 'N'), I(r.randint(0, 3))), [{'t': 'continue'}], [], None),
                                                            inner]})
        else:
            out.append(inner)
        return out

    def select_patterns(self):
        """selections whose where clause is decided by a later candidate: one A with three or four Bs holding distinct N;
        select any / many related by ... where from the instance, from a set and over two steps, and from instances of ...
        where, for a value held by the first, a middle, the last or no candidate; every result is folded into a number"""
        r = self.rnd
        a = self.fresh('inst:A', 'a')
        self.ok[-1].add(a)
        out = [{'t': 'create', 'v': a, 'k': 'A'}, Assign(Field(V(a), 'N'), I(r.randint(0, 5)))]
        vals = r.sample(range(1, 9), r.randint(3, 4))
        for v in vals:
            b = self.fresh('inst:B', 'b')
            self.ok[-1].add(b)
            x, y = (a, b) if r.random() < 0.5 else (b, a)
            out += [{'t': 'create', 'v': b, 'k': 'B'}, Assign(Field(V(b), 'N'), I(v)),
                    {'t': 'relate', 'a': x, 'b': y, 'rel': 'R1', 'ph': '', 'using': ''}]
        t = self.fresh('int', 't')
        out.append(Assign(V(t), I(0)))
        sel = Field({'t': 'selected'}, 'N')

        def cond():
            k = r.choice(vals + vals[1:] + [0])
            return r.choice([Bin('==', sel, I(k)), Bin('>', sel, I(k)), Bin('!=', sel, I(vals[0])),
                             Bin('>=', sel, Bin('+', I(k), I(1))), Bin('and', Bin('!=', sel, I(vals[0])), Bin('<=', sel, I(k)))])

        def fold_inst(v):
            return If(Un('not_empty', V(v)), [Assign(V(t), Bin('+', Bin('*', V(t), I(10)), Field(V(v), 'N')))],
                      [], [Assign(V(t), Bin('*', V(t), I(10)))])
        sa = None
        for _ in range(r.randint(2, 4)):
            form = r.choice(['rel_any', 'rel_any', 'rel_many', 'from_any', 'set_any', 'two_step'])
            if form in ('rel_any', 'rel_many'):
                card = 'any' if form == 'rel_any' else 'many'
                v = self.fresh('inst:B' if card == 'any' else 'set:B', 'v')
                out.append({'t': 'select_related', 'card': card, 'v': v, 'h': V(a), 'chain': [{'k': 'B', 'rel': 'R1', 'ph': ''}],
                            'haswhere': True, 'w': cond()})
                out.append(fold_inst(v) if card == 'any' else Assign(V(t), Bin('+', Bin('*', V(t), I(10)), Un('cardinality', V(v)))))
            elif form == 'from_any':
                v = self.fresh('inst:B', 'v')
                out.append({'t': 'select_from', 'card': 'any', 'v': v, 'k': 'B', 'haswhere': True, 'w': cond()})
                out.append(fold_inst(v))
            else:
                if sa is None:
                    sa = self.fresh('set:A', 's')
                    out.append({'t': 'select_from', 'card': 'many', 'v': sa, 'k': 'A', 'haswhere': False, 'w': B(True)})
                v = self.fresh('inst:B', 'v')
                chain = [{'k': 'B', 'rel': 'R1', 'ph': ''}]
                if form == 'two_step':
                    chain += [{'k': 'A', 'rel': 'R1', 'ph': ''}, {'k': 'B', 'rel': 'R1', 'ph': ''}]
                out.append({'t': 'select_related', 'card': 'any', 'v': v, 'h': V(sa), 'chain': chain, 'haswhere': True, 'w': cond()})
                out.append(fold_inst(v))
        # a handle that is empty in the outer block and bound again in a nested block (a search loop; find or create)
        f = self.fresh('inst:B', 'f')
        out.append({'t': 'select_from', 'card': 'any', 'v': f, 'k': 'B', 'haswhere': True, 'w': Bin('==', sel, I(0))})
        sb, e = self.fresh('set:B', 's'), self.fresh('inst:B', 'e')
        out.append({'t': 'select_from', 'card': 'many', 'v': sb, 'k': 'B', 'haswhere': False, 'w': B(True)})
        out.append({'t': 'for', 'v': e, 's': sb, 'b': [If(Bin('==', Field(V(e), 'N'), I(r.choice(vals + [0]))), [Assign(V(f), V(e))])]})
        out.append(fold_inst(f))
        g = self.fresh('inst:B', 'g')
        out.append({'t': 'select_related', 'card': 'any', 'v': g, 'h': V(a), 'chain': [{'k': 'B', 'rel': 'R1', 'ph': ''}],
                    'haswhere': True, 'w': Bin('==', sel, I(r.choice([0, 0, vals[-1]])))})
        out.append(If(Un('empty', V(g)), [{'t': 'create', 'v': g, 'k': 'B'}, Assign(Field(V(g), 'N'), I(9))]))
        out.append(fold_inst(g))
        # for each runs once per member of the set as it was selected, also for a member deleted since
        sd, ed, vd, cd = self.fresh('set:B', 's'), self.fresh('inst:B', 'e'), self.fresh('inst:B', 'd'), self.fresh('int', 'c')
        out.append({'t': 'select_from', 'card': 'many', 'v': sd, 'k': 'B', 'haswhere': False, 'w': B(True)})
        out.append({'t': 'select_from', 'card': 'any', 'v': vd, 'k': 'B', 'haswhere': True, 'w': Bin('==', sel, I(r.choice(vals)))})
        out.append(Assign(V(cd), I(0)))
        if r.random() < 0.5:
            out.append(If(Un('not_empty', V(vd)), [{'t': 'delete', 'v': vd}]))
            out.append({'t': 'for', 'v': ed, 's': sd, 'b': [Assign(V(cd), Bin('+', V(cd), I(1)))]})
        else:
            out.append({'t': 'for', 'v': ed, 's': sd, 'b': [
                If(Bin('and', Bin('==', V(cd), I(0)), Un('not_empty', V(vd))), [{'t': 'delete', 'v': vd}]),
                Assign(V(cd), Bin('+', V(cd), I(1)))]})
        out.append(Assign(V(t), Bin('+', Bin('*', V(t), I(10)), V(cd))))
        out.append(Assign(Field(V(a), 'N'), V(t)))
        return out

    def literal_patterns(self):
        """selections whose where clause compares attributes of the candidate with literals of every type (true / false,
        strings, numbers; the literal on either side; one comparison or several joined by and), over As that differ in
        exactly those attributes; the size of every selection (the N of a single instance) is folded into a number"""
        r = self.rnd
        out = []
        first = None
        for j in range(r.randint(3, 5)):
            a = self.fresh('inst:A', 'a')
            self.ok[-1].add(a)
            first = first or a
            out += [{'t': 'create', 'v': a, 'k': 'A'}, Assign(Field(V(a), 'N'), I(j + 1)),
                    Assign(Field(V(a), 'F'), B(r.random() < 0.5)), Assign(Field(V(a), 'S'), Str(r.choice(['', 'a', 'b'])))]
        t = self.fresh('int', 't')
        out.append(Assign(V(t), I(0)))

        def eq(name):
            lit = {'N': lambda: I(r.randint(1, 4)), 'F': lambda: B(r.random() < 0.6), 'S': lambda: Str(r.choice(['', 'a', 'b']))}[name]()
            f = Field({'t': 'selected'}, name)
            op = '==' if r.random() < 0.85 else '!='
            return Bin(op, f, lit) if r.random() < 0.8 else Bin(op, lit, f)
        for _ in range(r.randint(3, 6)):
            # (in a third of the clauses one attribute may be compared twice, with the same or with another literal: a
            # conjunction that no value satisfies selects nothing)
            if r.random() < 0.35:
                names = r.sample(['F', 'F', 'S', 'S', 'N', 'N'], r.choice([2, 2, 3]))
            else:
                names = r.sample(['F', 'F', 'S', 'N'], r.choice([1, 1, 2, 2, 3]))
                names = [n for k, n in enumerate(names) if n not in names[:k]]
            e = eq(names[0])
            for n in names[1:]:
                e = Bin('and', e, eq(n))
            if r.random() < 0.5:
                e = {'t': 'paren', 'e': e}
            if r.random() < 0.6:
                v = self.fresh('set:A', 'v')
                out.append({'t': 'select_from', 'card': 'many', 'v': v, 'k': 'A', 'haswhere': True, 'w': e})
                out.append(Assign(V(t), Bin('+', Bin('*', V(t), I(10)), Un('cardinality', V(v)))))
            else:
                v = self.fresh('inst:A', 'v')
                out.append({'t': 'select_from', 'card': 'any', 'v': v, 'k': 'A', 'haswhere': True, 'w': e})
                out.append(If(Un('not_empty', V(v)), [Assign(V(t), Bin('+', Bin('*', V(t), I(10)), Field(V(v), 'N')))],
                              [], [Assign(V(t), Bin('*', V(t), I(10)))]))
        out.append(Assign(Field(V(first), 'N'), V(t)))
        return out

    def program(self, nstmts=None, final_return=True, setup=False, patterns=False):
        body = self.setup() if setup else []
        if patterns == 'select':
            body += self.select_patterns()
        elif patterns == 'literal':
            body += self.literal_patterns()
        elif patterns:
            body += self.loop_patterns()
        for _ in range(nstmts or self.rnd.randint(2, 6)):
            s = self.stmt(0)
            if s is not None:
                body.extend(s if isinstance(s, list) else [s])
        if final_return:
            ty = self.rnd.choice(['int', 'int', 'bool', 'str'])
            body.append(Ret(self.expr(ty)))
        return body
