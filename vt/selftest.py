"""./check selftest -- shows that the trace specifications bind: for every family a
recorded trace of the unchanged implementation is accepted, and the same trace
with ONE recorded field corrupted is rejected at that step with the expected
clause.  (Not a property check; exit 0 = every corruption was caught.)"""
import copy
import random

from . import common, metacheck, oalcheck, oalgen, replay, schemas, tlagen, trace
from .props import c04, c05, c12, c14, c17


def expect(name, verdicts, want_ok, clause=None):
    ok = all(v.ok for v in verdicts) if want_ok else (not verdicts[0].ok and (clause is None or verdicts[0].clause == clause))
    got = 'accepted' if all(v.ok for v in verdicts) else 'rejected at step %s, clause %s' % (verdicts[0].step, verdicts[0].clause)
    print('%-44s %-10s %s' % (name, 'ok' if ok else 'FAILED', got))
    return ok


def main(tier='quick'):
    results = []
    rnd = random.Random(1)

    # OrderedSet
    runs = [{'cls': 'QuerySet', 'acts': [['Add', 1], ['Add', 2], ['IOr', [3, 1]], ['PopFirst'], ['IterRemove', [2]]]}]
    tr = replay.replay('orderedset', {'n': 3}, runs)
    cfg = c17.cfg(3, 0, props=False)
    mods = ['OrderedSet', 'OrderedSetTrace', 'TraceBase']
    v, _ = trace.validate('OrderedSetTrace', cfg, tr, modules=mods)
    results.append(expect('OrderedSet: recorded trace', v, True))
    bad = copy.deepcopy(tr)
    bad[0][2]['list'] = [1, 3, 2]
    v, _ = trace.validate('OrderedSetTrace', cfg, bad, modules=mods)
    results.append(expect('OrderedSet: list of step 3 permuted', v, False, 'list'))
    bad = copy.deepcopy(tr)
    bad[0][3]['res'] = {'k': 'val', 'v': 2}
    v, _ = trace.validate('OrderedSetTrace', cfg, bad, modules=mods)
    results.append(expect('OrderedSet: popped value changed', v, False, 'res'))

    # Meta
    schema = schemas.SCHEMAS['one_many']
    runs = [{'acts': [['New', 'T', [], {}], ['New', 'S', [], {}], ['New', 'S', [], {}], ['Relate', 'S', 1, 'T', 1, 'R1', ''],
                      ['Relate', 'T', 1, 'S', 2, 'R1', ''], ['Unrelate', 'S', 1, 'T', 1, 'R1', ''], ['Delete', 'T', 1]],
             'obs': [[], [], [], [{'k': 'nav', 'form': 'many', 'from': {'k': 'inst', 'c': 'T', 'i': 1}, 'chain': [['S', 'R1', '']], 'ops': []}],
                     [{'k': 'chk_assoc', 'rel': ''}], [], [{'k': 'consistent'}]]}]
    tr, v, _ = metacheck.replay_validate(schema, runs)
    results.append(expect('Meta: recorded trace', v, True))
    for name, mut, clause in [
        ('Meta: one navigation direction dropped', lambda t: t[0][3]['nav'][0]['bwd'].__setitem__(0, []), 'nav'),
        ('Meta: outcome of a relate changed', lambda t: t[0][4].__setitem__('res', 'RelateException'), 'res'),
        ('Meta: referential attribute value changed', lambda t: t[0][3]['attr']['S'][0].__setitem__('T_Id', 'u:9'), 'attr'),
        ('Meta: query answer changed', lambda t: t[0][3]['qr'][0].__setitem__('r', [2]), 'query'),
        ('Meta: violation count changed', lambda t: t[0][4]['qr'][0].__setitem__('n', t[0][4]['qr'][0]['n'] + 1), 'query'),
        ('Meta: pool order changed', lambda t: t[0][2]['pool'].__setitem__('S', [2, 1]), 'pool'),
    ]:
        bad = copy.deepcopy(tr)
        mut(bad)
        mod, consts = metacheck.trace_files(schema, 3)
        vv, _ = trace.validate('MC_MetaTrace', consts, bad, modules=['Meta', 'MetaObs', 'MetaTrace', 'TraceBase'],
                               extra={'MC_MetaTrace.tla': mod})
        results.append(expect(name, vv, False, clause))

    # LoadIO
    runs = [{'texts': ['CREATE TABLE X (a INTEGER);', 'INSERT INTO X VALUES (1)', 'INSERT INTO X VALUES (2);'], 'build_every': 1}]
    tr = replay.replay('loadio', {}, runs)
    mods = ['LoadIO', 'LoadIOTrace', 'TraceBase']
    v, _ = trace.validate('LoadIOTrace', 'CONSTANTS\n  MaxStmts = 0\n', tr, modules=mods)
    results.append(expect('LoadIO: recorded trace (one rejected text)', v, True))
    bad = copy.deepcopy(tr)
    bad[0][2]['n'] += 1
    v, _ = trace.validate('LoadIOTrace', 'CONSTANTS\n  MaxStmts = 0\n', bad, modules=mods)
    results.append(expect('LoadIO: rejected text left a statement', v, False, 'statements'))
    bad = copy.deepcopy(tr)
    bad[0][2]['res'] = 'PY:ValueError'
    v, _ = trace.validate('LoadIOTrace', 'CONSTANTS\n  MaxStmts = 0\n', bad, modules=mods)
    results.append(expect('LoadIO: undocumented exception', v, False, 'outcome'))

    # OAL syntax / positions
    g = oalgen.Gen(random.Random(5), maxdepth=3, parens=0.2, syntax_only=True)
    out, _ = oalcheck.unparse_stage([g.program(nstmts=6)])
    items = [{'body': out[0]['body'], 'toks': out[0]['toks'], 'seed': 3, 'layout': 'mixed', 'case': 'lower', 'positions': True}]
    runs, tr, v, _ = oalcheck.parse_and_validate(items)
    results.append(expect('OAL: recorded parse with positions', v, True))
    bad = copy.deepcopy(tr)
    bad[0][0]['nodes'][1]['sc'] += 1
    v, _ = trace.validate('OalTrace', '', bad, modules=['OalSyntax', 'OalTrace', 'TraceBase'])
    results.append(expect('OAL: one start column off by one', v, False, 'spans'))
    bad = copy.deepcopy(tr)

    def flip(x):
        if isinstance(x, dict):
            if x.get('t') == 'bin' and x['l'] != x['r']:
                x['l'], x['r'] = x['r'], x['l']
                return True
            return any(flip(y) for y in x.values())
        if isinstance(x, list):
            return any(flip(y) for y in x)
        return False
    flipped = flip(bad[0][0]['real'])
    v, _ = trace.validate('OalTrace', '', bad, modules=['OalSyntax', 'OalTrace', 'TraceBase'])
    results.append(expect('OAL: operands of one operator swapped', v, not flipped, 'tree'))

    # OAL execution
    progs = c04.exec_corpus('quick', 7, n=12)
    out, _ = oalcheck.unparse_stage(progs)
    items = [{'body': o['body'], 'toks': o['toks'], 'seed': 1, 'case': 'lower', 'layout': 'plain'} for o in out]
    runs, tr, v, st = c04.validate_exec(items)
    results.append(expect('OalExec: recorded executions', v, True))
    bad = copy.deepcopy(tr)
    outside = set(step - 1 for t, step in st['ood'] if t == 0)     # programs the specification does not judge
    k = next((i for i, e in enumerate(bad[0]) if e['res'].startswith('i:') and i not in outside), None)
    if k is not None:
        bad[0][k]['res'] = 'i:%d' % (int(bad[0][k]['res'][2:]) + 1)
        c = c04.consts()
        mod = tlagen.mc_module('MC_OalExecTrace', ['OalExecTrace'], c)
        vv, _ = trace.validate('MC_OalExecTrace', tlagen.cfg_constants(c), bad, modules=['OalExec', 'OalExecTrace', 'TraceBase'],
                               extra={'MC_OalExecTrace.tla': mod})
        # a corrupted result of a program outside the domain is not judged; inside it must be rejected
        results.append(expect('OalExec: return value off by one', vv, False))

    # BridgePoint component
    from . import bpgen
    items = [{'d': bpgen.base_diagram(), 'root': 'C1', 'derived': False, 'route': 'input', 'shuffle': True, 'seed': 3, 'via': 'mk', 'xsd': 'tree'}]
    tr = replay.replay('bp', {}, [{'items': items}])
    v, _ = trace.validate('BpTrace', '', tr, modules=['BpModel', 'BpTrace', 'TraceBase'])
    results.append(expect('BpModel: recorded component and schema', v, True))
    bad = copy.deepcopy(tr)
    bad[0][0]['comp']['assocs'][0]['smany'] = not bad[0][0]['comp']['assocs'][0]['smany']
    v, _ = trace.validate('BpTrace', '', bad, modules=['BpModel', 'BpTrace', 'TraceBase'])
    results.append(expect('BpModel: multiplicity of one end flipped', v, False, 'associations'))
    bad = copy.deepcopy(tr)
    bad[0][0]['xsd']['enums'][0][1].reverse()
    v, _ = trace.validate('BpTrace', '', bad, modules=['BpModel', 'BpTrace', 'TraceBase'])
    results.append(expect('BpModel: enumerators reversed in the schema', v, False, 'xsd_enums'))

    n_bad = sum(1 for r in results if not r)
    print('selftest: %d checks, %d failed' % (len(results), n_bad))
    return 1 if n_bad else 0
