"""Parser for TLA+ values as TLC prints them (action-label arguments, states)."""


class ParseError(Exception):
    pass


class _P(object):
    def __init__(self, s):
        self.s = s
        self.i = 0

    def ws(self):
        s = self.s
        while self.i < len(s) and s[self.i] in ' \t\r\n':
            self.i += 1

    def peek(self, k=1):
        return self.s[self.i:self.i + k]

    def expect(self, t):
        self.ws()
        if not self.s.startswith(t, self.i):
            raise ParseError('expected %r at %d in %r' % (t, self.i, self.s[max(0, self.i - 20):self.i + 20]))
        self.i += len(t)

    def value(self):
        self.ws()
        s = self.s
        c = self.peek()
        if c == '"':
            return self.string()
        if self.peek(2) == '<<':
            self.i += 2
            return self.items('>>')
        if c == '{':
            self.i += 1
            xs = self.items('}')
            try:
                return frozenset(_freeze(x) for x in xs)
            except TypeError:
                return xs
        if c == '[':
            self.i += 1
            return self.record()
        if c == '(':
            self.i += 1
            return self.function()
        if c == '-' or c.isdigit():
            j = self.i + 1
            while j < len(s) and s[j].isdigit():
                j += 1
            v = int(s[self.i:j])
            self.i = j
            # interval a..b
            if s.startswith('..', self.i):
                self.i += 2
                hi = self.value()
                return frozenset(range(v, hi + 1))
            return v
        if c.isalpha() or c == '_':
            j = self.i
            while j < len(s) and (s[j].isalnum() or s[j] == '_'):
                j += 1
            w = s[self.i:j]
            self.i = j
            if w == 'TRUE':
                return True
            if w == 'FALSE':
                return False
            return ModelValue(w)
        raise ParseError('unexpected %r at %d in %r' % (c, self.i, s[max(0, self.i - 20):self.i + 20]))

    def string(self):
        s = self.s
        assert s[self.i] == '"'
        j = self.i + 1
        out = []
        while s[j] != '"':
            if s[j] == '\\':
                j += 1
                out.append({'n': '\n', 't': '\t', 'r': '\r', 'f': '\f'}.get(s[j], s[j]))
            else:
                out.append(s[j])
            j += 1
        self.i = j + 1
        return ''.join(out)

    def items(self, close):
        xs = []
        self.ws()
        if self.s.startswith(close, self.i):
            self.i += len(close)
            return xs
        while True:
            xs.append(self.value())
            self.ws()
            if self.s.startswith(close, self.i):
                self.i += len(close)
                return xs
            self.expect(',')

    def record(self):
        d = {}
        self.ws()
        if self.peek() == ']':
            self.i += 1
            return d
        while True:
            self.ws()
            j = self.i
            while self.s[j].isalnum() or self.s[j] == '_':
                j += 1
            k = self.s[self.i:j]
            self.i = j
            self.expect('|->')
            d[k] = self.value()
            self.ws()
            if self.peek() == ']':
                self.i += 1
                return d
            self.expect(',')

    def function(self):
        d = {}
        while True:
            k = self.value()
            self.expect(':>')
            d[_freeze(k)] = self.value()
            self.ws()
            if self.peek() == ')':
                self.i += 1
                return d
            self.expect('@@')


class ModelValue(str):
    pass


def _freeze(x):
    if isinstance(x, list):
        return tuple(_freeze(y) for y in x)
    if isinstance(x, dict):
        return tuple(sorted((k, _freeze(v)) for k, v in x.items()))
    return x


def parse(text):
    p = _P(text)
    v = p.value()
    p.ws()
    if p.i != len(text):
        raise ParseError('trailing text %r' % text[p.i:p.i + 30])
    return v


def split_args(text):
    """Split 'a, <<1,2>>, "x,y"' at top-level commas and parse each."""
    p = _P(text)
    out = []
    p.ws()
    if p.i >= len(text):
        return out
    while True:
        out.append(p.value())
        p.ws()
        if p.i >= len(text):
            return out
        p.expect(',')
