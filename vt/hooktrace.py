"""Traces recorded through the source hooks while the repository's own tests run on the
hooked library, validated by TLC against Meta.tla (MetaTrace!AdoptState + the action of
each hooked call).  See vt/hooks/xtuml_verif_hook.py."""
import json
import os
import subprocess
import sys

from . import build, common, metacheck, trace

HOOKS = os.path.join(common.VERIF, 'vt', 'hooks')


def record(test_paths, timeout=900):
    """run the given test files of /repo on the scratch build with the hooks on -> (events, summary line of pytest)"""
    d, env = build.build()
    env = dict(os.environ, **env)
    out = os.path.join(common.scratch('vt-hook-'), 'trace.jsonl')
    env['PYTHONPATH'] = os.pathsep.join([env['PYTHONPATH'], HOOKS])
    env['PYXTUML_VERIF'] = '1'
    env['PYXTUML_VERIF_TRACE'] = out
    cmd = [common.PY, '-m', 'pytest', '-q', '-p', 'no:cacheprovider', '--timeout=%d' % timeout] + list(test_paths)
    p = subprocess.run(cmd, cwd=d, env=env, stdout=subprocess.PIPE, stderr=subprocess.STDOUT, universal_newlines=True,
                       timeout=timeout + 60)
    last = [l for l in p.stdout.splitlines() if l.strip()][-1:] or ['']
    events = []
    if os.path.exists(out):
        with open(out) as f:
            events = [json.loads(l) for l in f if l.strip()]
    return events, last[0]


def traces_of(events):
    """-> [(schema, [trace, ...], [model id, ...])] grouped by schema; one trace per metamodel"""
    by_fp = {}
    for e in events:
        if e['op'] == 'TracerError' or 'loader' in e:
            continue
        fp = e.pop('fingerprint')
        by_fp.setdefault(fp, {}).setdefault(e['model'], []).append(e)
    out = []
    for fp, models in by_fp.items():
        schema = json.loads(fp)
        empty = {c: [] for c in schema['classes']}
        trs, ids = [], []
        for mid, evs in models.items():
            tr = []
            for e in evs:
                e = dict(e)
                e.setdefault('res', 'none')
                e.update({'oerr': '', 'spell': dict(empty), 'ser': dict(empty), 'q': [], 'qr': [], 'fix': '',
                          'schema': {'attrs': {'_': []}, 'uniques': {'_': []}, 'assocs': [], 'extra': ['-']}})
                tr.append(e)
            trs.append(tr)
            ids.append(mid)
        out.append((schema, trs, ids))
    return out


def loader_traces(events):
    """-> traces for LoadIOTrace.tla, one per loader object"""
    by = {}
    for e in events:
        if 'loader' in e:
            # (the source hook records the number of statements only: the content is a placeholder per statement)
            by.setdefault(e['loader'], []).append({'op': e['op'], 'res': e['res'], 'n': e['n'], 'c': ['-'] * e['n'], 'twin': True,
                                                    'fresh': True})
    return list(by.values())


def check_loader(rep, tier):
    """C12 on the repository's own tests: every input() / build_metamodel() call made while the tests run is an action of
    LoadIO.tla (documented outcome, a rejected input leaves the number of statements unchanged)"""
    paths = [os.path.join(common.REPO, 'tests', 'test_xtuml')]
    if tier != 'quick':
        paths.append(os.path.join(common.REPO, 'tests', 'test_bridgepoint'))
    events, last = record(paths)
    if not events or 'passed' not in last:
        raise common.MachineryError('the repository tests did not run under the hooks: %s (%d events)' % (last, len(events)))
    trs = loader_traces(events)
    verdicts, st = trace.validate('LoadIOTrace', 'CONSTANTS\n  MaxStmts = 0\n', trs, modules=['LoadIO', 'LoadIOTrace', 'TraceBase'])
    outcomes = {}
    ok = 0
    for v in verdicts:
        for e in v.trace:
            k = '%s/%s' % (e['op'], e['res'])
            outcomes[k] = outcomes.get(k, 0) + 1
        if v.ok:
            ok += 1
        else:
            e = v.event()
            rep.failure({'source': 'repository tests under hooks', 'op': e['op'], 'res': e['res'], 'clause': v.clause},
                        {'source': 'hooks', 'trace': v.trace[:v.step], 'step': v.step, 'clause': v.clause,
                         'spec_expected': repr(v.expected)[:1000]})
    return {'pytest': last, 'loaders_traced': len(trs), 'traces_accepted': ok, 'steps': st['steps'], 'calls_per_outcome': outcomes}


def _validate_group(g):
    schema, trs, ids = g
    maxi = max([1] + [e['born'][c] for tr in trs for e in tr for c in schema['classes']])
    mod, consts = metacheck.trace_files(schema, maxi, 'uuid')
    verdicts, st = trace.validate('MC_MetaTrace', consts, trs, modules=['Meta', 'MetaObs', 'MetaTrace', 'TraceBase'],
                                  extra={'MC_MetaTrace.tla': mod}, shards=1, timeout=600)
    return [(schema, mid, v) for v, mid in zip(verdicts, ids)], st['steps']


def validate(groups):
    """-> [(schema, model id, verdict)], steps"""
    import concurrent.futures
    res = []
    steps = 0
    with concurrent.futures.ThreadPoolExecutor(max_workers=max(2, common.NCPU // 2)) as ex:
        for r, n in ex.map(_validate_group, groups):
            res += r
            steps += n
    return res, steps


def check(rep, tier):
    """the repository's own tests on the hooked library; failures go to the report `rep`; -> coverage dict"""
    paths = [os.path.join(common.REPO, 'tests', 'test_xtuml')]
    if tier != 'quick':
        paths.append(os.path.join(common.REPO, 'tests', 'test_bridgepoint'))
    events, last = record(paths)
    ops = {}
    for e in events:
        ops[e['op']] = ops.get(e['op'], 0) + 1
    if not events or 'passed' not in last:
        raise common.MachineryError('the repository tests did not run under the hooks: %s (%d events)' % (last, len(events)))
    groups = traces_of(events)
    res, steps = validate(groups)
    ok = 0
    for schema, mid, v in res:
        if v.ok:
            ok += 1
            continue
        e = v.event()
        sig = {'source': 'repository tests under hooks', 'op': e['op'], 'res': e.get('res'), 'clause': v.clause}
        rep.failure(sig, {'source': 'hooks', 'schema': schema, 'trace': [{k: x[k] for k in x if k not in ('spell', 'ser', 'schema', 'q', 'qr')}
                                                                          for x in v.trace[:v.step]],
                          'step': v.step, 'clause': v.clause, 'spec_expected': repr(v.expected)[:3000]})
    return {'pytest': last, 'hooked_calls_by_kind': ops, 'metamodels_traced': len(res), 'schemas': len(groups),
            'traces_accepted': ok, 'steps': steps}

