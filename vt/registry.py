"""What is claimed, per property.  MANIFEST.json is generated from this file."""

CHECKS = {
    'C17': dict(
        technique='TLA+ spec OrderedSet.tla model-checked by TLC; transition tours and simulated behaviours '
                  'replayed on xtuml.OrderedSet/QuerySet; recorded traces validated by TLC (OrderedSetTrace.tla)',
        text='TLC visits every state of the ordered-set specification (two sets: the addressed one and the result of the '
             'latest pure operator) over a universe of three elements and checks the set-semantics, order and '
             'independence properties; a seeded share of the million transitions of that model (30 k quick, 400 k '
             'thorough), plus simulated and random histories over 5-6 elements, is executed on the real '
             'OrderedSet and QuerySet and each recorded step is accepted or rejected by TLC. Histories are the '
             'quantifier of this property, and a bounded exhaustive model bound to the code by trace validation '
             'is the strongest check that decides them.',
        design_ref='DESIGN.md §3, §4 C17',
        note='trusted: TLC, the JSON projection written by vt/adapters/orderedset.py (list, reversed, len, in, ==, '
             'first, last), the bound of three elements for exhaustiveness',
    ),
}


META_NOTE = ('trusted: TLC; the projection written by vt/adapters/meta.py through the public API (select_many, '
             'navigate_many from every handle over every association in both directions, getattr); the creation '
             'bounds of the exhaustive models')
CHECKS.update({
    'C02': dict(
        technique='TLA+ spec Meta.tla model-checked per association shape (invariants Symmetric, OnlyLive, Bounded, '
                  'RefReadOK; action property RejectedIsNoop); transition tours, simulated and random histories '
                  'replayed on a real MetaModel; every recorded step validated by TLC (MetaTrace.tla)',
        text='For nine association shapes TLC enumerates every history of new/relate/unrelate/delete (both argument '
             'orders, with and without phrase, unknown numbers and phrases, None arguments, repeated delete) within small '
             'creation bounds and checks symmetry, liveness, multiplicity bounds and that rejected calls change nothing. '
             'Tours over that state graph, simulated histories (4 per class) and random 200-call histories are executed '
             'on the real library; after every call the outcome, pools, both navigation directions from every handle and '
             'all attribute reads must equal the post-state of the specification action.',
        design_ref='DESIGN.md §3, §4 C02', note=META_NOTE),
    'C09': dict(
        technique='observation operators of MetaObs.tla (Select, NavChain, NavSubtype, StableSort) evaluated by TLC on '
                  'the specification state after every step of Meta.tla histories and compared with what the real '
                  'select_*/navigate_* calls returned',
        text='Queries and navigation are pure observations of the model state, so they are specified as relational '
             'operators and compared in every state the C02 histories, simulation and value-writing random histories '
             'reach: about three randomly composed queries/chains per step, with ties, reverse orderings, filters in '
             'any order, chains through association classes and reflexive phrases, all start forms.',
        design_ref='DESIGN.md §3, §4 C09', note=META_NOTE),
    'C10': dict(
        technique='Meta.tla value alphabet (VSetAttr, VDelAttr, ...) model-checked exhaustively on a class with plain, '
                  'identifying and referential two-letter-stem attributes; tours replayed with rotating spellings; reads '
                  'under five spellings, serialisation and where_eq validated by TLC against the single stored value',
        text='The specification stores one value per declared name and has no spelling parameter at all; the adapter issues '
             'every call under a rotating spelling and reads back under all spellings, so any dependence of the code on the '
             'spelling shows as a mismatch with the specification state.',
        design_ref='DESIGN.md §3, §4 C10', note=META_NOTE),
    'C11': dict(
        technique='MetaObs.tla AssocViolations / IdViolations / Consistent / SubtypeViolations evaluated by TLC on every '
                  'state of Meta.tla histories and compared with xtuml.check_* / is_consistent; over-populated ends by loading every '
                  'population TLC enumerates from the C03 row choices; MetaObs!CliCount specifies xtuml.consistency_check.main '
                  '(-r / -k restrictions, exit status) on the persisted model and bridgepoint.consistency_check.main (-g as well) on '
                  'BridgePoint populations, with the part of the ooaofooa schema that decides the counts as constants of Meta.tla',
        text='The counts are defined relationally over the specification state (partner count outside multiplicity and '
             'conditionality per instance and end; null identifying values plus repeated identifiers) and compared after '
             'every step of exhaustive tours over all shapes and of histories with explicit null and repeated identifiers, '
             'for the unrestricted check and for every restriction by number or class.',
        design_ref='DESIGN.md §3, §4 C11', note=META_NOTE),
    'C16': dict(
        technique='Meta.tla on the reflexive 1C:1C shape: every arrangement of up to 5 (quick) / 6 (thorough) instances into '
                  'chains and rings is a TLC state; a tour visits every state; sort_reflexive results validated by TLC '
                  'with the predicate MetaTrace!SortOK',
        text='All link arrangements of a small pool are enumerated by the model checker rather than sampled, every one is '
             'built on the real library, and in each the sort is asked for both phrases on the whole pool and on subsets; '
             'larger pools (6-12) by random chain/ring constructions. Termination is enforced by a per-call time budget.',
        design_ref='DESIGN.md §3, §4 C16', note=META_NOTE),
    'C19': dict(
        technique='Meta.tla value alphabet (VNew over all typed positional/keyword mixes, VGenNext, VGenPeek) model-checked '
                  'with the integer and a user generator (invariant FreshIds, action property DefaultsOK); tours and '
                  'random creation sequences (also with the uuid generator and with a user generator that redefines next() / peek()) '
                  'validated by TLC with IdsOK; with the alphabet flag newref the '
                  'arguments run through referential attributes (Meta!NewCall: keyword over positional over default, supplied '
                  'references link as NewRow)',
        text='Every mix of positional, keyword and omitted arguments of a small class is an action instance of the model, so '
             'the tours execute all of them on the real library in every generator state; freshness of defaulted ids is '
             'checked against the set of all ids seen so far in the trace.',
        design_ref='DESIGN.md §3, §4 C19', note=META_NOTE),
})


CHECKS.update({
    'C01': dict(
        technique='Meta.tla SaveLoad = LoadBuild(SavedRows) (relational join of the written values) with the action property '
                  'SaveLoadIdentity model-checked on seven shapes; tours with a SaveLoad at every state and value-heavy random '
                  'histories replayed through eight serialisation and four loading routes; loaded populations with permuted / '
                  'duplicate / null keys persisted and reloaded; instances persisted without schema (inferred classes); reloaded '
                  'model validated by TLC',
        text='The specification defines what a reload yields for every state (not only persistable ones) and TLC proves on the '
             'bounded models that this is the identity on the persistable domain; the real serialise/persist + load round trip '
             'is executed at every state of the tours and after random histories with the value classes of the quantifier, and '
             'the reloaded schema, pools, values, links and the text fixed point are compared with the specification.',
        design_ref='DESIGN.md §3, §4 C01', note=META_NOTE + '; the concrete representative chosen for each value class'),
    'C03': dict(
        technique='Meta.tla LoadBuild (relational join of rows) with invariant PermutationInvariant and action property LoadIsJoin '
                  'model-checked over all populations of <= 3/4 rows from 5-7 row choices per shape; every population rendered '
                  'as SQL and loaded through four routes with varying statement order and partition; creation through '
                  'new()/clone() validated against Meta!NewRow; populations without CREATE TABLE statements against '
                  'MetaTrace!ExpAttrs (inferred classes)',
        text='Every small population, including all statement orders, is an action instance of the model and is loaded by the real '
             'loader; larger random populations cover null, duplicate, dangling keys and shared referential attributes. The '
             'API route is specified as the same join restricted to existing referred instances, so the equality of both routes '
             'is decided by the same relational definition.',
        design_ref='DESIGN.md §3, §4 C03', note=META_NOTE + '; the SQL renderer vt/adapters/_sql.py'),
})


CHECKS.update({
    'C12': dict(
        technique='LoadIO.tla (state: the accumulated statements written out in full; Accept appends, RejectInput / Build leave '
                  'them unchanged; properties RejectedInputIsStutter, BuildIsPure, AppendOnly) model-checked; histories of '
                  'valid texts, every single-edit token mutant, token soups and character noise fed to a real loader next to a twin '
                  'loader; recorded outcomes, statement counts, the full content after every call and twin equality validated '
                  'by TLC (LoadIOTrace.tla)',
        text='The specification fixes the only outcomes a loader may have and that rejection is a stutter step; it deliberately does '
             'not say which texts are accepted. Every recorded call must be one of those actions, so an unrelated built-in '
             'exception, a half-applied text (statement count, content of any statement held earlier, or twin build differs) or a call exceeding its time budget has no '
             'matching action and is reported.',
        design_ref='DESIGN.md §3, §4 C12',
        note='trusted: TLC, the recording adapter vt/adapters/loadio.py (exception class, len(loader.statements), every statement written out field by field, serialisation '
             'of loader and twin builds), the mutation operators of vt/sqltok.py'),
})


CHECKS.update({
    'C18': dict(
        technique='Builds.tla enumerates every interleaving of inputs, builds and mutations on one loader; each schedule is executed on '
                  'a real loader and validated by TLC once per built metamodel against Meta.tla (own build = LoadBuild of the rows '
                  'accepted so far, own mutations = Meta actions, every other call = stutter); with Late = TRUE the schema chunk '
                  'arrives after rows / builds or never and the classes of such builds are inferred (MetaTrace!ExpAttrs)',
        text='Independence is a statement about interleavings, so the schedules are enumerated exhaustively by the model checker '
             '(3 chunks, 2-3 builds, 2 mutations each) and the content of every built metamodel is projected after every call of '
             'the schedule; any leak between metamodels, or of later input into an earlier build, is a non-stutter change that no '
             'action of the focus metamodel explains.',
        design_ref='DESIGN.md §3, §4 C18', note=META_NOTE),
})


OAL_NOTE = ('trusted: TLC; the renderer vt/adapters/oal_render.py (it reports where it put each token); the conversion of the '
            'parser\'s node classes to the specification\'s records in vt/adapters/oal.py; the parser tables are regenerated from '
            'the current grammar for every check')
CHECKS.update({
    'C07': dict(
        technique='OalSyntax.tla (precedence table, Unparse, reference precedence-climbing parser RefParse): TLC enumerates every '
                  'expression tree of depth <= 3 and proves RefParse(Unparse(t)) = t; every tree and generated statement programs are '
                  'rendered with random layout / comments / optional words / redundant parentheses, parsed by the real parser and the '
                  'returned tree is validated by TLC (OalTrace.tla) against the tree and the reference parse',
        text='Exhaustive over all operator pairs in both positions (8,603 trees quick, 97,890 thorough), so every precedence and '
             'associativity decision of the grammar is exercised against an independent reference parser that TLC has checked '
             'against the specification\'s own unparser; statements of every production by seeded generation.',
        design_ref='DESIGN.md §3, §4 C07', note=OAL_NOTE),
    'C13': dict(
        technique='OalSyntax.tla Ranges (token span of every statement and expression node) validated by TLC against the positions '
                  'recorded from the real parser for rendered multi-line texts; totality by token mutants, token soups, noise and '
                  'adversarial unterminated forms under a time budget (OalTrace!Total)',
        text='Which tokens delimit a node is derived from the syntax tree by the specification; the adapter only reports where the '
             'renderer put each token and what the parser recorded, for every node of every text of the C07 corpus.',
        design_ref='DESIGN.md §3, §4 C13', note=OAL_NOTE),
})


CHECKS.update({
    'C04': dict(
        technique='OalExec.tla: a big-step evaluator of OAL syntax trees over a plain relational model, evaluated by TLC on every '
                  'generated program and compared (OalExecTrace.tla) with the return value and final population of '
                  'interpret.run_function on a real domain',
        text='The specification is an independent definition of the language (it knows nothing of symbol tables, walkers or '
             'properties); programs are generated type-correct with nested loops, conditionals, where clauses and a population they '
             'build themselves, and TLC - not the harness - computes what each must return and leave behind. Programs outside the '
             'domain (error programs, division) are identified by the specification and counted.',
        design_ref='DESIGN.md §3, §4 C04', note=OAL_NOTE + '; the generator vt/oalgen.py only chooses programs'),
    'C08': dict(
        technique='the C07 (parse), C04 (execute) and C06 (prebuild: OalType.tla incl. the keyword-valued attributes in canonical case) pipelines re-run on renderings with every keyword occurrence in UPPER, Capitalised '
                  'or random mixed case; the specifications (OalSyntax.tla, OalExec.tla, OalType.tla) have no notion of keyword case, so any '
                  'dependence of the code on it is a mismatch found by TLC',
        text='Same corpora and oracles as C07, C04 and C06, crossed with per-keyword case choices.',
        design_ref='DESIGN.md §4 C08', note=OAL_NOTE),
})


BP_NOTE = ('trusted: TLC; the synthesiser vt/adapters/_bp.py that writes BridgePoint model rows for a diagram; the projection of the '
           'built component / parsed XSD in vt/adapters/bp.py')
CHECKS.update({
    'C14': dict(
        technique='BpModel.tla Component (a relational definition of the classes, identifiers and associations a class diagram must '
                  'yield) evaluated by TLC on every diagram of seeded edit scripts and compared (BpTrace.tla) with what '
                  'build_component / mk_component extract from synthesised BridgePoint model text, for every component, row order and '
                  'loading route; SQL schema round trip included',
        text='The specification goes from the abstract diagram to the expected definitions, the synthesiser from the diagram to '
             'BridgePoint rows, pyxtuml from the rows to definitions: two independent directions meet in TLC. Edits at every site '
             '(attributes, types, order, multiplicity, conditionality, phrases, identifiers, components) produce the diagrams.',
        design_ref='DESIGN.md §3, §4 C14', note=BP_NOTE),
    'C20': dict(
        technique='BpModel.tla Xsd evaluated by TLC on the diagrams of the C14 edit scripts and compared with the declarations of the '
                  'schema built by gen_xsd_schema.build_schema / written by gen_xsd_schema.main',
        text='Elements, attribute types through referential and user-type chains, core, enumeration (modeled order) and user simple '
             'types per component; well-formedness by parsing the written file.',
        design_ref='DESIGN.md §3, §4 C20', note=BP_NOTE),
})


CHECKS.update({
    'C15': dict(
        technique='OalExec.tla Call / Args / Derived (own variable scope, parameters by name, self, shared model, value of the executed '
                  'return) evaluated by TLC on generated call graphs and compared (OalCallTrace.tla) with invoking the functions, class and '
                  'instance operations, bridges, derived attributes, enumerators and constants of a synthesised BridgePoint model from OAL '
                  'bodies and from Python',
        text='Recursion, mutual recursion, callees that assign their callers\' variable names, by-name arguments in permuted order, bare '
             'and missing returns, calls inside expressions, where clauses and loop conditions; model rows shuffled so that nothing may '
             'depend on row order.',
        design_ref='DESIGN.md §3, §4 C15', note=OAL_NOTE + '; ' + BP_NOTE),
})


CHECKS.update({
    'C05': dict(
        technique='generated name-resolved OAL bodies (event statements included) placed as actions (function, bridge, operation, derived attribute, state) of synthesised '
                  'BridgePoint models; prebuild_action + gen_text_action on the real code; the tree of the generated text validated by '
                  'TLC (OalTrace.tla) against the specification tree of the original (OalSyntax!Unparse / StripB), plus regeneration '
                  'idempotence',
        text='The oracle is the same tree vocabulary and unparser that C07 binds to the real parser, so "parses to the same syntax '
             'tree" is decided by TLC on trees, not by comparing texts; every statement kind of the supported set, invocations with '
             'by-name parameters in any order, as statements and as values.',
        design_ref='DESIGN.md §3, §4 C05', note=OAL_NOTE + '; ' + BP_NOTE),
})


CHECKS.update({
    'C06': dict(
        technique='OalType.tla (OAL typing TypeOf, value entries, statement predecessor/block StmtInfo, variable declarations VarInfo, '
                  'parameter succession ParamPairs over OalSyntax!Ranges) evaluated by TLC on every prebuilt body and compared '
                  '(OalTypeTrace.tla) with the population read back from the ooaofooa model: persisted Previous_Statement_ID / '
                  'Next_Value_ID, line and columns, related data types, declaring blocks, subtype counts, constraint violations',
        text='Typing and structure are defined on the syntax tree by the specification and checked on the C05 corpus in all four '
             'action homes; the referential attributes are read as persisted, so a chain built in the wrong direction is a mismatch.',
        design_ref='DESIGN.md §3, §4 C06', note=OAL_NOTE + '; ' + BP_NOTE + '; the read-back in vt/adapters/prebuildfacts.py'),
})

NOT_YET = {}


def manifest():
    checks = []
    for pid in sorted(CHECKS):
        c = CHECKS[pid]
        checks.append({
            'property_id': pid,
            'quick_cmd': './check %s --tier quick' % pid,
            'thorough_cmd': './check %s --tier thorough' % pid,
            'evidence_file': '/verif/evidence/%s.json' % pid,
            'replay_cmd_template': './check %s --replay {path}' % pid,
            'engine': 'tlc-trace-validation',
            'level_claimed': {'category': 'model_checking', 'text': c['text'], 'design_ref': c['design_ref']},
            'level_note': c['note'],
            'technique': c['technique'],
        })
    na = [{'property_id': p, 'reason': r} for p, r in sorted(NOT_YET.items())]
    for i in range(1, 21):
        pid = 'C%02d' % i
        if pid not in CHECKS and pid not in NOT_YET:
            na.append({'property_id': pid, 'reason': 'specification and conformance binding for this property '
                       'are not built yet (work in progress, see DESIGN.md §9)'})
    return {
        'version': 1,
        'setup_cmd': 'true',
        'hooks': {
            'guard': 'PYXTUML_VERIF',
            'enable': 'PYXTUML_VERIF=1 PYXTUML_VERIF_TRACE=<file> with /verif/vt/hooks on PYTHONPATH: xtuml.meta.relate / unrelate / '
                      'delete / MetaClass.new and ModelLoader.input / build_metamodel are wrapped by the tracer '
                      '/verif/vt/hooks/xtuml_verif_hook.py, which records every top-level call with the projected state before and '
                      'after it (only ./check C02 and ./check C12 turn them on, to validate the repository tests; with the variable unset the decorator returns the functions unchanged). All other '
                      'observations need no hook: pyxtuml is a sequential library and every action is observed at the return of '
                      'a public call; checks copy /repo/xtuml and /repo/bridgepoint (working tree) to a scratch directory, '
                      'regenerate the ply tables there and put it first on PYTHONPATH',
            'baseline_off_cmd': 'cd /repo && /venv/bin/python -m pytest -q -p no:cacheprovider --timeout=900',
            'source_commits': ['b50de69', 'e346d6a'],
            'add_only': True,
        },
        'engines': [{
            'name': 'tlc-trace-validation',
            'path': '/verif/check',
            'serves_properties': sorted(CHECKS),
            'kind_free_text': 'explicit TLA+ specifications in /verif/spec checked by TLC; behaviours generated '
                              'from TLC state graphs / simulation replayed on the real code; recorded traces '
                              'validated by TLC against *Trace.tla',
        }],
        'checks': checks,
        'not_applicable': sorted(na, key=lambda x: x['property_id']),
        'notes': 'Generated by tools_manifest.py from vt/registry.py. The quick commands take 5 s - 4 min each on 16 cores and a few GB of '
                 'memory; a thorough command takes 1 - 20 min and up to about 35 GB (the harness holds the recorded traces, up to '
                 'eight validating JVMs of 3g run side by side): run the thorough commands one at a time on a 64 GB machine.',
    }
