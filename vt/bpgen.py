"""Abstract class diagrams and edit scripts for the BridgePoint family (C14, C20).
The harness only chooses diagrams and edits; what must be extracted from each is
decided by BpModel.tla."""
import copy


def base_diagram():
    A = lambda n, k, ty='': {'n': n, 'k': k, 'ty': ty}
    return {
        # (C3 is nested in C1: what C1 contains includes what C3 holds)
        'comps': ['C1', 'C2', 'C3'], 'nest': [['C3', 'C1']],
        'enums': [{'n': 'Color', 'items': ['RED', 'GREEN', 'BLUE'], 'comp': 'C1'},
                  {'n': 'Global_Enum', 'items': ['ON', 'OFF'], 'comp': ''}, {'n': 'Inner_Enum', 'items': ['IN', 'OUT'], 'comp': 'C3'}],
        'udts': [{'n': 'MyInt', 'base': 'integer', 'comp': 'C1'}, {'n': 'MyInt2', 'base': 'MyInt', 'comp': 'C1'},
                 {'n': 'Shade', 'base': 'Color', 'comp': ''}, {'n': 'Other_Real', 'base': 'real', 'comp': 'C2'},
                 {'n': 'Inner_Count', 'base': 'integer', 'comp': 'C3'}],
        'classes': [
            {'kl': 'N', 'name': 'Nested', 'comp': 'C3', 'attrs': [A('Id', 'base', 'unique_id'), A('Cnt', 'base', 'Inner_Count'),
                                                                 A('Dir', 'base', 'Inner_Enum')], 'ids': [['Id']]},
            {'kl': 'A', 'name': 'Alpha', 'comp': 'C1',
             'attrs': [A('Id', 'base', 'unique_id'), A('Name', 'base', 'string'), A('Count', 'base', 'MyInt2'),
                       A('Col', 'base', 'Color'), A('Calc', 'derived', 'integer'), A('Handle', 'base', 'inst_ref<Object>'),
                       A('Prev_Id', 'ref')],
             # (the third identifier mixes a plain and a derived attribute)
             'ids': [['Id'], ['Name', 'Count'], ['Name', 'Calc']]},
            {'kl': 'B', 'name': 'Beta', 'comp': 'C1',
             'attrs': [A('Id', 'base', 'unique_id'), A('A_Id', 'ref'), A('Flag', 'base', 'boolean'), A('R', 'base', 'real'),
                       A('Sh', 'base', 'Shade')],
             'ids': [['Id'], ['Id', 'A_Id']]},
            {'kl': 'L', 'name': 'Link', 'comp': 'C1', 'attrs': [A('A_Id', 'ref'), A('B_Id', 'ref'), A('W', 'base', 'integer')],
             'ids': [['A_Id', 'B_Id']]},
            {'kl': 'S', 'name': 'Super', 'comp': 'C1', 'attrs': [A('Id', 'base', 'unique_id'), A('D', 'derived', 'string')],
             'ids': [['Id'], ['D']]},
            {'kl': 'T', 'name': 'SubT', 'comp': 'C1', 'attrs': [A('Id', 'ref'), A('X', 'base', 'integer')], 'ids': [['Id']]},
            {'kl': 'U', 'name': 'SubU', 'comp': 'C1', 'attrs': [A('Super_Id', 'ref'), A('Y', 'base', 'string')], 'ids': [['Super_Id']]},
            {'kl': 'X', 'name': 'Xeno', 'comp': 'C2', 'attrs': [A('Id', 'base', 'unique_id'), A('V', 'base', 'Other_Real'),
                                                               A('P_Id', 'ref')], 'ids': [['Id']]},
            {'kl': 'G', 'name': 'Glob', 'comp': 'C1', 'attrs': [A('Id', 'base', 'unique_id'), A('T_Id', 'ref')], 'ids': [['Id']]},
            # a class none of whose attributes is emitted (derived / unsupported type only) and a class without attributes
            {'kl': 'Z', 'name': 'Zed', 'comp': 'C1', 'attrs': [A('D', 'derived', 'integer'), A('H', 'base', 'inst_ref<Object>')],
             'ids': []},
            {'kl': 'E', 'name': 'Empty', 'comp': 'C2', 'attrs': [], 'ids': []},
            # a two-attribute key whose referential names sort differently from the identifying names they refer to; one of
            # the identifying attributes is typed by a user type over a user type
            {'kl': 'W', 'name': 'Owner', 'comp': 'C1', 'attrs': [A('Name', 'base', 'string'), A('Kind', 'base', 'MyInt2')],
             'ids': [['Name', 'Kind']]},
            {'kl': 'I', 'name': 'Item', 'comp': 'C1', 'attrs': [A('Id', 'base', 'unique_id'), A('Holder', 'ref'), A('Variety', 'ref')],
             'ids': [['Id']]},
            # refers to an identifying attribute that is itself referential and named differently from its base attribute
            {'kl': 'H', 'name': 'Hanger', 'comp': 'C1', 'attrs': [A('Id', 'base', 'unique_id'), A('U_Ref', 'ref')], 'ids': [['Id']]},
        ],
        'rels': [
            {'k': 'simple', 'num': 1, 'comp': 'C1', 'form': 'B', 'part': 'A', 'fm': 1, 'fc': 1, 'pm': 0, 'pc': 0,
             'fph': 'is held by', 'pph': 'holds', 'keys': [['A_Id', 'Id']]},
            {'k': 'simple', 'num': 2, 'comp': 'C1', 'form': 'A', 'part': 'A', 'fm': 0, 'fc': 1, 'pm': 0, 'pc': 1,
             'fph': 'succeeds', 'pph': 'precedes', 'keys': [['Prev_Id', 'Id']]},
            {'k': 'linked', 'num': 3, 'comp': 'C1', 'one': 'A', 'oth': 'B', 'link': 'L', 'lm': 1, 'om': 0, 'oc': 1, 'oph': 'a side',
             'tm': 1, 'tc': 0, 'tph': 'b side', 'okeys': [['A_Id', 'Id']], 'tkeys': [['B_Id', 'Id']]},
            {'k': 'subsup', 'num': 4, 'comp': 'C1', 'sup': 'S', 'subs': ['T', 'U'], 'keys': {'T': [['Id', 'Id']], 'U': [['Super_Id', 'Id']]}},
            {'k': 'simple', 'num': 5, 'comp': 'C2', 'form': 'X', 'part': 'X', 'fm': 1, 'fc': 1, 'pm': 0, 'pc': 1,
             'fph': 'child of', 'pph': 'parent of', 'keys': [['P_Id', 'Id']]},
            {'k': 'simple', 'num': 6, 'comp': 'C1', 'form': 'G', 'part': 'T', 'fm': 1, 'fc': 0, 'pm': 0, 'pc': 1,
             'fph': '', 'pph': '', 'keys': [['T_Id', 'Id']]},
            {'k': 'simple', 'num': 10, 'comp': 'C1', 'form': 'H', 'part': 'U', 'fm': 1, 'fc': 1, 'pm': 0, 'pc': 1,
             'fph': '', 'pph': '', 'keys': [['U_Ref', 'Super_Id']]},
            {'k': 'simple', 'num': 8, 'comp': 'C1', 'form': 'I', 'part': 'W', 'fm': 1, 'fc': 1, 'pm': 0, 'pc': 0,
             'fph': 'belongs to', 'pph': 'has', 'keys': [['Holder', 'Name'], ['Variety', 'Kind']]},
        ],
    }


def reflexive_linked():
    A = lambda n, k, ty='': {'n': n, 'k': k, 'ty': ty}
    return {
        'comps': ['C1'], 'nest': [], 'enums': [], 'udts': [],
        'classes': [{'kl': 'N', 'name': 'Node', 'comp': 'C1', 'attrs': [A('Id', 'base', 'unique_id'), A('K2', 'base', 'string')],
                     'ids': [['Id'], ['Id', 'K2']]},
                    {'kl': 'E', 'name': 'Edge', 'comp': 'C1', 'attrs': [A('From_Id', 'ref'), A('To_Id', 'ref'), A('To_K2', 'ref')],
                     'ids': [['From_Id', 'To_Id']]},
                    # a supertype with a single subtype
                    {'kl': 'P', 'name': 'Parent', 'comp': 'C1', 'attrs': [A('Id', 'base', 'unique_id'), A('Tag', 'base', 'string')],
                     'ids': [['Id']]},
                    {'kl': 'K', 'name': 'Kid', 'comp': 'C1', 'attrs': [A('Id', 'ref'), A('Age', 'base', 'integer')], 'ids': [['Id']]}],
        'rels': [{'k': 'subsup', 'num': 9, 'comp': 'C1', 'sup': 'P', 'subs': ['K'], 'keys': {'K': [['Id', 'Id']]}},
                 {'k': 'linked', 'num': 7, 'comp': 'C1', 'one': 'N', 'oth': 'N', 'link': 'E', 'om': 1, 'oc': 1, 'oph': 'source',
                  'tm': 1, 'tc': 1, 'tph': 'target', 'okeys': [['From_Id', 'Id']], 'tkeys': [['To_Id', 'Id'], ['To_K2', 'K2']]}],
    }


# ---- edits: each returns a new diagram (or None when not applicable) ----
def _attr_sites(d):
    return [(ci, ai) for ci, c in enumerate(d['classes']) for ai, a in enumerate(c['attrs'])]


def edit(d, rnd, derived_keys=False):
    d = copy.deepcopy(d)
    kind = rnd.choice(['rename_attr', 'retype_attr', 'reorder_attrs', 'add_attr', 'toggle', 'toggle', 'phrase', 'move_class',
                       'add_enumerator', 'reorder_enumerators', 'add_udt', 'retype_udt', 'to_derived', 'swap_form_part',
                       'rename_class', 'drop_id', 'add_id', 'add_twin_types', 'renest', 'foreign_enum_attr', 'foreign_enum_attr'])
    # (types that share their name with another type are never referred to by name)
    plain = lambda us: [u['n'] for u in us if not u['n'].startswith('Twin')]
    if kind == 'renest':
        # a component is taken out of the component it is nested in, or put into another one (never into itself or below)
        if len(d['comps']) < 2:
            return None, kind
        nest = {c: p for c, p in d.get('nest', [])}
        c = rnd.choice(d['comps'])

        def below(x, top, fuel=8):
            return x == top or (fuel and x in nest and below(nest[x], top, fuel - 1))
        options = [None] + [p for p in d['comps'] if not below(p, c)]
        p = rnd.choice([o for o in options if o != nest.get(c)] or [None])
        nest.pop(c, None)
        if p:
            nest[c] = p
        d['nest'] = sorted([k, v] for k, v in nest.items())
        return d, kind
    if kind == 'foreign_enum_attr':
        # a class gets an attribute typed by an enumeration that is packaged in another component (not the class's own, none
        # above it): the attribute keeps its type although the enumeration is not declared with that component
        nest = {c: p for c, p in d.get('nest', [])}

        def above(x, fuel=8):
            return [] if x not in nest or not fuel else [nest[x]] + above(nest[x], fuel - 1)
        cs = [c for c in d['classes'] if c.get('comp')]
        if not cs:
            return None, kind
        c = rnd.choice(cs)
        others = [y for y in d['comps'] if y != c['comp'] and y not in above(c['comp'])]
        if not others:
            return None, kind
        n = 'Far%d' % sum(1 for u in d['enums'] if u['n'].startswith('Far'))
        d['enums'].append({'n': n, 'items': ['NEAR', 'FAR', 'AWAY'][:rnd.randint(1, 3)], 'comp': rnd.choice(others)})
        c['attrs'].insert(rnd.randint(0, len(c['attrs'])), {'n': 'Kind%d' % len(c['attrs']), 'k': 'base', 'ty': n})
        return d, kind
    if kind == 'add_twin_types':
        # an enumeration and a user-defined type with one name, in any two places: both are declared
        n = 'Twin%d' % sum(1 for u in d['enums'] if u['n'].startswith('Twin'))
        d['enums'].append({'n': n, 'items': ['LOW', 'HIGH'], 'comp': rnd.choice(d['comps'] + [''])})
        d['udts'].append({'n': n, 'base': 'integer', 'comp': rnd.choice(d['comps'] + [''])})
        return d, kind
    if kind == 'rename_attr':
        ci, ai = rnd.choice(_attr_sites(d))
        c = d['classes'][ci]
        old = c['attrs'][ai]['n']
        new = old + rnd.choice(['_x', '2', 'Renamed'])
        if any(a['n'] == new for a in c['attrs']):
            return None, kind
        c['attrs'][ai]['n'] = new
        c['ids'] = [[new if n == old else n for n in i] for i in c['ids']]
        for r in d['rels']:
            def ren(pairs, ref_kl, id_kl):
                return [[new if (p[0] == old and ref_kl == c['kl']) else p[0], new if (p[1] == old and id_kl == c['kl']) else p[1]]
                        for p in pairs]
            if r['k'] == 'simple':
                r['keys'] = ren(r['keys'], r['form'], r['part'])
            elif r['k'] == 'linked':
                r['okeys'] = ren(r['okeys'], r['link'], r['one'])
                r['tkeys'] = ren(r['tkeys'], r['link'], r['oth'])
            else:
                r['keys'] = {s: ren(p, s, r['sup']) for s, p in r['keys'].items()}
        return d, kind
    if kind == 'retype_attr':
        sites = [(ci, ai) for ci, ai in _attr_sites(d) if d['classes'][ci]['attrs'][ai]['k'] != 'ref']
        ci, ai = rnd.choice(sites)
        types = ['boolean', 'integer', 'real', 'string', 'unique_id', 'void', 'inst_ref<Object>'] + \
            plain(d['udts']) + plain(d['enums'])
        if _is_referred(d, d['classes'][ci]['kl'], d['classes'][ci]['attrs'][ai]['n']):
            # an attribute that relationships refer to keeps a supported type (a key without a type has no meaning): a core
            # type, or a user type over one (directly or through further user types)
            def core_base(ty, fuel=8):
                u = [x for x in d['udts'] if x['n'] == ty]
                if not u:
                    return ty if ty in ('integer', 'string', 'unique_id', 'real') else None
                return core_base(u[0]['base'], fuel - 1) if fuel else None
            types = ['integer', 'string', 'unique_id', 'real'] + [n for n in plain(d['udts']) if core_base(n)] * 2
        d['classes'][ci]['attrs'][ai]['ty'] = rnd.choice(types)
        return d, kind
    if kind == 'reorder_attrs':
        c = rnd.choice(d['classes'])
        if len(c['attrs']) < 2:
            return None, kind
        i, j = rnd.sample(range(len(c['attrs'])), 2)
        c['attrs'][i], c['attrs'][j] = c['attrs'][j], c['attrs'][i]
        return d, kind
    if kind == 'add_attr':
        c = rnd.choice(d['classes'])
        n = 'Extra%d' % len(c['attrs'])
        c['attrs'].insert(rnd.randint(0, len(c['attrs'])), {'n': n, 'k': rnd.choice(['base', 'base', 'derived']),
                                                            'ty': rnd.choice(['integer', 'string', 'boolean', 'real'])})
        return d, kind
    if kind == 'toggle':
        r = rnd.choice(d['rels'])
        if r['k'] == 'simple':
            f = rnd.choice(['fm', 'fc', 'pm', 'pc'])
        elif r['k'] == 'linked':
            f = rnd.choice(['om', 'oc', 'tm', 'tc', 'lm'])
        else:
            return None, kind
        r[f] = 1 - r.get(f, 0)
        return d, kind
    if kind == 'phrase':
        r = rnd.choice([x for x in d['rels'] if x['k'] != 'subsup'])
        f = rnd.choice(['fph', 'pph'] if r['k'] == 'simple' else ['oph', 'tph'])
        r[f] = rnd.choice(['', 'is next to', 'owns', "has"])
        return d, kind
    if kind == 'move_class':
        # a class moves together with everything it is related to (relationships do not cross components)
        c = rnd.choice(d['classes'])
        group = {c['kl']}
        changed = True
        while changed:
            changed = False
            for r in d['rels']:
                members = set(x for x in [r.get('form'), r.get('part'), r.get('one'), r.get('oth'), r.get('link'), r.get('sup')] if x)
                members |= set(r.get('subs', []))
                if members & group and not members <= group:
                    group |= members
                    changed = True
        target = rnd.choice(d['comps'] + [''])
        for x in d['classes']:
            if x['kl'] in group:
                x['comp'] = target
        for r in d['rels']:
            members = set(x for x in [r.get('form'), r.get('part'), r.get('one'), r.get('oth'), r.get('link'), r.get('sup')] if x)
            if members & group:
                r['comp'] = target
        return d, kind
    if kind == 'add_enumerator':
        if not d['enums']:
            return None, kind
        u = rnd.choice(d['enums'])
        k = len(u['items'])
        while 'E%d' % k in u['items']:
            k += 1
        u['items'].insert(rnd.randint(0, len(u['items'])), 'E%d' % k)
        return d, kind
    if kind == 'reorder_enumerators':
        us = [u for u in d['enums'] if len(u['items']) > 1]
        if not us:
            return None, kind
        u = rnd.choice(us)
        i, j = rnd.sample(range(len(u['items'])), 2)
        u['items'][i], u['items'][j] = u['items'][j], u['items'][i]
        return d, kind
    if kind == 'add_udt':
        names = ['boolean', 'integer', 'real', 'string'] + plain(d['udts']) + plain(d['enums'])
        d['udts'].append({'n': 'UT%d' % len(d['udts']), 'base': rnd.choice(names), 'comp': rnd.choice(d['comps'] + [''])})
        return d, kind
    if kind == 'retype_udt':
        if not d['udts']:
            return None, kind
        k = rnd.randrange(len(d['udts']))
        earlier = ['boolean', 'integer', 'real', 'string', 'void'] + plain(d['udts'][:k]) + plain(d['enums'])
        # (user types that the type of a referred key passes through stay over a core type)
        def chain(ty, fuel=8):
            u = [x for x in d['udts'] if x['n'] == ty]
            return [ty] + (chain(u[0]['base'], fuel - 1) if u and fuel else [])
        key_types = set(t for c in d['classes'] for a in c['attrs'] if _is_referred(d, c['kl'], a['n']) for t in chain(a['ty']))
        if d['udts'][k]['n'] in key_types:
            earlier = ['integer', 'real', 'string'] + [n for n in plain(d['udts'][:k])
                                                       if chain(n)[-1] in ('integer', 'real', 'string', 'unique_id')]
        d['udts'][k]['base'] = rnd.choice(earlier)
        return d, kind
    if kind == 'to_derived':
        # (an attribute that relationships refer to becomes derived only where derived attributes are always extracted)
        sites = [(ci, ai) for ci, ai in _attr_sites(d) if d['classes'][ci]['attrs'][ai]['k'] == 'base'
                 and (derived_keys or not _is_referred(d, d['classes'][ci]['kl'], d['classes'][ci]['attrs'][ai]['n']))]
        if derived_keys and rnd.random() < 0.6:
            pref = [(ci, ai) for ci, ai in sites if _is_referred(d, d['classes'][ci]['kl'], d['classes'][ci]['attrs'][ai]['n'])]
            sites = pref or sites
        if not sites:
            return None, kind
        ci, ai = rnd.choice(sites)
        d['classes'][ci]['attrs'][ai]['k'] = 'derived'
        return d, kind
    if kind == 'swap_form_part':
        # formalise a reflexive simple relationship the other way round: multiplicities and phrases change sides
        rs = [r for r in d['rels'] if r['k'] == 'simple' and r['form'] == r['part']]
        if not rs:
            return None, kind
        r = rnd.choice(rs)
        r['fm'], r['pm'] = r['pm'], r['fm']
        r['fc'], r['pc'] = r['pc'], r['fc']
        r['fph'], r['pph'] = r['pph'], r['fph']
        return d, kind
    if kind == 'rename_class':
        c = rnd.choice(d['classes'])
        old, new = c['kl'], c['kl'] + 'q'
        if any(x['kl'] == new for x in d['classes']):
            return None, kind
        c['kl'] = new
        for r in d['rels']:
            for f in ('form', 'part', 'one', 'oth', 'link', 'sup'):
                if r.get(f) == old:
                    r[f] = new
            if r['k'] == 'subsup':
                r['subs'] = [new if s == old else s for s in r['subs']]
                r['keys'] = {(new if s == old else s): p for s, p in r['keys'].items()}
        return d, kind
    if kind == 'drop_id':
        # the last identifier of a class may go when no relationship refers to the class through it
        cs = []
        for c in d['classes']:
            if len(c['ids']) > 1:
                rest = c['ids'][:-1]
                needed = []
                for r in d['rels']:
                    for src, tgts in [(o, ts) for o, ts in _refs(r)]:
                        for tk, pairs in tgts:
                            if tk == c['kl']:
                                needed.append(set(p[1] for p in pairs))
                if all(any(n <= set(i) for i in rest) for n in needed):
                    cs.append(c)
        if not cs:
            return None, kind
        rnd.choice(cs)['ids'].pop()
        return d, kind
    if kind == 'add_id':
        c = rnd.choice(d['classes'])
        names = [a['n'] for a in c['attrs']]
        if len(c['ids']) >= 3 or not names:
            return None, kind
        c['ids'].append(rnd.sample(names, rnd.randint(1, min(2, len(names)))))
        return d, kind
    return None, kind


def _refs(r):
    if r['k'] == 'simple':
        return [(r['form'], [(r['part'], r['keys'])])]
    if r['k'] == 'linked':
        return [(r['link'], [(r['one'], r['okeys']), (r['oth'], r['tkeys'])])]
    return [(s, [(r['sup'], r['keys'][s])]) for s in r['subs']]


def _is_referred(d, kl, n):
    for r in d['rels']:
        if r['k'] == 'simple' and r['part'] == kl and any(p[1] == n for p in r['keys']):
            return True
        if r['k'] == 'linked' and ((r['one'] == kl and any(p[1] == n for p in r['okeys'])) or
                                   (r['oth'] == kl and any(p[1] == n for p in r['tkeys']))):
            return True
        if r['k'] == 'subsup' and r['sup'] == kl:
            return True
    return False
