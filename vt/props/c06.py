"""C06: prebuilt instances form a well-formed, correctly typed population."""
from . import c05

PID = 'C06'
CONSTS = ('CONSTANTS\n  AttrTypes <- MC_AttrTypes\n  ParamTypes <- MC_ParamTypes\n  RetTypes <- MC_RetTypes\n'
          '  ConstTypes <- MC_ConstTypes\n  NavTarget <- MC_NavTarget\n')


def check(tier, replay_path=None):
    return c05.run(
        PID, tier, replay_path, facts=True, module='MC_OalTypeTrace',
        mods=('OalSyntax', 'OalType', 'OalTypeTrace', 'MC_OalTypeTrace', 'TraceBase'), consts=CONSTS,
        rule='one evaluation = one generated OAL body (the C05 corpus, function, bridge, operation, derived attribute and state homes, event statements included, random layout and keyword case) prebuilt in '
             'a synthesised BridgePoint model; the adapter reads the created population back (every ACT_SMT with its subtype, line and '
             'columns, the statement its persisted Previous_Statement_ID designates and the first statement of its block; every V_VAL '
             'with line, columns and related data type; every V_VAR with type and declaring block; every V_PAR with the parameter its '
             'Next_Value_ID designates; subtype counts across R603 / R801; association and uniqueness violations before and after) and '
             'TLC compares it with OalType.tla: StmtInfo (predecessor and block by source order), Entries/TypeOf (OAL typing), VarInfo '
             '(declaring block, first-assignment type; an event variable is declared by its first create event statement with type '
             'inst<Event>), ParamPairs (data items of an event specification succeed one another like parameters)',
        model='OalType.tla (TypeOf, Entries, StmtInfo, VarInfo, ParamPairs) over OalSyntax!Ranges',
        assumptions=[
            'elif / else clauses are counted for the one-subtype rule only (their recorded position is that of the condition, which the '
            'property does not constrain)',
            'the synthesised models declare one instance-reference and one instance-set-reference data type per class; instance '
            'values must be typed with the type of their class',
            'the minimal synthesised model has constraint violations of its own (no system / diagram rows); prebuilding must not add any',
            'navigation step chains (Next_Link_ID) are not compared',
        ])
