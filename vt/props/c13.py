"""C13: OAL parsing is total and its source positions are exact."""
import random
import re

from .. import oalcheck
from . import c07

PID = 'C13'

TOKEN = re.compile(r"""(/\*.*?\*/)|(//[^\n]*\n?)|("[^"\n]*")|('[^']*')|(\d+\.\d+|\d+)|([A-Za-z_]\w*)|(::|==|!=|<=|>=|->)|(\s+)|(.)""", re.S)
VOCAB = ['select', 'any', 'many', 'one', 'from', 'instances', 'of', 'where', 'related', 'by', 'if', 'elif', 'else', 'end if',
         'while', 'end while', 'for', 'each', 'in', 'end for', 'create', 'object', 'instance', 'delete', 'relate', 'unrelate',
         'to', 'across', 'using', 'return', 'break', 'continue', 'generate', 'event', 'bridge', 'transform', 'send', 'param',
         'self', 'selected', 'not', 'empty', 'not_empty', 'cardinality', 'and', 'or', 'true', 'false', ';', ';', '=', '==',
         '(', ')', '[', ']', '.', ',', ':', '::', '->', '+', '-', '*', '/', '%', '<', '>', 'x', 'y', 'A', 'R1', '1', '2.5',
         '"s"', "'phrase'", 'LOG::', '/* c */', '// c\n']


def mutants(text, rnd, limit):
    toks = [m.group() for m in TOKEN.finditer(text)]
    sig = [i for i, t in enumerate(toks) if not t.isspace()]
    out = []
    for i in sig:
        out.append(''.join(toks[:i] + toks[i + 1:]))
        out.append(''.join(toks[:i + 1] + [' '] + toks[i:]))
        if i + 2 < len(toks):
            sw = list(toks)
            j = min(k for k in sig if k > i) if any(k > i for k in sig) else i
            sw[i], sw[j] = sw[j], sw[i]
            out.append(''.join(sw))
        out.append(''.join(toks[:i] + [rnd.choice(VOCAB)] + toks[i + 1:]))
        out.append(''.join(toks[:i]))
        out.append(''.join(toks[:i]) + toks[i][:max(1, len(toks[i]) // 2)])
    if len(out) > limit:
        out = rnd.sample(out, limit)
    return out


def total_items(tier, seed):
    rnd = random.Random(seed + 13)
    items = []
    ODD = ['\x0b', '\x0c', '\x1c', '\x1f', '\x85', '\xa0', '\u1680', '\u2003', '\u2028', '\u2029', '\u3000', '\u200b', '\ufeff',
           '\x00', '\x7f', '\x1b', 'å', '☃', '$', '@', '`', '\\', '\r']
    progs = oalcheck.corpus('quick', seed + 1)[:12 if tier == 'quick' else 150]
    out, _ = oalcheck.unparse_stage(progs)
    import os
    import sys
    sys.path.insert(0, os.path.join(os.path.dirname(os.path.dirname(os.path.abspath(__file__))), 'adapters'))
    for o in out:
        # the same renderer as the adapter (plain python), to obtain a valid text to mutate
        from oal_render import render
        text, _ = render(o['toks'], rnd.randint(0, 10 ** 9), 'lower', 'mixed')
        for m in mutants(text, rnd, 40 if tier == 'quick' else 400):
            items.append({'total': True, 'text': m})
        # a stray character somewhere in (at the start, at the end of) an otherwise valid text
        for _ in range(6 if tier == 'quick' else 40):
            k = rnd.choice([0, len(text), rnd.randint(0, len(text))])
            items.append({'total': True, 'text': text[:k] + rnd.choice(ODD) + text[k:]})
    for _ in range(150 if tier == 'quick' else 5000):
        items.append({'total': True, 'text': ' '.join(rnd.choice(VOCAB) for _ in range(rnd.randint(1, 40)))})
    # (characters that are white space to Python but not to the lexer, controls, non-ASCII letters and symbols)
    ODD = ['\x0b', '\x0c', '\x1c', '\x1f', '\x85', '\xa0', '\u1680', '\u2003', '\u2028', '\u2029', '\u3000', '\u200b', '\ufeff',
           '\x00', '\x7f', '\x1b', 'å', '☃', '$', '@', '`', '\\', '\r']
    alphabet = list("abcXYZ019 \t\n'\"();,-.*/\\#$%&?@[]{}|~^=+<>!:\x00\x7få☃") + ODD
    for _ in range(100 if tier == 'quick' else 3000):
        items.append({'total': True, 'text': ''.join(rnd.choice(alphabet) for _ in range(rnd.randint(1, 200)))})
    # unterminated and adversarial forms (bounded time: 2 s for at most 20 kB)
    adv = ['/* never closed' + '\n' * n for n in (1, 8, 16, 24, 32, 64)]
    adv += ['/* a * b ** c' + '*' * 40, '/*' + '*' * 60 + 'x', '/*' + ' *\n' * 30, 'x = 1; /* tail', '// no newline at the end',
            '"never closed', "'never closed", 'x = "a\nb";', 'x = ' + '(' * 300 + '1' + ')' * 300 + ';',
            'x = ' + '-' * 500 + '1;', 'x = ' + 'not ' * 300 + 'true;', 'x = 1' + ' + 1' * 400 + ';',
            'end' + ' ' * 1000 + 'if', 'a' * 2000, '1' * 500 + '.' + '2' * 500, 'x = 1.5e+;', 'x = .;', '::', 'LOG::', 'x::y::z;',
            # literals beyond what int() / float() convert (4300 digits; 1e400)
            'x = ' + '7' * 6000 + ';', '9' * 5000, 'x = ' + '3' * 5000 + '.5;', 'x = 1e400;', 'x = ' + '1' * 4400 + 'e5;',
            'x = y[' + '8' * 4500 + '];', 'a' * 20000 + ' = 1;']
    for a in adv:
        items.append({'total': True, 'text': a, 'budget': 2.0})
    return items


def check(tier, replay_path=None):
    return c07.run(
        PID, tier, replay_path, positions=True, cases=['lower'], extra_items=total_items,
        rule='one evaluation = one text parsed by the real parser. Positions: for every text of the C07 corpus (multi-line '
             'expressions, comments with line breaks, tabs, optional words kept or dropped, END IF/FOR/WHILE with inner line '
             'breaks) the adapter records start/end line, column and offset and character_stream of every statement and '
             'expression node; TLC computes the token range of every node from the syntax tree (OalSyntax!Ranges: directly '
             'enclosing parentheses belong to the node) and compares with the positions of the first and last present token. '
             'Totality: single-edit token mutants of valid texts, random token sequences, character noise and unterminated or '
             'deeply nested forms must give a tree or ParseException within the budget (5 s; 2 s for the adversarial forms)',
        model='OalSyntax.tla Ranges/RE/RS (token spans), OalTrace.tla SpansOK and Total',
        assumptions=[
            'token positions are those of the renderer that wrote the text; which tokens delimit a node is decided by the specification',
            'the end line of a node is the line on which its last token starts',
            'statement and expression nodes only (blocks, lists, elif/else clauses, parameters and navigation steps are not constrained)',
        ])
