"""C09: queries and navigations return exactly the matching instances in model order."""
from .. import metacheck, metagen
from . import c02

PID = 'C09'
DULL = ('UnknownLinkException', '\\"False\\"')
STAGES = [(lambda lab, dst: not any(x in dst for x in DULL), 0.9), (lambda lab, dst: True, 0.1)]


def valued_random(schema, rnd, tier):
    """histories that also write attribute values (ties for the orderings)"""
    from .. import schemas
    runs = []
    for _ in range(10 if tier == 'quick' else 150):
        born = {c: 0 for c in schema['classes']}
        live = []
        acts = []
        for _ in range(60):
            k = rnd.random()
            if k < 0.3 or not live:
                c = rnd.choice(schema['classes'])
                born[c] += 1
                live.append((c, born[c]))
                plain = metagen.plain_attrs(schema, c)
                kw = {n: metagen.value_for(schema, c, n, rnd, 0) for n in plain
                      if rnd.random() < 0.6 and not n.endswith('Id') and n != 'id'}
                acts.append(['New', c, [], kw])
            elif k < 0.55:
                c, i = rnd.choice(live)
                plain = [n for n in metagen.plain_attrs(schema, c) if not n.endswith('Id') and n != 'id']
                if plain:
                    n = rnd.choice(plain)
                    acts.append(['SetAttr', c, i, n, metagen.value_for(schema, c, n, rnd, 0)])
            elif k < 0.62:
                x = rnd.choice(live)
                live.remove(x)
                acts.append(['Delete', x[0], x[1]])
            else:
                a = rnd.choice(schema['assocs']) if schema['assocs'] else None
                if a:
                    xs = [i for i in live if i[0] == a['src']]
                    ys = [i for i in live if i[0] == a['tgt']]
                    if xs and ys:
                        x, y = rnd.choice(xs), rnd.choice(ys)
                        acts.append([rnd.choice(['Relate', 'Relate', 'Unrelate']), x[0], x[1], y[0], y[1], a['rel'], a['sphrase']])
        runs.append({'acts': acts})
    return runs


def plans():
    ps = []
    obs = metagen.battery(['sel', 'nav', 'nav', 'card', 'sub'], per_step=3, sticky=2)
    for name, b in c02.QUICK.items():
        ps.append({'name': name, 'schema': name, 'bound': {'quick': b, 'thorough': c02.THOROUGH[name]},
                   'stages': STAGES, 'budget': 2500, 'obs': obs,
                   'sim': {'quick': (10, 40, 4), 'thorough': (200, 60, 4)},
                   'random': lambda schema, rnd, tier: c02.random_runs(schema, rnd, 3 if tier == 'quick' else 40, 120, 12)})
    for name in ('valued', 'reals'):
        ps.append({'name': name + '_values', 'schema': name, 'bound': 2, 'model': False, 'obs': obs,
                   'random': valued_random})
    # identifier values given explicitly, repeated and null (the histories of C11): an equality filter that names a whole
    # identifier still returns every match
    from . import c11
    for name in ('valued', 'many_one_2key', 'grid'):
        ps.append({'name': name + '_idclash', 'schema': name, 'bound': 2, 'model': False, 'obs': obs,
                   'random': c11.idclash_runs})
    return ps


def check(tier, replay_path=None):
    return metacheck.run_plans(
        PID, tier, plans(), replay_path,
        rule='one evaluation = one recorded call; after every call three observations (select_many/one/any with '
             'where_eq, dict, lambda and order_by/reverse_order_by operators; navigation chains of length 1-4 from None, '
             'an instance, a query set, a list or a generator, through association classes and reflexive phrases, '
             'with filters; cardinality; navigate_subtype) are evaluated by the implementation and compared by TLC '
             'with MetaObs!Eval on the specification state; distinct by (call, state before) and (observation, answer)',
        model_text='Meta.tla + MetaObs.tla (Select, NavChain, NavSubtype, StableSort, Dedup) per association shape',
        assumptions=[
            'orderings and < <= predicates only on non-referential attributes (an unset value is not ordered)',
            'equality filters compare values of the attribute\'s own type',
            'navigate_subtype is asked only on the subtype/supertype shape (links without phrases)',
            'states are those reachable by the C02 histories, by simulation and by random histories that also write values '
            '(plain attributes; in the *_idclash plans also identifying attributes: repeated and null identifiers)',
        ])
