"""C03: loading links exactly the key-matching pairs, independent of input order."""
from .. import metacheck, metagen, schemas

PID = 'C03'
ROUTES = ['input', 'one', 'files', 'load_metamodel']
ORDERS = ['schema_first', 'schema_last', 'scattered']


def R(c, **v):
    return {'c': c, 'v': v}


ROWS = {
    'one_many': [R('T', Id='u:0'), R('T', Id='u:5'), R('T', Id='u:6'),
                 R('S', Id='u:1', T_Id='u:0'), R('S', Id='u:2', T_Id='u:5'), R('S', Id='u:1', T_Id='u:7'),
                 R('S', Id='u:3', T_Id='unset')],
    'one_one': [R('T', Id='u:5'), R('T', Id='u:6'), R('S', Id='u:1', T_Id='u:5'), R('S', Id='u:2', T_Id='u:6'),
                R('S', Id='u:3', T_Id='u:0')],
    'many_one_2key': [R('T', K1='i:0', K2='s:'), R('T', K1='i:0', K2='s:a'), R('T', K1='i:1', K2='s:a'),
                      R('S', Id='u:1', T_K1='i:0', T_K2='s:a'), R('S', Id='u:2', T_K1='i:0', T_K2='s:'),
                      R('S', Id='u:3', T_K1='i:1', T_K2='unset'), R('S', Id='u:4', T_K1='i:1', T_K2='s:a')],
    'reflexive_11': [R('C', Id='u:1', Prev_Id='u:0'), R('C', Id='u:2', Prev_Id='u:1'), R('C', Id='u:3', Prev_Id='u:2'),
                     R('C', Id='u:1', Prev_Id='u:3'), R('C', Id='u:4', Prev_Id='u:4')],
    'assoc_class': [R('L', Id='u:1'), R('L', Id='u:2'), R('R', Id='u:1'), R('R', Id='u:3'),
                    R('A', L_Id='u:1', R_Id='u:3'), R('A', L_Id='u:2', R_Id='u:1'), R('A', L_Id='u:0', R_Id='u:3')],
    'subsuper': [R('SUP', Id='u:1'), R('SUP', Id='u:2'), R('SA', Id='u:1', X='i:0'), R('SA', Id='u:2', X='i:7'),
                 R('SB', Id='u:1'), R('SB', Id='u:0'), R('SB', Id='u:3')],
    'shared_ref': [R('T', Id='u:5'), R('V', Id='u:5'), R('V', Id='u:6'), R('S', Id='u:1', X_Id='u:5'),
                   R('S', Id='u:2', X_Id='u:6'), R('S', Id='u:3', X_Id='u:0')],
}
ROWS['grid'] = [R('P', A='i:1', B='i:2'), R('P', A='i:2', B='i:1'), R('P', A='i:1', B='i:1'),
                R('C1', Id='u:1', PA='i:1', PB='i:2'), R('C1', Id='u:2', PA='i:2', PB='i:1'),
                R('C2', Id='u:3', PA='i:1', PB='i:2'), R('C2', Id='u:4', PA='i:2', PB='i:1')]
# key values that are different but hash alike in Python (-1 and -2; 1 and 1 + 2**61 - 1): only equal values match
ROWS['grid_twins'] = [R('P', A='i:-1', B='i:1'), R('P', A='i:-2', B='i:1'), R('P', A='i:1', B='i:-2'),
                      R('C1', Id='u:1', PA='i:-1', PB='i:1'), R('C1', Id='u:2', PA='i:-2', PB='i:1'), R('C1', Id='u:3', PA='i:1', PB='i:-1'),
                      R('C2', Id='u:4', PA='i:-2', PB='i:1'), R('C2', Id='u:5', PA='i:1', PB='i:-1')]
ROWS['phrase_ends'] = [R('P', Id='u:5'), R('P', Id='u:6'), R('D', Id='u:1', O_Id='u:5', W_Id='u:6'),
                       R('D', Id='u:2', O_Id='u:6', W_Id='u:0'), R('D', Id='u:3', O_Id='u:7', W_Id='u:5')]
MAXROWS = {'quick': 3, 'thorough': 4}


def decorate(run, k, rnd):
    """choose how the population reaches the loader (route, statement layout, partition)"""
    for act in run['acts']:
        if act[0] == 'LoadBuild':
            act[2] = {'route': ROUTES[k % len(ROUTES)], 'order': ORDERS[(k // 4) % 3], 'chunks': 1 + (k // 12) % 3,
                      'seed': rnd.randint(0, 10 ** 6)}
            if k % 5 == 0 and all(v != 'unset' for r in act[1] for v in r['v'].values()):
                act[2]['named'] = bool(k % 2)


def random_population(schema, rnd, n):
    rows = []
    nid = 0
    ids = {c: [] for c in schema['classes']}
    for _ in range(n):
        c = rnd.choice(schema['classes'])
        refs = {k: (a, j) for a in schema['assocs'] if a['src'] == c for j, k in enumerate(a['skeys'])}
        v = {}
        for at in schema['attrs'][c]:
            nm, ty = at['n'], at['t']
            if nm in refs:
                a, j = refs[nm]
                pool = [r['v'][a['tkeys'][j]] for r in rows if r['c'] == a['tgt']]
                k = rnd.random()
                if pool and k < 0.6:
                    v[nm] = rnd.choice(pool)
                elif k < 0.75:
                    v[nm] = 'unset' if rnd.random() < 0.5 else schemas.POOLS[ty][0] if ty in ('UNIQUE_ID', 'STRING') else 'unset'
                else:
                    v[nm] = metagen.value_for(schema, c, nm, rnd, 12)
            elif ty == 'UNIQUE_ID':
                nid += 1
                v[nm] = 'u:%d' % (nid if rnd.random() < 0.85 else rnd.randint(0, 3))
            else:
                v[nm] = metagen.value_for(schema, c, nm, rnd, 12)
        rows.append({'c': c, 'v': v})
    return rows


def random_runs(schema, rnd, tier):
    runs = []
    for k in range(16 if tier == 'quick' else 300):
        rows = random_population(schema, rnd, rnd.randint(4, 18))
        # referred instances may come after the referring ones: shuffle the statement order
        rnd.shuffle(rows)
        runs.append({'acts': [['LoadBuild', rows, {}]]})
    return runs


def noschema_runs(schema, rnd, tier):
    """populations loaded without any CREATE TABLE statement (every class is inferred from its first row), or with them but
    in the same type-fixing value forms; the load is the last call of the run"""
    runs = []
    for k in range(24 if tier == 'quick' else 400):
        rows = random_population(schema, rnd, rnd.randint(2, 12))
        rnd.shuffle(rows)
        modes = {c: rnd.random() < 0.35 for c in schema['classes']}
        how = {'modes': modes, 'parts': [] if k % 3 else ['table']}
        if not how['parts']:
            how['infer'] = {c: 'named' if modes[c] else 'pos' for c in schema['classes']}
        runs.append({'acts': [['LoadBuild', rows, how]]})
    return runs


def decorate_noschema(run, k, rnd):
    for act in run['acts']:
        if act[0] == 'LoadBuild':
            act[2].update({'route': ROUTES[k % len(ROUTES)], 'order': ORDERS[(k // 4) % 3], 'chunks': 1 + (k // 12) % 3,
                           'seed': rnd.randint(0, 10 ** 6)})


def plans():
    obs = metagen.battery(['nav', 'nav', 'sel', 'chk_assoc', 'chk_id', 'consistent'], per_step=4)
    ps = []
    for name, rows in ROWS.items():
        ps.append({'name': name, 'schema': name, 'spec': 'SpecVal', 'alpha': {'load', 'loadinto'}, 'rowchoices': rows,
                   'maxrows': MAXROWS, 'bound': 4, 'invariants': ['TypeOK', 'Symmetric', 'PermutationInvariant', 'JoinClosed'],
                   'properties': ['LoadIsJoin'], 'must_cover': ('VLoad', 'VLoadInto'), 'budget': 1500, 'budget_thorough': 60000,
                   'maxlen': 3, 'decorate': decorate, 'obs': obs, 'random': random_runs})
    for name in ('valued', 'keywords', 'assoc_reflexive', 'reflexive_1m', 'grid', 'phrase_ends', 'mixed_case', 'two_identifiers'):
        ps.append({'name': name + '_random', 'schema': name, 'model': False, 'bound': 4, 'decorate': decorate,
                   'obs': obs, 'random': random_runs})
    ps.append({'name': 'plain2_inferred', 'schema': 'plain2', 'model': False, 'bound': 4, 'decorate': decorate_noschema,
               'random': noschema_runs})
    return ps


def sig_extra(e, v):
    """shape of a failing API creation: does the row carry a non-null reference across a reflexive association"""
    if e.get('op') != 'NewRow':
        return {}
    from .. import schemas as S
    row = e['row']
    for name, sch in S.SCHEMAS.items():
        if row['c'] in sch['classes'] and set(row['v']) == {a['n'] for a in sch['attrs'][row['c']]}:
            for a in sch['assocs']:
                same_kind_twice = sum(1 for b in sch['assocs'] if b['rel'] == a['rel'] and b['tgt'] == a['tgt']) > 1
                if a['src'] == row['c'] and (a['src'] == a['tgt'] or same_kind_twice):
                    if any(row['v'].get(k, 'unset') not in ('unset', 'u:0', 's:') for k in a['skeys']):
                        return {'reflexive_ref': True}
            for a in sch['assocs']:
                # a non-reflexive association whose two ends carry different phrases
                if a['src'] == row['c'] and a['src'] != a['tgt'] and a['sphrase'] != a['tphrase']:
                    if any(row['v'].get(k, 'unset') not in ('unset', 'u:0', 's:') for k in a['skeys']):
                        return {'reflexive_ref': False, 'one_sided_phrase': True}
    return {'reflexive_ref': False}


def check(tier, replay_path=None):
    return metacheck.run_plans(
        PID, tier, plans(), replay_path,
        rule='one evaluation = one population rendered as SQL text (random layout, keyword case, value forms, positional or '
             'named inserts) and fed to the real loader through input()/several inputs/files/load_metamodel with the '
             'schema first, last or scattered; the built metamodel (pools, values, both link directions, schema) and four '
             'queries/consistency counts are compared by TLC with Meta!LoadBuild, the relational join of the rows; '
             'distinct by population (statement order included) and route',
        model_text='Meta.tla LoadBuild over every population of at most 3 (quick) / 4 (thorough) rows drawn from 5-7 row choices '
                   'per shape (null, duplicate, dangling and unset keys, two-attribute keys, shared referential attributes); '
                   'invariant PermutationInvariant, action property LoadIsJoin',
        assumptions=[
            'referential and identifying attributes of an association have the same declared type',
            'CREATE TABLE types are written in upper case; classes without CREATE TABLE statement (inferred from their first row: '
            'MetaTrace!ExpAttrs) only in the plan plain2_inferred, where no association or identifier refers to them, values are '
            'written in the lexical form that fixes their type and all rows of a class use one insert form',
            'directory/zip routes (bridgepoint loader) and creation through the API are separate plans',
        ], sig_extra=sig_extra)


# ---- creation through the API (referred instances first) and by cloning ----
def referred_first(schema, rows, rnd):
    """order rows so that referred classes precede referring ones; within a reflexive class keep the order"""
    rank = {c: 0 for c in schema['classes']}
    for _ in schema['classes']:
        for a in schema['assocs']:
            if a['src'] != a['tgt']:
                rank[a['src']] = max(rank[a['src']], rank[a['tgt']] + 1)
    return sorted(rows, key=lambda r: rank[r['c']])


def api_runs(schema, rnd, tier):
    runs = []
    for k in range(24 if tier == 'quick' else 400):
        rows = referred_first(schema, random_population(schema, rnd, rnd.randint(3, 14)), rnd)
        if k % 3 == 2:
            idx = {}
            acts = []
            for r in rows:
                i = idx.get(r['c'], 0)
                idx[r['c']] = i + 1
                acts.append(['NewRow', r, {'clone': i, 'src': rows}])
        else:
            acts = [['NewRow', r, {'positional': bool(k % 3)}] for r in rows]
        runs.append({'acts': acts})
    return runs


def split_runs(schema, rnd, tier):
    """a population split between a build and one or two later populate() calls of loaders that hold rows only"""
    runs = []
    for k in range(16 if tier == 'quick' else 300):
        rows = random_population(schema, rnd, rnd.randint(4, 16))
        rnd.shuffle(rows)
        cuts = sorted(rnd.sample(range(0, len(rows) + 1), 2 if k % 2 else 1))
        parts = [rows[:cuts[0]]] + [rows[a:b] for a, b in zip(cuts, cuts[1:] + [len(rows)])]
        runs.append({'acts': [['LoadBuild', parts[0], {}]] + [['LoadInto', p] for p in parts[1:]]})
    return runs


def batch_runs(schema, rnd, tier):
    """histories that give identifying attributes explicit, repeated and null values (so that instances come to match
    without being linked), interleaved with Association.batch_relate on every association"""
    from . import c11
    runs = []
    for r in c11.idclash_runs(schema, rnd, tier):
        acts = []
        for a in r['acts']:
            acts.append(a)
            if rnd.random() < 0.3 and schema['assocs']:
                acts.append(['BatchRelate', rnd.randint(1, len(schema['assocs']))])
        acts.append(['BatchRelate', rnd.randint(1, len(schema['assocs']))])
        runs.append({'acts': acts})
    return runs


def api_plans():
    obs = metagen.battery(['nav', 'sel', 'chk_assoc'], per_step=1)
    ps = []
    for name in ('one_many', 'one_one', 'many_one_2key', 'reflexive_1m', 'assoc_class', 'subsuper', 'shared_ref', 'valued',
                 'grid', 'phrase_ends', 'mixed_case'):
        ps.append({'name': name + '_api', 'schema': name, 'model': False, 'bound': 4, 'obs': obs, 'random': api_runs,
                   'opt': {'spell_attr': True}})
    # the rows arrive in several loaders: the first builds the metamodel, the others populate it
    for name in ('one_many', 'one_one', 'many_one_2key', 'reflexive_1m', 'assoc_class', 'subsuper', 'valued', 'grid',
                 'mixed_case'):
        ps.append({'name': name + '_split', 'schema': name, 'model': False, 'bound': 4, 'obs': obs, 'random': split_runs,
                   'decorate': decorate})
    # Association.batch_relate closes the join of one association in states made through the API
    for name in ('one_many', 'one_one', 'many_one_2key', 'reflexive_1m', 'assoc_class', 'subsuper', 'valued', 'grid'):
        ps.append({'name': name + '_batch', 'schema': name, 'model': False, 'bound': 4, 'obs': obs, 'random': batch_runs})
    return ps


_plans0 = plans


def bp_plans():
    """populations of ooaofooa classes through bridgepoint.ooaofooa.ModelLoader: one text, several files, directory trees
    and zip archives (two trees / archives whose members carry the same names among them); see C11 for the schema parts"""
    from . import c11
    grows = c11.bp_schemas()
    obs = metagen.battery(['nav', 'nav', 'sel', 'chk_assoc'], per_step=4)
    return [{'name': 'bp_%s_load' % name, 'schema': 'ooa_' + name, 'bound': 2, 'model': False, 'obs': obs,
             'random': c11.bp_runs(grows)} for name in ('ee', 'eeevt', 'tfr')]


def plans():
    ps = _plans0() + api_plans() + bp_plans()
    # a metamodel with the same names but other attribute types lives in the same process (adapter shadow_prelude)
    for p in ps:
        p['opt'] = dict(p.get('opt') or {}, shadow=True)
    return ps
