"""C04: interpreted OAL computes what the action language defines."""
import random

from .. import common, evidence, oalcheck, oalgen, replay, schemas, tlagen, trace

PID = 'C04'


def exec_corpus(tier, seed, n=None):
    rnd = random.Random(seed)
    progs = []
    for k in range(n or (400 if tier == 'quick' else 6000)):
        g = oalgen.Gen(random.Random(rnd.randint(0, 10 ** 9)), maxdepth=rnd.choice([2, 3, 3, 4]), parens=0.1,
                       syntax_only=False)
        g.no_division = True
        g.casevars = (k % 3 == 2)       # variables that differ in letter case only
        progs.append(g.program(nstmts=rnd.randint(3, 9), setup=(k % 4 != 0), patterns=('select' if k % 10 == 3 else 'literal' if k % 10 == 7 else k % 5 == 1)))
    return progs


def consts(funcs=None, maxi=12, fuel=600):
    sch = oalgen.OAL_SCHEMA
    c = {'Classes': sch['classes'], 'Attrs': {k: sch['attrs'][k] for k in sch['classes']}, 'Assocs': sch['assocs'],
         'MaxI': maxi, 'Fuel': fuel}
    return c


def validate_exec(items, funcs=None, module='OalExecTrace'):
    runs = [{'items': items[i:i + 25]} for i in range(0, len(items), 25)]
    traces = replay.replay('oalexec', {'schema': oalgen.OAL_SCHEMA}, runs, timeout=3000)
    c = consts(funcs)
    mod = tlagen.mc_module('MC_' + module, [module], c)
    verdicts, st = trace.validate('MC_' + module, tlagen.cfg_constants(c), traces,
                                  modules=['OalExec', 'OalExecTrace', 'TraceBase'], extra={'MC_%s.tla' % module: mod})
    return runs, traces, verdicts, st


def run(pid, tier, replay_path, cases, rule, model, assumptions):
    t = common.Timer()
    rep = evidence.Report(pid)
    seed = common.seed()
    rnd = random.Random(seed)
    if replay_path:
        items = [common.read_json(replay_path)['item']]
    else:
        progs = exec_corpus(tier, seed)
        out, _ = oalcheck.unparse_stage(progs)
        items = []
        for k, o in enumerate(out):
            for case in cases:
                items.append({'body': o['body'], 'toks': o['toks'], 'seed': rnd.randint(0, 10 ** 9), 'case': case,
                              'layout': ['plain', 'mixed'][k % 2]})
    runs, traces, verdicts, st = validate_exec(items)
    accepted = 0
    kinds = {}
    distinct = set()
    samples = []
    for v, r in zip(verdicts, runs):
        for e in v.trace[:(len(v.trace) if v.ok else v.step)]:
            def count(b):
                for s in b:
                    kinds[s['t']] = kinds.get(s['t'], 0) + 1
                    for kk in ('b', 'els'):
                        if isinstance(s.get(kk), list):
                            count(s[kk])
                    for x in s.get('elifs', []) if s['t'] == 'if' else []:
                        count(x['b'])
            count(e['src'])
            distinct.add(e['text'])
        if v.ok:
            accepted += 1
            if len(samples) < 3:
                e = v.trace[len(samples) % len(v.trace)]
                samples.append({'text': e['text'][:600], 'result': e['res'], 'final_pools': e['pool']})
        else:
            e = v.event()
            sig = {'clause': v.clause, 'res': e['res'], 'err': e['err'].split(':')[0]}
            rep.failure(sig, {'item': r['items'][v.step - 1], 'text': e['text'], 'err': e['err'], 'res': e['res'],
                              'clause': v.clause, 'pool': e['pool'], 'attr': e['attr'], 'nav': e['nav'],
                              'spec_expected': repr(v.expected)[:3000]})
    rc = rep.finish()
    if replay_path:
        return rc
    cov = {'states': st['tlc_states'], 'transitions': st['tlc_states'], 'traces_validated_against_impl': accepted,
           'evaluations': st['steps'], 'distinct_nontrivial': len(distinct), 'rule': rule,
           'samples': samples or [{'note': 'none'}], 'statements_executed_by_kind': kinds,
           'programs_outside_domain': st.get('notes', {}).get('OOD', 0), 'model': model, 'exhaustive': False}
    evidence.write(pid, tier, 'model_checking', cov, t.s(), rep.n, assumptions)
    return rc


def check(tier, replay_path=None):
    return run(
        PID, tier, replay_path, cases=['lower'],
        rule='one evaluation = one generated, type-correct OAL body (setup of a population by create/attribute writes/relate, then '
             'nested if/elif/else, bounded while, for each, break, continue, return, select any/many from instances and along '
             'relationship chains with where clauses, delete, unrelate, cardinality/empty/not_empty) run by interpret.run_function on '
             'a real domain; TLC evaluates OalExec!Run on the same syntax tree and compares the return value and the final '
             'population (pools, attribute values, links in both directions); programs the specification places outside the '
             'domain are counted, not judged',
        model='OalExec.tla: big-step evaluator over a relational model (no pyxtuml notion in it)',
        assumptions=[
            'the initial population is built by the program itself (create / attribute writes / relate), so arbitrary initial '
            'populations are arbitrary program prefixes',
            'division is outside the domain (Python 3 true division: `7 / 2` yields 3.5); modulo only on non-negative operands; '
            'integers within +-10^6',
            'programs that use a deleted instance, read through an empty handle or whose relate/unrelate is rejected are error '
            'programs and are not judged',
        ])
