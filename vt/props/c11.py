"""C11: the consistency check reports exactly the violations present."""
from .. import metacheck, metagen
from . import c02, c09

PID = 'C11'


def idclash_runs(schema, rnd, tier):
    """creations with explicit, repeated and null identifying values, then rewrites of them"""
    runs = []
    for _ in range(12 if tier == 'quick' else 200):
        acts = []
        born = {c: 0 for c in schema['classes']}
        live = []
        for _ in range(rnd.randint(6, 25)):
            k = rnd.random()
            if k < 0.45 or not live:
                c = rnd.choice(schema['classes'])
                plain = metagen.plain_attrs(schema, c)
                kw = {}
                for n in plain:
                    if rnd.random() < 0.6:
                        ty = [a['t'] for a in schema['attrs'][c] if a['n'] == n][0]
                        kw[n] = ('u:%d' % rnd.choice([0, 0, 201, 202, 203])) if ty == 'UNIQUE_ID' else \
                            metagen.value_for(schema, c, n, rnd, 3)
                born[c] += 1
                live.append((c, born[c]))
                acts.append(['New', c, [], kw])
            elif k < 0.7:
                c, i = rnd.choice(live)
                plain = metagen.plain_attrs(schema, c)
                if not plain:
                    continue
                n = rnd.choice(plain)
                ty = [a['t'] for a in schema['attrs'][c] if a['n'] == n][0]
                v = ('u:%d' % rnd.choice([0, 201, 202])) if ty == 'UNIQUE_ID' else metagen.value_for(schema, c, n, rnd, 3)
                acts.append(['SetAttr', c, i, n, v])
            elif k < 0.8:
                x = rnd.choice(live)
                live.remove(x)
                acts.append(['Delete', x[0], x[1]])
            elif schema['assocs']:
                a = rnd.choice(schema['assocs'])
                xs = [i for i in live if i[0] == a['src']]
                ys = [i for i in live if i[0] == a['tgt']]
                if xs and ys:
                    x, y = rnd.choice(xs), rnd.choice(ys)
                    acts.append([rnd.choice(['Relate', 'Relate', 'Unrelate']), x[0], x[1], y[0], y[1], a['rel'], a['sphrase']])
        runs.append({'acts': acts})
    return runs


# parts of the ooaofooa schema that the BridgePoint tool is judged on: rows are confined to these classes, the
# specification runs on them, the classes related to them and every association among those (vt/ooaschema.py)
BP_PARTS = {
    'ee': ['S_EE', 'S_EEM', 'S_BRG', 'S_BPARM'],
    'cnst': ['CNST_CSP', 'CNST_SYC', 'CNST_LFSC', 'CNST_LSC'],
    'eeevt': ['S_EEEVT', 'S_EEEDI', 'S_EEEDT', 'S_EEDI'],
    'tfr': ['O_TFR', 'O_TPARM'],
    'dt': ['PE_PE', 'S_DT', 'S_CDT', 'S_UDT', 'S_EDT', 'S_ENUM'],       # the classes of the predefined global rows (-g)
}
BP_ROUTES = ['bp_input', 'bp_files', 'bp_dir', 'bp_zip']


def bp_schemas():
    from .. import ooaschema, schemas
    full = ooaschema.full()
    for name, P in BP_PARTS.items():
        schemas.SCHEMAS['ooa_' + name] = ooaschema.sub(full, P)
    return ooaschema.global_rows(full)


def bp_runs(grows):
    from . import c03

    def runs(schema, rnd, tier):
        view = dict(schema, classes=schema['populated'])
        with_globals = set(r['c'] for r in grows) <= set(schema['populated'])
        out = []
        for k in range(16 if tier == "quick" else 200):
            rows = c03.random_population(view, rnd, rnd.choice([0, 1, 3, 6, 10, 14]))
            rnd.shuffle(rows)
            how = {'route': BP_ROUTES[k % 4], 'chunks': 1 + (k // 4) % 4, 'seed': rnd.randint(0, 10 ** 6)}
            if with_globals and k % 2:
                rows = [dict(r) for r in grows] + rows
                how['skip'] = len(grows)
            out.append({'acts': [['LoadBuild', rows, how]]})
        return out
    return runs


def bp_obs(schema, acts, rnd):
    near = sorted(set(a['rel'] for a in schema['assocs'] if a['src'] in schema['populated'] or a['tgt'] in schema['populated']))
    # (mostly the associations of the populated classes; now and then one between two classes without rows)
    rels = near * 3 + sorted(set(a['rel'] for a in schema['assocs']))
    out = []
    for _ in acts:
        qs = [{'k': 'chk_assoc', 'rel': ''}, {'k': 'chk_id', 'c': ''}, {'k': 'consistent'},
              {'k': 'chk_assoc', 'rel': rnd.choice(rels)}, {'k': 'chk_id', 'c': rnd.choice(schema['populated'])}]
        for j in range(4):
            nr = rnd.choice([0, 0, 1, 1, 2]) if j else 0
            nk = rnd.choice([0, 0, 1, 2]) if j else 0
            qs.append({'k': 'cli', 'rels': [rnd.choice(rels + ['R99']) for _ in range(nr)],
                       'kinds': [rnd.choice(schema['populated'] * 2 + schema['classes']) for _ in range(nk)],
                       'proc': rnd.random() < 0.1, 'route': rnd.choice(BP_ROUTES), 'files': rnd.randint(1, 3),
                       'seed': rnd.randint(0, 10 ** 6)})
        out.append(qs)
    return out


def plans():
    obs = metagen.battery(['chk_assoc', 'chk_assoc', 'chk_id', 'consistent', 'chk_sub', 'cli'], per_step=3)
    ps = []
    for name, b in c02.QUICK.items():
        ps.append({'name': name, 'schema': name, 'bound': {'quick': b, 'thorough': c02.THOROUGH[name]},
                   'stages': c09.STAGES, 'state_cover': 1.0, 'budget': 2500, 'obs': obs,
                   'random': lambda schema, rnd, tier: c02.random_runs(schema, rnd, 3 if tier == 'quick' else 40, 100, 12)})
    for name in ('valued', 'many_one_2key', 'subsuper', 'assoc_class', 'grid', 'mixed_case', 'prefix_rels'):
        ps.append({'name': name + '_ids', 'schema': name, 'bound': 2, 'model': False, 'obs': obs, 'random': idclash_runs})
    # over-populated ends are only reachable by loading duplicate keys: the populations of C03 (TLC enumerates every
    # population of the row choices of each shape), each followed by the consistency observations
    from . import c03
    obs4 = metagen.battery(['chk_assoc', 'chk_assoc', 'chk_id', 'consistent', 'cli'], per_step=4)
    for p in c03._plans0():
        if p['schema'] == 'plain2':
            continue                      # inferred classes have no identifiers or associations to check
        p = dict(p)
        p['name'] += '_loaded'
        p['obs'] = obs4
        p['budget'] = 500
        p['budget_thorough'] = 20000
        ps.append(p)
    # bridgepoint/consistency_check.py: the same counts on a BridgePoint model (ooaofooa schema, optional global rows)
    grows = bp_schemas()
    for name in BP_PARTS:
        ps.append({'name': 'bp_' + name, 'schema': 'ooa_' + name, 'bound': 2, 'model': False, 'obs': bp_obs,
                   'random': bp_runs(grows)})
    return ps


def check(tier, replay_path=None):
    return metacheck.run_plans(
        PID, tier, plans(), replay_path,
        rule='one evaluation = one recorded call; after every call check_association_integrity (all, one known and one unknown '
             'number), check_uniqueness_constraint (all and per class), is_consistent and check_subtype_integrity are asked '
             'and compared by TLC with MetaObs!AssocViolations / IdViolations / Consistent / SubtypeViolations on the '
             'specification state',
        model_text='Meta.tla + MetaObs.tla consistency operators on every association shape (under-populated ends via API '
                   'histories; null and repeated identifiers via explicit values)',
        assumptions=[
            'null = unset or the null id, as the statement says; every referred key is part of a declared identifier',
            'over-populated ends are only reachable through loading: every population of the C03 row choices is loaded and checked',
            'the command-line tool xtuml.consistency_check is run on the persisted model (main() in process; for a share of the '
            'calls also as a process, whose exit status must be 1 exactly when violations exist)',
            'bridgepoint.consistency_check is run (plans bp_*) on populations confined to five groups of ooaofooa classes: the '
            'specification runs on the part of the ooaofooa schema that decides the counts (those classes, every class related '
            'to one of them, every association among them; read from bridgepoint/schema.py by the harness itself and compared '
            'with the schema the loader builds); rows as one text, several files, a directory tree with foreign files, a zip '
            'archive; with and without the predefined global rows (-g); -r / -k restrictions; function-level counts on the '
            'whole ooaofooa metamodel as well',
            'identifier repeats are counted per (instance, identifier) pair',
        ])
