"""C11: the consistency check reports exactly the violations present."""
from .. import metacheck, metagen
from . import c02, c09

PID = 'C11'


def idclash_runs(schema, rnd, tier):
    """creations with explicit, repeated and null identifying values, then rewrites of them"""
    runs = []
    for _ in range(12 if tier == 'quick' else 200):
        acts = []
        born = {c: 0 for c in schema['classes']}
        live = []
        for _ in range(rnd.randint(6, 25)):
            k = rnd.random()
            if k < 0.45 or not live:
                c = rnd.choice(schema['classes'])
                plain = metagen.plain_attrs(schema, c)
                kw = {}
                for n in plain:
                    if rnd.random() < 0.6:
                        ty = [a['t'] for a in schema['attrs'][c] if a['n'] == n][0]
                        kw[n] = ('u:%d' % rnd.choice([0, 0, 201, 202, 203])) if ty == 'UNIQUE_ID' else \
                            metagen.value_for(schema, c, n, rnd, 3)
                born[c] += 1
                live.append((c, born[c]))
                acts.append(['New', c, [], kw])
            elif k < 0.7:
                c, i = rnd.choice(live)
                plain = metagen.plain_attrs(schema, c)
                if not plain:
                    continue
                n = rnd.choice(plain)
                ty = [a['t'] for a in schema['attrs'][c] if a['n'] == n][0]
                v = ('u:%d' % rnd.choice([0, 201, 202])) if ty == 'UNIQUE_ID' else metagen.value_for(schema, c, n, rnd, 3)
                acts.append(['SetAttr', c, i, n, v])
            elif k < 0.8:
                x = rnd.choice(live)
                live.remove(x)
                acts.append(['Delete', x[0], x[1]])
            elif schema['assocs']:
                a = rnd.choice(schema['assocs'])
                xs = [i for i in live if i[0] == a['src']]
                ys = [i for i in live if i[0] == a['tgt']]
                if xs and ys:
                    x, y = rnd.choice(xs), rnd.choice(ys)
                    acts.append([rnd.choice(['Relate', 'Relate', 'Unrelate']), x[0], x[1], y[0], y[1], a['rel'], a['sphrase']])
        runs.append({'acts': acts})
    return runs


def plans():
    obs = metagen.battery(['chk_assoc', 'chk_assoc', 'chk_id', 'consistent', 'chk_sub', 'cli'], per_step=3)
    ps = []
    for name, b in c02.QUICK.items():
        ps.append({'name': name, 'schema': name, 'bound': {'quick': b, 'thorough': c02.THOROUGH[name]},
                   'stages': c09.STAGES, 'state_cover': 1.0, 'budget': 2500, 'obs': obs,
                   'random': lambda schema, rnd, tier: c02.random_runs(schema, rnd, 3 if tier == 'quick' else 40, 100, 12)})
    for name in ('valued', 'many_one_2key', 'subsuper', 'assoc_class', 'grid', 'mixed_case', 'prefix_rels'):
        ps.append({'name': name + '_ids', 'schema': name, 'bound': 2, 'model': False, 'obs': obs, 'random': idclash_runs})
    # over-populated ends are only reachable by loading duplicate keys: the populations of C03 (TLC enumerates every
    # population of the row choices of each shape), each followed by the consistency observations
    from . import c03
    obs4 = metagen.battery(['chk_assoc', 'chk_assoc', 'chk_id', 'consistent', 'cli'], per_step=4)
    for p in c03._plans0():
        if p['schema'] == 'plain2':
            continue                      # inferred classes have no identifiers or associations to check
        p = dict(p)
        p['name'] += '_loaded'
        p['obs'] = obs4
        p['budget'] = 500
        p['budget_thorough'] = 20000
        ps.append(p)
    return ps


def check(tier, replay_path=None):
    return metacheck.run_plans(
        PID, tier, plans(), replay_path,
        rule='one evaluation = one recorded call; after every call check_association_integrity (all, one known and one unknown '
             'number), check_uniqueness_constraint (all and per class), is_consistent and check_subtype_integrity are asked '
             'and compared by TLC with MetaObs!AssocViolations / IdViolations / Consistent / SubtypeViolations on the '
             'specification state',
        model_text='Meta.tla + MetaObs.tla consistency operators on every association shape (under-populated ends via API '
                   'histories; null and repeated identifiers via explicit values)',
        assumptions=[
            'null = unset or the null id, as the statement says; every referred key is part of a declared identifier',
            'over-populated ends are only reachable through loading: every population of the C03 row choices is loaded and checked',
            'the command-line tool is run on the persisted model (main() in process; for a share of the calls also as a process, '
            'whose exit status must be 1 exactly when violations exist); bridgepoint/consistency_check.py shares the counting '
            'functions and differs only in the loader, it is not run',
            'identifier repeats are counted per (instance, identifier) pair',
        ])
