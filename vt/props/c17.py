"""C17: ordered sets behave as insertion-ordered mathematical sets."""
import os
import random

from .. import common, evidence, replay, sim, tlc, tours, trace

PID = 'C17'
ACTIONS = ['Add', 'Discard', 'Remove', 'PopLast', 'PopFirst', 'Clear', 'IOr', 'IAnd', 'ISub',
           'IXor', 'Pure', 'IterRemove', 'RevIterRemove', 'Eq', 'Ne', 'New', 'ISelf', 'Swap']


def cfg(n, maxarg, props=True):
    t = 'CONSTANTS\n  Elem = {%s}\n  MaxArg = %d\n' % (', '.join(str(i) for i in range(1, n + 1)), maxarg)
    if props:
        t += ('SPECIFICATION Spec\nINVARIANT TypeOK\nINVARIANT NoDuplicates\nPROPERTY SurvivorsKeepOrder\n'
              'PROPERTY Frame\nPROPERTY PopsAreEnds\nPROPERTY OtherSetUntouched\nCHECK_DEADLOCK FALSE\n')
    return t


def to_act(label):
    name, args = tours.parse_label(label)
    out = [name]
    for a in args:
        if isinstance(a, frozenset):
            a = sorted(a)
        out.append(a)
    return out


def random_runs(rnd, n, count, length):
    runs = []
    for _ in range(count):
        acts = []
        for _ in range(length):
            name = rnd.choice(ACTIONS)
            seq = lambda dup: [rnd.randint(1, n) for _ in range(rnd.randint(0, n))] if dup else \
                rnd.sample(range(1, n + 1), rnd.randint(0, n))
            if name in ('Add', 'Discard', 'Remove'):
                acts.append([name, rnd.randint(1, n)])
            elif name in ('PopLast', 'PopFirst', 'Clear', 'Swap'):
                acts.append([name])
            elif name in ('IOr', 'IAnd', 'ISub', 'IXor', 'New'):
                acts.append([name, seq(True)])
            elif name == 'Pure':
                acts.append([name, rnd.choice(['or', 'and', 'sub', 'xor']), seq(False)])
            elif name == 'ISelf':
                acts.append([name, rnd.choice(['or', 'and', 'sub', 'xor'])])
            elif name in ('IterRemove', 'RevIterRemove'):
                acts.append([name, [i for i in range(1, n + 1) if rnd.random() < 0.4]])
            else:
                acts.append([name, seq(False)])
        runs.append(acts)
    return runs


def check(tier, replay_path=None):
    t = common.Timer()
    rep = evidence.Report(PID)
    seed = common.seed()
    rnd = random.Random(seed)
    if replay_path:
        obj = common.read_json(replay_path)
        groups = [(obj['n'], [{'cls': obj['cls'], 'acts': obj['acts'], 'plain': bool(obj.get('plain'))}])]
        mc = None
    else:
        n, maxarg = (3, 3)
        d = tlc.prepare_dir(['OrderedSet', 'MC_OrderedSet'], {'mc.cfg': cfg(n, maxarg)})
        dot = os.path.join(d, 'g.dot')
        mc = tlc.check_model(d, 'MC_OrderedSet', 'mc.cfg', must_cover=ACTIONS,
                             args=('-dump', 'dot,actionlabels', dot), timeout=900)
        g = tours.parse_dot(dot)
        os.remove(dot)
        budget = 30000 if tier == 'quick' else 400000     # (of about a million transitions)
        ts, covered, total = tours.tours(g, maxlen=40, budget=budget, seed=seed)
        runs = [{'cls': ('OrderedSet', 'QuerySet')[i % 2], 'plain': i % 3 == 2, 'acts': [to_act(l) for l in tr]}
                for i, tr in enumerate(ts)]
        groups = [(n, runs)]
        # random behaviours of a larger instance chosen by TLC's simulator
        n2 = 5
        with open(os.path.join(d, 'sim.cfg'), 'w') as f:
            f.write(cfg(n2, 3))
        beh = sim.simulate(d, 'MC_OrderedSet', 'sim.cfg', num=200 if tier == 'quick' else 3000,
                           depth=60, seed=seed + 1)
        runs2 = [{'cls': ('QuerySet', 'OrderedSet')[i % 2], 'plain': i % 3 == 1, 'acts': [to_act(l) for l in b]}
                 for i, b in enumerate(beh)]
        # long random call sequences over a larger universe (the driver only chooses calls)
        n3 = 6
        rr = random_runs(rnd, n3, 40 if tier == 'quick' else 600, 300)
        runs3 = [{'cls': ('QuerySet', 'OrderedSet')[i % 2], 'plain': i % 3 == 0, 'acts': a} for i, a in enumerate(rr)]
        groups += [(n2, runs2), (n3, runs3)]
    steps = 0
    accepted = 0
    tlc_states = 0
    distinct = set()
    samples = []
    per_action = {}
    for n, runs in groups:
        traces = replay.replay('orderedset', {'n': n}, runs)
        verdicts, st = trace.validate('OrderedSetTrace', cfg(n, 0, props=False), traces,
                                      modules=['OrderedSet', 'OrderedSetTrace', 'TraceBase'])
        steps += st['steps']
        tlc_states += st['tlc_states']
        for v, r in zip(verdicts, runs):
            pre = ()
            for e in v.trace:
                key = (e['op'], str(e.get('x', e.get('q', e.get('f', '')))), str(e.get('o', '')), pre)
                changed = tuple(e['list']) != pre or e['res']['k'] == 'err'
                if changed:
                    distinct.add(key)
                per_action[e['op']] = per_action.get(e['op'], 0) + 1
                pre = tuple(e['list'])
            if v.ok:
                accepted += 1
                if len(samples) < 3 and len(v.trace) > 3:
                    samples.append({'cls': r['cls'], 'n': n, 'events': v.trace[:6]})
            else:
                e = v.event()
                sig = {'op': e['op'], 'clause': v.clause, 'cls': r['cls']}
                rep.failure(sig, {'n': n, 'cls': r['cls'], 'plain': bool(r.get('plain')), 'acts': r['acts'][:v.step],
                                  'step': v.step, 'clause': v.clause, 'event': e,
                                  'spec_expected': repr(v.expected)})
    rc = rep.finish()
    cov = {
        'states': mc.distinct if mc else 1,
        'transitions': mc.generated if mc else 1,
        'traces_validated_against_impl': accepted,
        'evaluations': steps,
        'distinct_nontrivial': len(distinct),
        'rule': 'one evaluation = one recorded call on xtuml.OrderedSet/QuerySet validated by TLC against '
                'OrderedSetTrace.tla (outcome, list, reversed, len, membership of every element, first, last); '
                'non-trivial = the call changed the set or raised; distinct by (operation, argument, set before)',
        'samples': samples or [{'note': 'no accepted trace longer than 3 events'}],
        'model': 'OrderedSet.tla, Elem=1..3, MaxArg=3, all reachable states; TLC invariants TypeOK, NoDuplicates; '
                 'action properties SurvivorsKeepOrder, Frame, PopsAreEnds',
        'tour_edges_covered': (covered if not replay_path else 0),
        'tour_edges_total': (total if not replay_path else 0),
        'trace_validation_states': tlc_states,
        'calls_per_action': per_action,
        'exhaustive': bool(not replay_path and tier == 'thorough' and covered == total),
    }
    if replay_path:
        return rc
    evidence.write(PID, tier, 'model_checking', cov, t.s(), rep.n, [
        'TLC explores the specification exhaustively only for a universe of three elements; larger universes '
        '(5, 6 elements) are covered by simulated and random call sequences, each validated step by step',
        'elements are hashable objects compared by identity, like xtuml instances; in every third behaviour plain values '
        '(0, the empty string, the empty tuple, a string, numbers)',
        'the iteration order of the result of a pure operator (| & - ^) and the position of elements that enter '
        'through ^= are not constrained by the property; the trace specification accepts any order for them',
    ])
    return rc
