"""C19: new instances get typed defaults and fresh non-null identifiers."""
from .. import metacheck, metagen, schemas

PID = 'C19'
VALS = {'STRING': {'s:a'}, 'UNIQUE_ID': {'u:0', 'u:9'}, 'INTEGER': {'i:0', 'i:7'}}
USERIDS = ['u:%d' % n for n in (101, 57, 3, 88, 12, 64, 7, 93, 41, 29, 110, 5, 76, 18, 99, 33, 60, 2, 81, 47,
                                 11, 22, 44, 66, 77, 13, 15, 17, 19, 21, 23, 25, 27, 31, 35, 37, 39, 43, 45, 49)]


def random_runs(schema, rnd, tier):
    runs = []
    for _ in range(14 if tier == 'quick' else 250):
        acts = []
        born = {c: 0 for c in schema['classes']}
        for _ in range(rnd.randint(5, 14)):
            k = rnd.random()
            if k < 0.7:
                c = rnd.choice(schema['classes'])
                names = [a['n'] for a in schema['attrs'][c]]
                plain = metagen.plain_attrs(schema, c)
                maxpos = 0
                while maxpos < len(names) and names[maxpos] in plain:
                    maxpos += 1
                npos = rnd.randint(0, maxpos)
                pos = [metagen.value_for(schema, c, names[j], rnd, 9) for j in range(npos)]
                kw = {n: metagen.value_for(schema, c, n, rnd, 9) for n in plain if rnd.random() < 0.3}
                # explicit ids from a range the generators never hand out, so that freshness is about defaulted ids
                pos = [('u:%d' % rnd.randint(200, 119 + 200) if t.startswith('u:') and t != 'u:0' else t) for t in pos]
                kw = {n: ('u:%d' % rnd.randint(200, 319) if t.startswith('u:') and t != 'u:0' else t) for n, t in kw.items()}
                born[c] += 1
                acts.append(['New', c, pos, kw])
            elif k < 0.85:
                acts.append(['GenPeek'])
            else:
                acts.append(['GenNext'])
        runs.append({'acts': acts})
    return runs


def overlap_runs(schema, rnd, tier):
    """creation calls that give an attribute both positionally and by keyword (the keyword wins); the plan runs with
    rotating spellings of the keyword names, which address the same attributes"""
    runs = []
    for _ in range(20 if tier == 'quick' else 300):
        acts = []
        for _ in range(rnd.randint(4, 10)):
            c = rnd.choice(schema['classes'])
            names = [a['n'] for a in schema['attrs'][c]]
            plain = metagen.plain_attrs(schema, c)
            maxpos = 0
            while maxpos < len(names) and names[maxpos] in plain:
                maxpos += 1
            npos = rnd.randint(0, maxpos)
            val = lambda n: metagen.value_for(schema, c, n, rnd, 9)
            pos = [val(names[j]) for j in range(npos)]
            kw = {n: val(n) for n in plain if rnd.random() < (0.6 if names.index(n) < npos else 0.2)}
            pos = [('u:%d' % rnd.randint(200, 319) if t.startswith('u:') and t != 'u:0' else t) for t in pos]
            kw = {n: ('u:%d' % rnd.randint(200, 319) if t.startswith('u:') and t != 'u:0' else t) for n, t in kw.items()}
            acts.append(['New', c, pos, kw])
        runs.append({'acts': acts})
    return runs


def ref_runs(schema, rnd, tier):
    """creation calls whose positional / keyword arguments run through referential attributes"""
    runs = []
    for _ in range(40 if tier == 'quick' else 600):
        acts = []
        for _ in range(rnd.randint(4, 12)):
            k = rnd.random()
            if k < 0.8:
                c = rnd.choice(schema['classes'])
                names = [a['n'] for a in schema['attrs'][c]]
                plain = metagen.plain_attrs(schema, c)

                def val(n):
                    t = metagen.value_for(schema, c, n, rnd, 4)
                    # explicit values of identifying attributes come from a range the generators never hand out
                    if n in plain and t.startswith('u:') and t != 'u:0' and rnd.random() < 0.7:
                        return 'u:%d' % rnd.randint(200, 319)
                    return t
                pos = [val(names[j]) for j in range(rnd.randint(0, len(names)))]
                kw = {n: val(n) for n in names if rnd.random() < 0.2}
                acts.append(['New', c, pos, kw])
            elif k < 0.9:
                acts.append(['GenPeek'])
            else:
                acts.append(['GenNext'])
        runs.append({'acts': acts})
    return runs


def unknown_runs(schema, rnd, tier):
    return [{'acts': [['NewUnknown', 'W']]}, {'acts': [['GenPeek'], ['NewUnknown', 'W']]}] + \
        [{'acts': [['NewUnknown', 'W', how]]} for how in ('positional', 'keyword', 'all')]


def plans():
    inv = ['TypeOK', 'FreshIds', 'OneValuePerName']
    props = ['DefaultsOK']
    return [
        {'name': 'int_generator', 'schema': 'gen19', 'spec': 'SpecVal', 'alpha': {'newv', 'gen'}, 'vals': VALS,
         'bound': {'quick': {'H': 1, 'G': 1}, 'thorough': {'H': 1, 'G': 2}}, 'invariants': inv, 'properties': props,
         'must_cover': ('VNew', 'VGenNext', 'VGenPeek'), 'budget': 9000, 'maxlen': 12, 'random': random_runs},
        {'name': 'user_generator', 'schema': 'gen19', 'spec': 'SpecVal', 'alpha': {'newv', 'gen'}, 'vals': VALS,
         'gen': 'user', 'userids': USERIDS, 'bound': {'H': 1, 'G': 1}, 'invariants': inv, 'properties': props,
         'budget': 5000, 'maxlen': 12, 'random': random_runs},
        # (a user generator that redefines next() / peek() themselves instead of readfunc)
        {'name': 'user_generator_methods', 'schema': 'gen19', 'spec': 'SpecVal', 'alpha': {'newv', 'gen'}, 'vals': VALS,
         'gen': 'user', 'userids': USERIDS, 'bound': {'H': 1, 'G': 1}, 'invariants': inv, 'properties': props,
         'budget': 5000, 'maxlen': 12, 'random': random_runs, 'opt': {'gen_style': 'methods'}},
        {'name': 'uuid_generator', 'schema': 'gen19', 'model': False, 'bound': 2, 'gen': 'uuid', 'random': random_runs},
        {'name': 'uuid_valued', 'schema': 'valued', 'model': False, 'bound': 2, 'gen': 'uuid', 'random': random_runs},
        {'name': 'int_valued', 'schema': 'valued', 'model': False, 'bound': 2, 'random': random_runs},
        {'name': 'int_reals', 'schema': 'reals', 'model': False, 'bound': 2, 'random': random_runs},
        {'name': 'ref_args', 'schema': 'ref_first', 'spec': 'SpecVal', 'alpha': {'newv', 'newref'},
         'vals': {'STRING': {'s:a'}, 'UNIQUE_ID': {'u:0', 'u:9'}, 'INTEGER': {'i:7'}},
         'bound': {'quick': {'T': 1, 'S': 1}, 'thorough': {'T': 1, 'S': 2}}, 'invariants': inv + ['Symmetric'], 'properties': props,
         'must_cover': ('VNew',), 'budget': 6000, 'maxlen': 10, 'random': ref_runs},
        {'name': 'ref_args_middle', 'schema': 'ref_middle', 'model': False, 'bound': 3, 'random': ref_runs},
        {'name': 'ref_args_uuid', 'schema': 'ref_middle', 'model': False, 'bound': 3, 'gen': 'uuid', 'random': ref_runs},
        {'name': 'int_overlap', 'schema': 'gen19', 'model': False, 'bound': 2, 'random': overlap_runs},
        {'name': 'int_overlap_respelled', 'schema': 'gen19', 'model': False, 'bound': 2, 'random': overlap_runs,
         'opt': {'spell_attr': True}},
        {'name': 'valued_overlap_respelled', 'schema': 'valued', 'model': False, 'bound': 2, 'random': overlap_runs,
         'opt': {'spell_attr': True}},
        {'name': 'unknown_type', 'schema': 'unknown_type', 'model': False, 'bound': 1, 'random': unknown_runs},
    ] + [
        # type names that only resemble a core type (INT, BOOL, ID, Bool, INTEGERS ...) are unknown types as well
        {'name': 'unknown_type_%s' % t, 'schema': 'unknown_type_%d' % k, 'model': False, 'bound': 1, 'random': unknown_runs}
        for k, t in enumerate(schemas.NEAR_TYPES)
    ]


def check(tier, replay_path=None):
    return metacheck.run_plans(
        PID, tier, plans(), replay_path,
        rule='one evaluation = one recorded call: new() with every mix of positional, keyword and omitted arguments, '
             'generator next()/peek(); TLC checks the attribute values of the created instance (default of the type, then '
             'positional, then keyword), that every defaulted id is non-null, never seen before and comes from the '
             'generator, that next() of the integer generator yields 1, 2, 3, ..., that peek() equals the following '
             'next() and advances nothing, and that an unknown attribute type raises a metamodel exception',
        model_text='Meta.tla value alphabet (VNew over all typed positional/keyword mixes, VGenNext, VGenPeek) with the integer '
                   'and a user-supplied generator; invariant FreshIds; action property DefaultsOK; uuid generator by trace '
                   'validation with IdsOK',
        assumptions=[
            'whether an explicitly supplied id consumes a generator value is not fixed by the property: the trace '
            'specification takes the number of ids handed out from the generator itself (peek of the integer generator, '
            'the call counter of the harness\' own generator)',
            'attribute names are case-insensitive (C10): the plans *_respelled write the keyword names under rotating spellings',
            'a creation call whose referential values would give a single-valued end a second partner is outside the domain '
            '(Meta!Over), as in C03',
        ])
