"""C01: persisted models load back unchanged (schema, values, links)."""
from .. import metacheck, metagen, schemas

PID = 'C01'
SAVES = ['serialize_database', 'serialize', 'parts', 'parts_reordered', 'persist_database', 'persist_parts',
         'persist_append', 'classes_assocs']
LOADS = ['input', 'one', 'files', 'load_metamodel']
EXOTIC = {
    'STRING': ['s@quote', 's@qq', 's@comment', 's@nl', 's@uni', 's@semi', 's@paren', 's@kw', 's@tab', 's@bs', 's@dq',
               's@nul', 's@pct', 's:', 's:plain', 's@bsq', 's@bsend', 's@qends', 's@q1'],
    'INTEGER': ['i@big', 'i@pos', 'i:-3', 'i:0', 'i:7'],
    'UNIQUE_ID': ['u@big', 'u@mid'],
    'REAL': list(schemas.REALNORM),
    'BOOLEAN': ['b:0', 'b:1'],
}


def decorate(run, k, rnd):
    j = k
    for act in run['acts']:
        if act[0] == 'SaveLoad':
            act[1] = {'save': SAVES[j % len(SAVES)], 'route': LOADS[(j // len(SAVES)) % len(LOADS)],
                      'seed': rnd.randint(0, 10 ** 6)}
            j += 1


def value_runs(schema, rnd, tier):
    """histories writing the value classes of the quantifier, persisted through every route"""
    runs = []
    for k in range(16 if tier == 'quick' else 300):
        born = {c: 0 for c in schema['classes']}
        live = []
        acts = []
        nid = 300
        for _ in range(rnd.randint(8, 30)):
            r = rnd.random()
            if r < 0.35 or not live:
                c = rnd.choice(schema['classes'])
                kw = {}
                for n in metagen.plain_attrs(schema, c):
                    ty = [a['t'] for a in schema['attrs'][c] if a['n'] == n][0]
                    if rnd.random() < 0.7:
                        if ty == 'UNIQUE_ID':
                            nid += 1
                            kw[n] = rnd.choice(['u:%d' % nid, 'u:%d' % nid, rnd.choice(EXOTIC[ty])])
                        else:
                            kw[n] = rnd.choice(EXOTIC[ty])
                born[c] += 1
                live.append((c, born[c]))
                acts.append(['New', c, [], kw])
            elif r < 0.55:
                c, i = rnd.choice(live)
                plain = [n for n in metagen.plain_attrs(schema, c)
                         if [a['t'] for a in schema['attrs'][c] if a['n'] == n][0] != 'UNIQUE_ID']
                if plain:
                    n = rnd.choice(plain)
                    ty = [a['t'] for a in schema['attrs'][c] if a['n'] == n][0]
                    acts.append(['SetAttr', c, i, n, rnd.choice(EXOTIC[ty])])
            elif r < 0.6:
                x = rnd.choice(live)
                live.remove(x)
                acts.append(['Delete', x[0], x[1]])
            elif r < 0.8 and schema['assocs']:
                a = rnd.choice(schema['assocs'])
                xs = [i for i in live if i[0] == a['src']]
                ys = [i for i in live if i[0] == a['tgt']]
                if xs and ys:
                    x, y = rnd.choice(xs), rnd.choice(ys)
                    acts.append([rnd.choice(['Relate', 'Relate', 'Unrelate']), x[0], x[1], y[0], y[1], a['rel'], a['sphrase']])
            else:
                acts.append(['SaveLoad', {}])
                # handles are renumbered by the reload: continue with fresh bookkeeping of what is live
                n = {c: 0 for c in born}
                for c, i in sorted(live):
                    n[c] += 1
                live = [(c, i) for c in n for i in range(1, n[c] + 1)]
                born = dict(n)
        acts.append(['SaveLoad', {}])
        runs.append({'acts': acts})
    return runs


def loaded_runs(schema, rnd, tier):
    """a population (the row choices of C03 for the shape: permuted, duplicate, null and dangling keys, or a random one) is
    loaded, persisted and reloaded through every route"""
    from . import c03
    name = [k for k, v in schemas.SCHEMAS.items() if v is schema][0]
    runs = []
    for k in range(10 if tier == 'quick' else 150):
        if name in c03.ROWS and k % 2 == 0:
            rows = [dict(r) for r in c03.ROWS[name]]
            rnd.shuffle(rows)
            rows = rows[:rnd.randint(3, len(rows))]
        else:
            rows = c03.random_population(schema, rnd, rnd.randint(4, 14))
            rnd.shuffle(rows)
        runs.append({'acts': [['LoadBuild', rows, {}], ['SaveLoad', {}], ['SaveLoad', {}]]})
    return runs


def instances_only_runs(schema, rnd, tier):
    """without explicit CREATE TABLE statements: only the instances are persisted and the classes are inferred on loading
    (positional values; a boolean is written 0 / 1 and comes back as an integer column); last call of the run"""
    runs = value_runs(schema, rnd, tier)
    for r in runs:
        r['acts'] = [a for a in r['acts'] if a[0] not in ('SaveLoad', 'Delete')]
        r['acts'].append(['SaveLoad', {'save': 'instances_only', 'infer': {c: 'ser' for c in schema['classes']}}])
    return runs


def decorate_io(run, k, rnd):
    for act in run['acts']:
        if act[0] == 'SaveLoad':
            act[1].update({'route': LOADS[k % len(LOADS)], 'seed': rnd.randint(0, 10 ** 6)})


def plans():
    obs = metagen.battery(['nav', 'sel'], per_step=1)
    inv = ['TypeOK', 'Symmetric', 'OnlyLive']
    ps = []
    bounds = {'one_many': 2, 'one_one': 2, 'reflexive_11': 3, 'assoc_class': {'L': 1, 'R': 1, 'A': 2},
              'subsuper': {'SUP': 2, 'SA': 1, 'SB': 1}, 'many_one_2key': 2, 'shared_ref': {'T': 1, 'V': 1, 'S': 1},
              'phrase_ends': {'P': 1, 'D': 2}}
    for name, b in bounds.items():
        ps.append({'name': name, 'schema': name, 'spec': 'SpecVal', 'alpha': {'new', 'link', 'save'},
                   'bound': b, 'invariants': inv, 'properties': ['SaveLoadIdentity'], 'must_cover': ('VSaveLoad', 'VRelate'),
                   'budget': 3000, 'stages': [(lambda lab, dst: lab.startswith('VSaveLoad'), 0.6), (lambda lab, dst: True, 0.4)],
                   'decorate': decorate, 'obs': obs})
    for name in ('valued', 'reals', 'keywords', 'assoc_reflexive', 'reflexive_1m', 'grid', 'phrase_ends', 'mixed_case'):
        ps.append({'name': name + '_values', 'schema': name, 'model': False, 'bound': 3, 'decorate': decorate,
                   'obs': obs, 'random': value_runs})
    for name in ('grid', 'many_one_2key', 'one_many', 'assoc_class', 'shared_ref', 'reflexive_11', 'subsuper', 'phrase_ends',
                 'two_identifiers'):
        ps.append({'name': name + '_loaded', 'schema': name, 'model': False, 'bound': 4, 'decorate': decorate,
                   'obs': obs, 'random': loaded_runs})
    ps.append({'name': 'plain2_instances_only', 'schema': 'plain2', 'model': False, 'bound': 3, 'decorate': decorate_io,
               'random': instances_only_runs})
    return ps


def check(tier, replay_path=None):
    return metacheck.run_plans(
        PID, tier, plans(), replay_path,
        rule='one evaluation = one recorded call; every SaveLoad call serialises the real metamodel through one of eight '
             'routes (serialize_database, serialize() dispatch, schema+instances+identifiers in two orders, persist_database, '
             'the three persist_* files, appended persist_*, classes+associations+per-instance serialize) and loads the text '
             'through one of four loader routes; TLC compares the reloaded model (schema, pools in order, values with unset = '
             'null and reals to six decimals, both link directions) with Meta!SaveLoad and requires the text fixed point',
        model_text='Meta.tla SaveLoad = LoadBuild(SavedRows): the join of the written values; action property SaveLoadIdentity '
                   '(identity on persistable states) model-checked over the C02 state spaces of seven shapes',
        assumptions=[
            'persistable domain: no deleted attributes, referred keys non-null and unique where linked (spec operator Persistable); '
            'outside it the specification still predicts the reloaded model (the join) and the code is compared with that',
            'character-level fidelity is decided on the listed representatives of each value class (quotes, doubled quotes, comment '
            'markers, newline, NUL, non-ASCII, tabs, backslash, >64-bit integers, 128-bit ids, reals with 7 decimals / 1e20)',
            'phrases contain no quote; without CREATE TABLE statements (plan plain2_instances_only: serialize_instances alone) '
            'the classes are inferred: attribute names _0.., a boolean column comes back as an integer column (MetaTrace!ExpAttrs)',
        ])
