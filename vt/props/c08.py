"""C08: OAL keywords are case-insensitive in parsing, execution and prebuild."""
import os

from .. import common, evidence
from . import c04, c05, c06, c07, c15

PID = 'C08'
CASES = ['upper', 'capital', 'mixed']


def check(tier, replay_path=None):
    t = common.Timer()
    if replay_path:
        obj = common.read_json(replay_path)
        if 'pool' in obj:
            return c04.run(PID, tier, replay_path, CASES, '', '', [])
        if 'item' in obj and 'home' in obj['item']:
            return prebuilt(tier, replay_path)
        if 'item' in obj and 'env_spec' in obj['item']:
            return c15.run(PID, tier, replay_path, cases=CASES, strict=True)
        return c07.run(PID, tier, replay_path, False, CASES, '', '', [])
    path = os.path.join(common.EVIDENCE, PID + '.json')
    rc1 = c07.run(PID, tier, None, positions=False, cases=CASES, rule='', model='', assumptions=[])
    ev1 = common.read_json(path)
    rc2 = c04.run(PID, tier, None, cases=CASES, rule='', model='', assumptions=[])
    ev2 = common.read_json(path)
    rc3 = prebuilt(tier, None)
    ev3 = common.read_json(path)
    # callable model elements (functions with effects on the model inside and / or operands among them): the results and
    # the final population must also equal those computed from the same tokens with lower-case keywords
    rc4 = c15.run(PID, tier, None, cases=CASES, strict=True)
    ev4 = common.read_json(path)
    c1, c2, c3 = ev1['coverage'], ev2['coverage'], ev3['coverage']
    cov = {
        'states': c1['states'] + c2['states'] + c3['states'], 'transitions': c1['transitions'] + c2['transitions'] + c3['transitions'],
        'traces_validated_against_impl': c1['traces_validated_against_impl'] + c2['traces_validated_against_impl'] +
        c3['traces_validated_against_impl'],
        'evaluations': c1['evaluations'] + c2['evaluations'] + c3['evaluations'],
        'distinct_nontrivial': c1['distinct_nontrivial'] + c2['distinct_nontrivial'] + c3['distinct_nontrivial'],
        'rule': 'the corpora of C07 (every expression tree of depth <= 3, statement programs of every production) and of C04 '
                '(executable bodies) are rendered with every keyword occurrence in UPPER case, Capitalised, or randomly mixed case '
                '(END IF/FOR/WHILE included) and pushed through the same pipelines: TLC requires the parser to return the tree the '
                'lower-case text denotes (keyword-valued fields compared case-folded) and the interpreter to compute the result and '
                'final population OalExec!Run assigns to that tree - the specification has no notion of keyword case at all; the C05 corpus '
                '(all four action homes) is prebuilt from the same renderings and TLC requires the population OalType.tla assigns to '
                'the tree (statement kinds, predecessors, blocks, value types, variables, parameters) with the keyword-valued '
                'attributes (select cardinality, binary / unary Operator, boolean literal Value) in one canonical letter case, and '
                'the regenerated text to parse to the same tree',
        'samples': c1['samples'][:2] + c2['samples'][:2],
        'parse': {k: c1[k] for k in ('statements_by_kind', 'expression_trees_enumerated_by_tlc')},
        'execute': {k: c2[k] for k in ('statements_executed_by_kind', 'programs_outside_domain')},
        'prebuild': {'actions_by_home': c3['actions_by_home']},
        'callables': {'invocations_by_kind': ev4['coverage']['invocations_by_kind']},
        'model': 'OalSyntax.tla / OalTrace.tla, OalExec.tla / OalExecTrace.tla and OalType.tla / OalTypeTrace.tla (as C07, C04, C06)',
        'exhaustive': False,
    }
    evidence.write(PID, tier, 'model_checking', cov, t.s(),
                   ev1.get('violations', 0) + ev2.get('violations', 0) + ev3.get('violations', 0) + ev4.get('violations', 0), [
        'identifiers never coincide with keywords, so every token whose lower-case form is a keyword is a keyword',
        'the recorded source text of prebuilt instances (Action_Semantics, literal Value texts, positions) is not compared across cases',
    ])
    return 1 if (rc1 or rc2 or rc3 or rc4) else 0


def prebuilt(tier, replay_path):
    return c05.run(PID, tier, replay_path, facts=True, module='MC_OalTypeTrace',
                   mods=('OalSyntax', 'OalType', 'OalTypeTrace', 'MC_OalTypeTrace', 'TraceBase'), consts=c06.CONSTS,
                   rule='', model='', assumptions=[], cases=CASES, strict=True)
