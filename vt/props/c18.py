"""C18: one loader builds independent metamodels."""
import os
import random

from .. import common, evidence, metacheck, replay, schemas, tlc, tours, trace
from . import c03

PID = 'C18'
SCHEMA_MUTS = ['append_attribute', 'delete_attribute', 'insert_attribute', 'define_unique_identifier', 'define_class',
               'define_association']


def schedules(tier, seed, late=False):
    d = tlc.prepare_dir(['Builds', 'MC_Builds'], {
        'mc.cfg': 'CONSTANTS\n  Chunks = 3\n  MaxModels = %d\n  MaxMut = %d\n  Late = %s\nSPECIFICATION Spec\nINVARIANT TypeOK\n'
                  'CHECK_DEADLOCK FALSE\n' % (2 if tier == 'quick' else 3, 1 if late else 2, 'TRUE' if late else 'FALSE')})
    dot = os.path.join(d, 'g.dot')
    r = tlc.check_model(d, 'MC_Builds', 'mc.cfg', args=('-dump', 'dot,actionlabels', dot))
    g = tours.parse_dot(dot)
    os.remove(dot)
    for a in ('Feed', 'BuildModel', 'Mutate', 'SchemaMutate'):
        if not g.actions.get(a):
            raise common.MachineryError('vacuous model: %s' % a)
    ts, covered, total = tours.tours(g, maxlen=12, budget=None, seed=seed)
    return r, g, ts, covered, total


class ModelBook(object):
    """what the driver has asked of one built model (it predicts nothing: it only remembers which handles exist)"""
    def __init__(self, schema, rows):
        self.born = {c: sum(1 for r in rows if r['c'] == c) for c in schema['classes']}
        self.live = [(c, i) for c in schema['classes'] for i in range(1, self.born[c] + 1)]


def concretise(schema, labels, rnd, split=False):
    """a schedule of Builds.tla -> concrete calls.  split: the first chunk declares the classes only, the second one brings
    the associations and identifiers (and rows); a metamodel built in between has another schema and is not judged, the
    ones built afterwards are"""
    pop = c03.random_population(schema, rnd, rnd.randint(3, 9))
    rnd.shuffle(pop)
    cut = len(pop) // 2
    chunks = {1: {'parts': ['table', 'rop', 'index'], 'rows': []}, 2: {'parts': [], 'rows': pop[:cut]},
              3: {'parts': [], 'rows': pop[cut:]}}
    if split:
        chunks[1]['parts'] = ['table']
        chunks[2]['parts'] = ['rop', 'index']
    if rnd.random() < 0.3:
        chunks[1]['rows'] = chunks[2]['rows'][:1]
        chunks[2]['rows'] = chunks[2]['rows'][1:]
        chunks[1]['shuffle'] = True
    acts = []
    fed_rows = []
    fed = set()
    books = []
    for lab in labels:
        name, args = tours.parse_label(lab)
        if name == 'Feed':
            acts.append(['Input', chunks[args[0]], rnd.randint(0, 10 ** 6)])
            fed_rows += chunks[args[0]]['rows']
            fed.add(args[0])
        elif name == 'BuildModel':
            acts.append(['Build', {'partial': True}] if split and 2 not in fed else ['Build'])
            books.append(ModelBook(schema, fed_rows))
        elif name == 'Mutate':
            b = books[args[0] - 1]
            k = rnd.random()
            act = None
            if k < 0.15:
                # another loader that holds rows only populates this metamodel (ModelLoader.populate)
                rows = c03.random_population(schema, rnd, rnd.randint(1, 4))
                for r in rows:
                    b.born[r['c']] += 1
                    b.live.append((r['c'], b.born[r['c']]))
                act = ['LoadInto', rows]
            elif k < 0.3 or not b.live:
                c = rnd.choice(schema['classes'])
                b.born[c] += 1
                b.live.append((c, b.born[c]))
                act = ['New', c, [], {}]
            elif k < 0.5:
                x = rnd.choice(b.live)
                b.live.remove(x)
                act = ['Delete', x[0], x[1]]
            elif k < 0.65:
                from .. import metagen
                c, i = rnd.choice(b.live)
                plain = [n for n in metagen.plain_attrs(schema, c)]
                n = rnd.choice(plain) if plain else None
                act = ['SetAttr', c, i, n, metagen.value_for(schema, c, n, rnd, 30)] if n else ['RelateNone']
            elif schema['assocs']:
                a = rnd.choice(schema['assocs'])
                xs = [i for i in b.live if i[0] == a['src']]
                ys = [i for i in b.live if i[0] == a['tgt']]
                if xs and ys:
                    x, y = rnd.choice(xs), rnd.choice(ys)
                    act = [rnd.choice(['Relate', 'Unrelate']), x[0], x[1], y[0], y[1], a['rel'], a['sphrase']]
            acts.append(['Mutate', args[0], act or ['RelateNone']])
        elif name == 'SchemaMutate':
            acts.append(['SchemaMutate', args[0], rnd.choice(SCHEMA_MUTS)])
    return acts


def concretise_late(schema, labels, rnd):
    """a schedule of Builds.tla with Late = TRUE -> concrete calls: chunk 1 is the CREATE TABLE statements, which may
    arrive after rows and builds or never; rows are written in the lexical forms that fix their type"""
    pop = [r for r in c03.random_population(schema, rnd, rnd.randint(3, 8))]
    rnd.shuffle(pop)
    cut = rnd.randint(1, len(pop) - 1)

    # all rows of a class are written the same way (a class inferred from a positional insert has no attribute names a
    # later named insert could refer to, and the other way round)
    mode = {c: rnd.random() < 0.35 for c in schema['classes']}

    # a named insert may spell its columns in another letter case: a class inferred from it has the names as written, a
    # declared class takes the values under its declared names
    respell = rnd.choice([lambda n: n, lambda n: n.upper(), lambda n: n.lower(), lambda n: n.swapcase()])
    spell = {c: {a['n']: respell(a['n']) for a in schema['attrs'][c]} for c in schema['classes'] if mode[c]}

    def rows_chunk(rows):
        return {'parts': [], 'rows': rows, 'canonical': True, 'named': [mode[r['c']] for r in rows], 'spell': spell}
    chunks = {1: {'parts': ['table'], 'rows': []}, 2: rows_chunk(pop[:cut]), 3: rows_chunk(pop[cut:])}
    acts = []
    fed = []
    books = []
    for lab in labels:
        name, args = tours.parse_label(lab)
        if name == 'Feed':
            acts.append(['Input', chunks[args[0]], rnd.randint(0, 10 ** 6)])
            fed.append(args[0])
        elif name == 'BuildModel':
            rows = [r for c in fed for r in chunks[c]['rows']]
            named = [n for c in fed if c != 1 for n in chunks[c]['named']]
            undecl = {}
            if 1 not in fed:
                for c in schema['classes']:
                    first = [n for r, n in zip(rows, named) if r['c'] == c]
                    undecl[c] = 'none' if not first else ('named' if first[0] else 'pos')
            acts.append(['Build', {'undecl': undecl or {'_': '_'},
                                   'names': {c: [spell[c][a['n']] for a in schema['attrs'][c]] for c in spell} or {'_': []}}])
            b = ModelBook(schema, rows)
            b.usable = [c for c in schema['classes'] if undecl.get(c) != 'none']
            books.append(b)
        elif name in ('Mutate', 'SchemaMutate'):
            b = books[args[0] - 1]
            if b.live and rnd.random() < 0.5:
                x = rnd.choice(b.live)
                b.live.remove(x)
                act = ['Delete', x[0], x[1]]
            elif b.usable:
                c = rnd.choice(b.usable)
                b.born[c] += 1
                b.live.append((c, b.born[c]))
                act = ['New', c, [], {}]
            else:
                act = ['RelateNone']
            acts.append(['Mutate', args[0], act])
    return acts


def focus_traces(events, schema=None):
    """one recorded multi-model trace -> one MetaTrace trace per built model"""
    nmodels = max((len(e['models']) for e in events), default=0)
    out = []
    for k in range(1, nmodels + 1):
        tr = []
        built = False
        undecl = None
        names = {'_': []}
        for e in events:
            proj = e['models'][k - 1] if len(e['models']) >= k else None
            base = {'res': e['res'], 'oerr': '', 'spell': {'_': []}, 'ser': {'_': []}, 'q': [], 'qr': [], 'fix': ''}
            if e['op'] == 'Input':
                ev = dict(base, op='Input', rows=e['rows'])
            elif e['op'] == 'Build' and not built and proj is not None and len(e['models']) == k:
                if e.get('partial'):
                    break                                # built from the class declarations alone: another schema
                ev = dict(base, op='BuildFocus', g=e.get('g', -1))
                built = True
                undecl = e.get('undecl')
                names = e.get('names') or {'_': []}
            elif e['op'] == 'Mutate' and e.get('model') == k:
                ev = dict(base)
                ev.update(e['sub'])
                ev['res'] = e['res']
            elif e['op'] == 'SchemaMutate' and e.get('model') == k:
                break                                    # its own schema changes: this focus ends here
            else:
                ev = dict(base, op='Foreign')
            if not built or proj is None:
                ev['nocheck'] = True
                ev.update({'pool': {'_': []}, 'nav': [], 'attr': {'_': []},
                           'schema': {'attrs': {'_': []}, 'uniques': {'_': []}, 'assocs': [], 'extra': ['-']}})
                if ev['op'] == 'Foreign':
                    continue
            elif 'pool' not in proj:
                # the metamodel could not be projected (say, an association it must have is unknown to it): that is what
                # the trace records (clause observable)
                empty = {c: [] for c in (schema['classes'] if schema else ['_'])}
                ev.update({'pool': dict(empty), 'attr': dict(empty), 'spell': dict(empty), 'ser': dict(empty),
                           'nav': [{'fwd': [], 'bwd': []} for _ in (schema['assocs'] if schema else [])],
                           'schema': {'attrs': {'_': []}, 'uniques': {'_': []}, 'assocs': [], 'extra': ['-']},
                           'oerr': proj.get('oerr') or 'no projection'})
            else:
                ev.update({kk: proj[kk] for kk in ('pool', 'nav', 'attr', 'schema')})
                if 'peek' in proj:
                    ev['peek'] = proj['peek']
                if undecl:
                    ev['undecl'] = undecl
                    ev['names'] = names
                ev['oerr'] = proj.get('oerr', '')
                ev['spell'] = {c: [] for c in proj['pool']}
                ev['ser'] = {c: [] for c in proj['pool']}
            tr.append(ev)
        if built:
            out.append((k, tr))
    return out


def check(tier, replay_path=None):
    t = common.Timer()
    rep = evidence.Report(PID)
    seed = common.seed()
    rnd = random.Random(seed)
    names = ['one_many', 'assoc_class', 'valued', 'reflexive_11', 'subsuper', 'many_one_2key']
    groups = {}
    mc = None
    covered = total = 0
    if replay_path:
        obj = common.read_json(replay_path)
        groups[obj['schema']] = [{'acts': obj['acts']}]
    else:
        mc, g, ts, covered, total = schedules(tier, seed)
        reps = 1 if tier == 'quick' else 4
        for i, labels in enumerate(ts * reps):
            name = names[i % len(names)]
            groups.setdefault(name, []).append({'acts': concretise(schemas.SCHEMAS[name], labels, rnd)})
        # the associations and identifiers arrive in a later input than the classes, possibly after a build
        for i, labels in enumerate(ts * reps):
            name = names[(i + 3) % len(names)]
            groups.setdefault(name, []).append({'acts': concretise(schemas.SCHEMAS[name], labels, rnd, split=True)})
        # the schema arrives late or never (classes inferred from the rows)
        mc2, g2, ts2, cov2, tot2 = schedules(tier, seed, late=True)
        covered += cov2
        total += tot2
        late_states = mc2.distinct
        for labels in ts2 * reps:
            groups.setdefault('plain2', []).append({'acts': concretise_late(schemas.SCHEMAS['plain2'], labels, rnd)})
    steps = 0
    accepted = 0
    distinct = set()
    samples = []
    outcomes = {}
    for name, runs in groups.items():
        schema = schemas.SCHEMAS[name]
        recs = replay.replay('multi', {'schema': schema}, runs)
        traces, owners = [], []
        for run, events in zip(runs, recs):
            for k, tr in focus_traces(events, schema):
                traces.append(tr)
                owners.append((run, k))
        maxi = 1
        for run in runs:
            n = {}
            for a in run['acts']:
                if a[0] == 'Input':
                    for r in a[1].get('rows', []):
                        n[r['c']] = n.get(r['c'], 0) + 1
            extra = sum(1 for a in run['acts'] if a[0] == 'Mutate' and a[2][0] == 'New') + \
                sum(len(a[2][1]) for a in run['acts'] if a[0] == 'Mutate' and a[2][0] == 'LoadInto')
            maxi = max([maxi] + [v + extra for v in n.values()] + [extra])
        # (generator kind uuid: ids only have to be fresh; a third of the builds use the generator the loader provides)
        mod, consts = metacheck.trace_files(schema, maxi, 'uuid')
        verdicts, st = trace.validate('MC_MetaTrace', consts, traces,
                                      modules=['Meta', 'MetaObs', 'MetaTrace', 'TraceBase'],
                                      extra={'MC_MetaTrace.tla': mod})
        steps += st['steps']
        for v, (run, k) in zip(verdicts, owners):
            for e in v.trace:
                key = '%s/%s' % (e['op'], e['res'])
                outcomes[key] = outcomes.get(key, 0) + 1
            distinct.add((name, k, str([a[:2] if a[0] != 'Mutate' else [a[0], a[1], a[2][0]] for a in run['acts']])))
            if v.ok:
                accepted += 1
                if len(samples) < 3 and len(v.trace) > 5:
                    samples.append({'schema': name, 'focus_model': k,
                                    'schedule': [a[0] if a[0] != 'Mutate' else 'Mutate(%d,%s)' % (a[1], a[2][0]) for a in run['acts']],
                                    'events_for_focus': [[e['op'], e['res']] for e in v.trace]})
            else:
                e = v.event()
                sig = {'schema': name, 'op': e['op'], 'res': e['res'], 'clause': v.clause}
                rep.failure(sig, {'schema': name, 'acts': run['acts'], 'focus': k, 'step': v.step, 'clause': v.clause,
                                  'event': {kk: e[kk] for kk in e if kk not in ('spell', 'ser')},
                                  'spec_expected': repr(v.expected)[:2000]})
    rc = rep.finish()
    if replay_path:
        return rc
    cov = {'states': mc.distinct + mc2.distinct, 'transitions': mc.generated + mc2.generated, 'traces_validated_against_impl': accepted,
           'evaluations': steps, 'distinct_nontrivial': len(distinct), 'tour_edges_covered': covered,
           'tour_edges_total': total, 'calls_per_outcome': outcomes,
           'rule': 'one evaluation = one call (input, build, mutation of some built metamodel, schema change of a metamodel) seen from '
                   'one built metamodel: the projection of that metamodel (schema, pools, values, links) recorded after every call '
                   'is validated by TLC: its own build = Meta!LoadBuild of the rows accepted so far, its own mutations = Meta actions (also Meta!LoadInto: another loader populates it), '
                   'every other call = no change at all; distinct by (schema, focus model, schedule)',
           'samples': samples or [{'note': 'none'}],
           'model': 'Builds.tla (once with the schema chunk first, once with Late = TRUE: the schema chunk anywhere or never, classes inferred) enumerates every interleaving of 3 input chunks, up to 2 (quick) / 3 (thorough) builds and up to 2 '
                    'mutations per metamodel; Meta.tla / MetaTrace.tla decide each metamodel',
           'exhaustive': bool(covered == total)}
    evidence.write(PID, tier, 'model_checking', cov, t.s(), rep.n, [
        'the first input carries the whole schema and later inputs carry rows only, or the first input declares the classes and '
        'the second one the associations and identifiers (a metamodel built in between is not judged); or (Late) the CREATE '
        'TABLE statements arrive anywhere or never',
        'a metamodel whose own schema was changed on purpose is no longer projected (its trace ends); the others still are',
    ])
    return rc
