"""C20: XSD generation mirrors the component's classes and data types."""
from . import c14

PID = 'C20'


def check(tier, replay_path=None):
    return c14.run(
        PID, tier, replay_path, xsd=True,
        rule='one evaluation = one class diagram after a prefix of an edit script (rename/retype/add attribute, add or reorder '
             'enumerators, add or retype user types, move classes between components, derived attributes) for one of its components; '
             'the schema returned by gen_xsd_schema.build_schema, or written by gen_xsd_schema.main (every fifth case; it must '
             'parse as XML), is projected to its declarations and TLC compares them with BpModel!Xsd: one element per class of '
             'the component (minOccurs 0, unbounded) with its attribute set typed by the base data type of the (referred) '
             'attribute, the five core simple types, one simple type per enumeration in scope with its enumerators in modeled '
             'order and per user type with its base',
        model='BpModel.tla Xsd (XsdElement, BaseType, RootAttr, TypeInScope)',
        assumptions=[
            'attribute order inside an element is not constrained by the property (compared as a set)',
            'declarations for the predefined BridgePoint globals other than the five core types are not constrained',
            'the component extraction itself (C14 clauses) is checked on the same diagrams',
        ])
