"""C12: loading fails only in documented ways and never half-applies input."""
import os
import random
import sys

from .. import common, evidence, replay, schemas, sqltok, tlc, trace

PID = 'C12'
sys.path.insert(0, os.path.join(os.path.dirname(os.path.dirname(os.path.abspath(__file__))), 'adapters'))
import _sql  # noqa: E402  (the renderer is plain python and shared with the adapters)
from . import c03  # noqa: E402


def valid_texts(rnd, count):
    out = []
    names = ['valued', 'keywords', 'one_many', 'many_one_2key', 'reflexive_11', 'assoc_class', 'subsuper', 'plain2']
    for k in range(count):
        schema = schemas.SCHEMAS[names[k % len(names)]]
        rows = c03.random_population(schema, rnd, rnd.randint(1, 5))
        # string values with characters that matter to whoever formats messages or re-lexes text
        for r in rows:
            for a in schema['attrs'][r['c']]:
                if a['t'] == 'STRING' and r['v'].get(a['n'], 'unset') != 'unset' and rnd.random() < 0.7:
                    if not any(a['n'] in x['skeys'] + x['tkeys'] for x in schema['assocs']):
                        r['v'][a['n']] = rnd.choice(['s@pct', 's@pct', 's@pct', 's@quote', 's@comment', 's@semi', 's@paren', 's@kw', 's@dq', 's@bs'])
        sch = [s for _, s in _sql.schema_statements(schema, rnd)]
        ins = [_sql.insert_statement(schema, r, rnd) for r in rows]
        out.append((sch, ins))
    return out


def build_runs(tier, seed):
    rnd = random.Random(seed)
    runs = []
    base = valid_texts(rnd, 6 if tier == 'quick' else 40)
    per = 60 if tier == 'quick' else None
    for sch, ins in base:
        text = '\n'.join(sch + ins) + '\n'
        # (1) every single-edit mutant of the file, each as the middle input of a three-input history:
        #     a valid prefix, the mutant, a valid suffix; builds after every input
        st, it = '\n'.join(sch) + '\n', '\n'.join(ins) + '\n'
        for kind, m in sqltok.mutants(it, rnd, per):
            runs.append({'kind': 'mutant:' + kind, 'texts': [st, m, it], 'build_every': 1})
        for kind, m in sqltok.mutants(st, rnd, per):
            runs.append({'kind': 'mutant:' + kind, 'texts': [m, st, it], 'build_every': 1})
        # (2) mutants of single statements interleaved with the valid statements on one loader
        stmts = sch + ins
        texts = []
        for s in stmts:
            texts.append(s + '\n')
            ms = sqltok.mutants(s, rnd, 2)
            texts.extend(m for _, m in ms)
        runs.append({'kind': 'interleaved', 'texts': texts, 'build_every': 3})
    # (a valid text ends every such history: whatever the rejected texts left behind must not keep it from being accepted)
    tail = lambda k: 'CREATE TABLE Q%d (Id INTEGER, Nm STRING);\nINSERT INTO Q%d VALUES (%d, \'t\');\n' % (k, k, k)
    for k in range(40 if tier == 'quick' else 1500):
        runs.append({'kind': 'soup', 'texts': [sqltok.soup(rnd, rnd.randint(1, 40)) for _ in range(4)] + [tail(k)], 'build_every': 2})
    for k in range(40 if tier == 'quick' else 1500):
        runs.append({'kind': 'noise', 'texts': [sqltok.noise(rnd, rnd.randint(1, 300)) for _ in range(3)] + [tail(k)], 'build_every': 2})
    # an illegal character in front of a syntax error, a truncated string, an illegal cardinality; then valid texts
    for k, bad in enumerate(['$ CREATE TABEL X (Id INTEGER);', "INSERT INTO X VALUES (1, 'abc", '\ufeffCREATE TABLE (;',
                             '# CREATE ROP REF_ID R1 FROM 2 A (X) TO 1 B (Y);', '@' * 12 + ' INSERT INTO', '\x00 CREATE', '"unterminated CREATE TABLE']):
        runs.append({'kind': 'noise', 'texts': [tail(100 + k), bad, tail(200 + k), bad, bad, tail(300 + k)], 'build_every': 1})
    # statements with empty lists (no attributes, no values, no key attributes) held by the loader while every single-edit
    # mutant of statements with non-empty lists is fed (a list that starts with a comma among them)
    empty = ['CREATE TABLE E ();\nINSERT INTO E VALUES ();\n',
             'CREATE TABLE E ();\nCREATE TABLE F (Id INTEGER, Nm STRING);\nCREATE ROP REF_ID R9 FROM 1C E () TO 1C F ();\n'
             'CREATE UNIQUE INDEX I1 ON E ();\nINSERT INTO E VALUES ();\n']
    full = "INSERT INTO G VALUES (1, 'x');\nCREATE TABLE G (A INTEGER, B STRING);\nCREATE UNIQUE INDEX I1 ON G (A, B);\n" \
           "CREATE ROP REF_ID R8 FROM MC G (A, B) TO 1 G (A, B);\n"
    for k, e in enumerate(empty):
        ms = sqltok.mutants(full, rnd, None if tier != 'quick' else 50)
        for j in range(0, len(ms), 5):
            runs.append({'kind': 'mutant:emptylists', 'texts': [e] + [m for _, m in ms[j:j + 5]] + [full, tail(400 + k)], 'build_every': 3})
    # attribute types that are no core type, in plain, identifying, referring and referred positions, with rows given
    # positionally and by name and values of every lexical class: building may fail, but only in the documented ways
    for k, ty in enumerate(['uuid', 'same_as_base', 'INT', 'text', 'DATE', 'inst_ref', 'Bool']):
        for j, (plain, ident, referring, referred) in enumerate([(ty, 'UNIQUE_ID', 'UNIQUE_ID', 'UNIQUE_ID'), ('STRING', ty, 'UNIQUE_ID', 'UNIQUE_ID'),
                                                                 ('STRING', 'UNIQUE_ID', ty, 'UNIQUE_ID'), ('STRING', 'UNIQUE_ID', 'UNIQUE_ID', ty),
                                                                 ('STRING', 'UNIQUE_ID', ty, ty)]):
            sch = ('CREATE TABLE OA (Id %s, Nm %s);\nCREATE TABLE OB (Id %s, OA_Id %s);\n' % (referred, plain, ident, referring) +
                   'CREATE ROP REF_ID R1 FROM MC OB (OA_Id) TO 1 OA (Id);\nCREATE UNIQUE INDEX I1 ON OA (Id);\nCREATE UNIQUE INDEX I1 ON OB (Id);\n')
            texts = [sch]
            for v in ('1', "'x'", '"00000000-0000-0000-0000-000000000001"', 'true', '1.5'):
                w = v if (j + k) % 2 else '1'
                texts.append(rnd.choice(["INSERT INTO OA VALUES (%s, %s);\nINSERT INTO OB VALUES (%s, %s);\n",
                                         "INSERT INTO OA (Id, Nm) VALUES (%s, %s);\nINSERT INTO OB (OA_Id, Id) VALUES (%s, %s);\n",
                                         "INSERT INTO OB VALUES (%s, %s);\nINSERT INTO OA (Nm, Id) VALUES (%s, %s);\n"]) % (v, w, w, v))
            runs.append({'kind': 'oddtypes', 'texts': texts + [tail(500 + k)], 'build_every': 1})
    # rows of tables that no CREATE TABLE declares (their classes are inferred from the values): values of every lexical class,
    # strings that span lines or hold comment markers, quotes, nothing at all
    odd = ["'first line\nsecond line'", "'-- not a comment\n'", "'\n'", "''", "'it''s'", "'/* x */'", "'tab\there'", '-7', '0', '4.75', '-0.5',
           '"00000000-0000-0000-0000-000000000004"', 'TRUE', 'false', "'x' ", "'  '"]
    for k in range(12 if tier == 'quick' else 200):
        vals = [rnd.choice(odd) for _ in range(rnd.randint(1, 5))]
        named = ', '.join('c%d' % i for i in range(len(vals)))
        texts = ["INSERT INTO Und%d VALUES (%s);\n" % (k, ', '.join(vals)),
                 "INSERT INTO Und%d (%s) VALUES (%s);\n" % (k, named, ', '.join(rnd.choice(odd) for _ in vals)),
                 "INSERT INTO Oth%d (%s) VALUES (%s);\n" % (k, named, ', '.join(vals))]
        rnd.shuffle(texts)
        runs.append({'kind': 'inferred', 'texts': texts + [tail(600 + k)], 'build_every': 1})
    # adversarial sizes for the time bound
    runs.append({'kind': 'long', 'texts': ["INSERT INTO X VALUES ('" + "a''" * 20000 + "');", '-- ' + 'x' * 100000,
                                           "'" + 'b' * 50000, '"' + 'c' * 50000, '(' * 3000, '1' * 5000 + '.'],
                 'build_every': 6})
    # numbers beyond what int() converts (4300 digits) in every column type and in an undeclared table
    big = '9' * 5000
    for k, v in enumerate((big, big + '.5', '-' + big)):
        runs.append({'kind': 'long', 'texts': ['CREATE TABLE X%d%s (A %s);\nINSERT INTO X%d%s VALUES (%s);' % (k, ty[:1], ty, k, ty[:1], v)
                                               for ty in ('INTEGER', 'REAL', 'UNIQUE_ID', 'STRING', 'BOOLEAN')] +
                     ['INSERT INTO Y%d VALUES (%s);' % (k, v)], 'build_every': 1})
    return runs


def check(tier, replay_path=None):
    t = common.Timer()
    rep = evidence.Report(PID)
    seed = common.seed()
    d = tlc.prepare_dir(['LoadIO', 'MC_LoadIO'], {'mc.cfg': 'CONSTANTS\n  MaxStmts = 6\nSPECIFICATION Spec\n'
                                                   'PROPERTY RejectedInputIsStutter\nPROPERTY BuildIsPure\nPROPERTY AppendOnly\nINVARIANT CountOK\nCHECK_DEADLOCK FALSE\n'})
    mc = tlc.check_model(d, 'MC_LoadIO', 'mc.cfg', must_cover=('MCAccept', 'RejectInput', 'Build'))
    if replay_path:
        obj = common.read_json(replay_path)
        runs = [{'kind': 'replay', 'texts': obj.get('texts', ['']), 'build_every': obj.get('build_every', 1)}]
    else:
        runs = build_runs(tier, seed)
    traces = replay.replay('loadio', {}, runs, timeout=3000)
    verdicts, st = trace.validate('LoadIOTrace', 'CONSTANTS\n  MaxStmts = 0\n', traces,
                                  modules=['LoadIO', 'LoadIOTrace', 'TraceBase'])
    outcomes = {}
    distinct = set()
    samples = []
    accepted = 0
    for v, r in zip(verdicts, runs):
        for e in v.trace:
            key = '%s/%s' % (e['op'], e['res'])
            outcomes[key] = outcomes.get(key, 0) + 1
        distinct.add(tuple(r['texts']))
        if v.ok:
            accepted += 1
            if len(samples) < 4 and r['kind'].startswith('mutant') and any(e['res'] == 'ParsingException' for e in v.trace):
                samples.append({'kind': r['kind'], 'texts': [x[:300] for x in r['texts']],
                                'events': [[e['op'], e['res'], e['n'], e['twin']] for e in v.trace]})
        else:
            e = v.event()
            sig = {'op': e['op'], 'res': e['res'], 'clause': v.clause, 'kind': r['kind'].split(':')[0]}
            rep.failure(sig, {'texts': r['texts'][:e['k'] + 1], 'build_every': r.get('build_every', 1), 'step': v.step,
                              'clause': v.clause, 'event': e, 'spec_expected': repr(v.expected)})
    hooks = None
    from .. import hooktrace
    if replay_path and obj.get('source') == 'hooks':
        hooktrace.check_loader(rep, tier)
        return rep.finish()
    if not replay_path:
        # every input() / build_metamodel() call made while the repository's own tests run on the hooked library
        hooks = hooktrace.check_loader(rep, tier)
    rc = rep.finish()
    if replay_path:
        return rc
    accepted += hooks['traces_accepted']
    cov = {'repository_tests_under_hooks': hooks, 'states': mc.distinct, 'transitions': mc.generated, 'traces_validated_against_impl': accepted,
           'evaluations': st['steps'], 'distinct_nontrivial': len(distinct),
           'rule': 'one evaluation = one input() or build_metamodel() call on a real loader (5 s budget per input); a run is a '
                   'history of texts on one loader next to a twin loader that only receives the accepted texts; TLC checks the '
                   'outcome is one the specification has (accepted / ParsingException; built / ParsingException / MetaException), '
                   'that a rejected text leaves len(statements) unchanged and that loader and twin build the same serialisation; '
                   'distinct = distinct histories of texts',
           'samples': samples or [{'note': 'none'}], 'calls_per_outcome': outcomes,
           'runs_by_kind': {k: sum(1 for r in runs if r['kind'].split(':')[0] == k) for k in
                            ('mutant', 'interleaved', 'soup', 'noise', 'long', 'oddtypes', 'inferred')},
           'model': 'LoadIO.tla (Accept, RejectInput, Build) with RejectedInputIsStutter, BuildIsPure',
           'exhaustive': False}
    evidence.write(PID, tier, 'model_checking', cov, t.s(), rep.n, [
        'the specification does not say which texts are accepted; it fixes the set of outcomes and the atomicity of rejection',
        'single-edit mutants: delete, duplicate, swap, lexical-class flip, truncate at every token of rendered valid files '
        '(all of them in the thorough tier, a seeded sample of 60 per file in the quick tier)',
        'bounded time = 5 s per input of at most 100 kB',
    ])
    return rc
