"""C02: links stay symmetric, bounded and atomic through any operation history."""
import concurrent.futures
import random

from .. import common, evidence, metacheck, schemas, sim, tours

PID = 'C02'

QUICK = {
    'one_many': 2, 'one_one': 2, 'many_one_2key': 2, 'reflexive_11': 3, 'reflexive_1m': 3,
    'assoc_class': {'L': 1, 'R': 1, 'A': 2}, 'assoc_reflexive': {'N': 2, 'E': 2},
    'subsuper': {'SUP': 2, 'SA': 1, 'SB': 1}, 'shared_ref': {'T': 1, 'V': 1, 'S': 2},
    'phrase_ends': {'P': 1, 'D': 2},
}
THOROUGH = {
    'one_many': {'S': 3, 'T': 2}, 'one_one': {'S': 3, 'T': 2}, 'many_one_2key': {'S': 3, 'T': 2},
    'reflexive_11': 4, 'reflexive_1m': 4,
    'assoc_class': {'L': 2, 'R': 1, 'A': 2}, 'assoc_reflexive': {'N': 2, 'E': 2},
    'subsuper': {'SUP': 2, 'SA': 2, 'SB': 1}, 'shared_ref': {'T': 2, 'V': 1, 'S': 2},
    'phrase_ends': {'P': 2, 'D': 2},
}


def random_runs(schema, rnd, count, length, ninst):
    """Long random call sequences; the driver only chooses calls (it tracks which
    handles it has created and deleted, it predicts nothing)."""
    rels = sorted({a['rel'] for a in schema['assocs']}) + ['R99']
    phrases = sorted({a['sphrase'] for a in schema['assocs']} | {a['tphrase'] for a in schema['assocs']} | {''})
    pairs = [(a['src'], a['tgt'], a['rel'], a['sphrase'], a['tphrase']) for a in schema['assocs']]
    runs = []
    for _ in range(count):
        born = {c: 0 for c in schema['classes']}
        live = []
        acts = []
        for _ in range(length):
            k = rnd.random()
            if (k < 0.15 or len(live) < 2) and sum(born.values()) < ninst:
                c = rnd.choice(schema['classes'])
                born[c] += 1
                live.append((c, born[c]))
                acts.append(['New', c, [], {}])
            elif k < 0.22 and live:
                ever = [(c, i) for c in born for i in range(1, born[c] + 1)]
                x = rnd.choice(ever)
                if x in live:
                    live.remove(x)
                acts.append(['Delete', x[0], x[1]])
            elif k < 0.25:
                acts.append(['RelateNone'])
            elif live:
                op = 'Relate' if rnd.random() < 0.6 else 'Unrelate'
                if rnd.random() < 0.85 and pairs:
                    # a call that fits some association (either argument order, right or wrong phrase)
                    s, t, rel, sp, tp = rnd.choice(pairs)
                    xs = [i for i in live if i[0] == s]
                    ys = [i for i in live if i[0] == t]
                    if not xs or not ys:
                        continue
                    x, y = rnd.choice(xs), rnd.choice(ys)
                    ph = sp
                    if rnd.random() < 0.5:
                        x, y, ph = y, x, tp
                    if rnd.random() < 0.1:
                        ph = rnd.choice(phrases + ['bogus'])
                    acts.append([op, x[0], x[1], y[0], y[1], rel, ph])
                else:
                    x, y = rnd.choice(live), rnd.choice(live)
                    acts.append([op, x[0], x[1], y[0], y[1], rnd.choice(rels), rnd.choice(phrases + ['bogus'])])
        if acts:
            runs.append({'acts': acts})
    return runs


def shape_job(args):
    name, bound, tier, seed = args
    schema = schemas.SCHEMAS[name]
    rnd = random.Random(seed * 1000 + sum(map(ord, name)))
    maxb = bound if isinstance(bound, int) else max(bound.values())
    r, g, d = metacheck.model_check(schema, bound, maxi=maxb, workers=4)
    budget = 6000 if tier == 'quick' else 100000
    # accepted and multiplicity-/state-dependent outcomes first, unknown-link rejections last
    dull = ('UnknownLinkException', '\\"False\\"')
    stages = [(lambda lab, dst: not any(x in dst for x in dull), 0.75), (lambda lab, dst: True, 0.25)]
    ts, covered, total = tours.staged_tours(g, stages, maxlen=40, budget=budget, seed=seed)
    runs = [{'acts': [metacheck.to_act(l) for l in t], 'src': 'tour'} for t in ts]
    # simulated behaviours of a larger instance
    mod, cfg, _ = metacheck.mc_files(schema, 4, maxi=4, invariants=[], properties=[])
    import os
    with open(os.path.join(d, 'MC_Meta.tla'), 'w') as f:
        f.write(mod)
    with open(os.path.join(d, 'sim.cfg'), 'w') as f:
        f.write(cfg)
    beh = sim.simulate(d, 'MC_Meta', 'sim.cfg', num=24 if tier == 'quick' else 400, depth=60, seed=seed + 7,
                       workers=2)
    runs += [{'acts': [metacheck.to_act(l) for l in b], 'src': 'simulate'} for b in beh]
    rr = random_runs(schema, rnd, 6 if tier == 'quick' else 80, 200, 14)
    for x in rr:
        x['src'] = 'random'
    runs += rr
    traces, verdicts, st = metacheck.replay_validate(schema, runs)
    return name, bound, r, g, covered, total, runs, verdicts, st


def check(tier, replay_path=None):
    t = common.Timer()
    rep = evidence.Report(PID)
    seed = common.seed()
    results = []
    if replay_path:
        obj = common.read_json(replay_path)
        if obj.get('source') == 'hooks':
            # a trace of the repository tests: the tests are run again on the hooked library and judged again
            from .. import hooktrace
            hooktrace.check(rep, tier)
            return rep.finish()
        schema = schemas.SCHEMAS[obj['shape']]
        runs = [{'acts': obj['acts'], 'src': 'replay'}]
        traces, verdicts, st = metacheck.replay_validate(schema, runs)
        results.append((obj['shape'], 0, None, None, 0, 0, runs, verdicts, st))
    else:
        bounds = QUICK if tier == 'quick' else THOROUGH
        jobs = [(n, b, tier, seed) for n, b in bounds.items()]
        with concurrent.futures.ThreadPoolExecutor(max_workers=4) as ex:
            results = list(ex.map(shape_job, jobs))
    cov = {'states': 0, 'transitions': 0, 'traces_validated_against_impl': 0, 'evaluations': 0,
           'tour_edges_covered': 0, 'tour_edges_total': 0, 'shapes': {}, 'calls_per_outcome': {}}
    distinct = set()
    samples = []
    for name, bound, r, g, covered, total, runs, verdicts, st in results:
        if r:
            cov['states'] += r.distinct
            cov['transitions'] += r.generated
            cov['shapes'][name] = {'bound': bound, 'states': r.distinct, 'transitions': r.generated,
                                   'edges_by_action': dict(g.actions), 'tour_edges_covered': covered,
                                   'tour_edges_total': total, 'traces': len(runs), 'steps': st['steps']}
        cov['tour_edges_covered'] += covered
        cov['tour_edges_total'] += total
        cov['evaluations'] += st['steps']
        for v, run in zip(verdicts, runs):
            pre = None
            for e in v.trace:
                key = '%s/%s' % (e['op'], e['res'])
                cov['calls_per_outcome'][key] = cov['calls_per_outcome'].get(key, 0) + 1
                post = (str(e['pool']), str(e['nav']))
                if post != pre or e['res'] not in ('True', 'none'):
                    distinct.add((name, e['op'], str(e.get('x')), str(e.get('y')), e.get('rel'), e.get('ph'), pre))
                pre = post
            if v.ok:
                cov['traces_validated_against_impl'] += 1
                if len(samples) < 3 and run['src'] == 'tour' and len(v.trace) > 8:
                    samples.append({'shape': name, 'calls': [[e['op'], e.get('x', e.get('c')), e.get('y'), e.get('rel'),
                                                              e.get('ph'), e['res']] for e in v.trace[:12]]})
            else:
                e = v.event()
                sig = {'shape': name, 'op': e['op'], 'res': e['res'], 'clause': v.clause}
                rep.failure(sig, {'shape': name, 'acts': run['acts'][:v.step], 'step': v.step,
                                  'clause': v.clause, 'event': e, 'spec_expected': repr(v.expected)})
    hooks = None
    if not replay_path:
        # the repository's own tests, run on the library with the source hooks on: every top-level relate / unrelate /
        # delete / new call on a small metamodel is validated by TLC against Meta.tla from the state it was made in
        from .. import hooktrace
        hooks = hooktrace.check(rep, tier)
    rc = rep.finish()
    if replay_path:
        return rc
    cov['repository_tests_under_hooks'] = hooks
    cov['traces_validated_against_impl'] += hooks['traces_accepted']
    cov['evaluations'] += hooks['steps']
    cov['distinct_nontrivial'] = len(distinct)
    cov['rule'] = ('one evaluation = one recorded call (new/relate/unrelate/delete, incl. rejected ones) whose outcome, '
                   'pools, navigation results from every handle across every association in both directions and '
                   'every attribute read were validated by TLC against MetaTrace.tla; non-trivial = the call changed '
                   'pools/links or was rejected; distinct by (shape, call, state before)')
    cov['samples'] = samples or [{'note': 'none'}]
    cov['model'] = ('Meta.tla per association shape; invariants TypeOK, Symmetric, OnlyLive, Bounded, RefReadOK, '
                    'FreshIds; action property RejectedIsNoop')
    cov['exhaustive'] = bool(tier == 'thorough' and cov['tour_edges_covered'] == cov['tour_edges_total'])
    evidence.write(PID, tier, 'model_checking', cov, t.s(), rep.n, [
        'exhaustive only within the creation bounds listed per shape; larger pools by simulation (4 per class) and '
        'random 200-call histories (14 instances)',
        'relate/unrelate are only called with live instances or None; the only call on a deleted handle is a '
        'repeated delete (use-after-delete is not in the statement)',
        'the metamodel is defined through define_class/define_association/formalize/define_unique_identifier '
        'with the integer id generator',
        'traces of the repository tests (source hooks, PYXTUML_VERIF=1): only metamodels with at most 8 classes of core-typed '
        'attributes, 10 associations and 24 instances; creation calls with referential arguments and calls on deleted '
        'instances are not recorded; the state in front of each call is adopted from the recording (MetaTrace!AdoptState), '
        'so each call is judged as one step from the state it was made in',
    ])
    return rc
