"""C07: OAL parsing follows the precedence table and ignores layout."""
import random

from .. import common, evidence, oalcheck

PID = 'C07'
CASES = ['lower']


def build_items(tier, seed, positions=False, cases=CASES):
    rnd = random.Random(seed)
    progs = oalcheck.corpus(tier, seed)
    out, ntrees = oalcheck.unparse_stage(progs, tree_depth=2, leaves=1 if tier == 'quick' else 2)
    items = []
    # every expression tree: canonical text ...
    trees = out[:ntrees]
    for k, o in enumerate(trees):
        items.append({'body': o['body'], 'toks': o['toks'], 'seed': rnd.randint(0, 10 ** 9), 'simple': True,
                      'layout': ['mixed', 'plain', 'dense'][k % 3], 'case': cases[k % len(cases)], 'positions': positions})
    # ... and once more with redundant parentheses around chosen sub-expressions
    deco = []
    for k, o in enumerate(trees):
        if tier == 'thorough' or k % 4 == 0:
            b = [dict(o['body'][0], e=oalcheck.decorate(o['body'][0]['e'], rnd, 0.35))]
            deco.append(b)
    out2, _ = oalcheck.unparse_stage(deco)
    for k, o in enumerate(out2):
        items.append({'body': o['body'], 'toks': o['toks'], 'seed': rnd.randint(0, 10 ** 9), 'simple': True,
                      'layout': 'mixed', 'case': cases[k % len(cases)], 'positions': positions})
    # statement programs: every production, random layout, comments and optional words
    stmts = out[ntrees:]
    for k, o in enumerate(stmts):
        # the form-cover programs (at the end) are written with every choice of the optional words
        for rep in range(3 if k >= len(stmts) - oalcheck.NCOVER else 2):
            items.append({'body': o['body'], 'toks': o['toks'], 'seed': rnd.randint(0, 10 ** 9),
                          'layout': ['mixed', 'dense', 'plain', 'line'][(k + rep) % 4], 'case': cases[(k + rep) % len(cases)],
                          'keep': [None, True, False][(k + rep) % 3], 'positions': positions})
    return items, ntrees


def run(pid, tier, replay_path, positions, cases, rule, model, assumptions, extra_items=None):
    t = common.Timer()
    rep = evidence.Report(pid)
    seed = common.seed()
    if replay_path:
        obj = common.read_json(replay_path)
        items = [obj['item']]
        ntrees = 0
    else:
        items, ntrees = build_items(tier, seed, positions, cases)
        if extra_items:
            # texts the parser rejects are interleaved with the valid ones: what one parse leaves behind
            # (lexer state, line counters) must not influence the next
            extra = extra_items(tier, seed)
            rnd = random.Random(seed + 99)
            merged = items + extra
            rnd.shuffle(merged)
            items = merged
    runs, traces, verdicts, st = oalcheck.parse_and_validate(items)
    accepted = 0
    kinds = {}
    distinct = set()
    samples = []
    for v, r in zip(verdicts, runs):
        for e in v.trace[:(len(v.trace) if v.ok else v.step)]:
            if e.get('total'):
                kinds['total/' + (e['errkind'] or 'tree')] = kinds.get('total/' + (e['errkind'] or 'tree'), 0) + 1
                distinct.add(e['text'])
            else:
                for s in e['src']:
                    kinds[s['t']] = kinds.get(s['t'], 0) + 1
                distinct.add(e['text'])
        if v.ok:
            accepted += 1
            if len(samples) < 3:
                e = v.trace[len(samples) * 7 % len(v.trace)]
                samples.append({'text': e['text'][:400], 'tokens': e.get('toks', [])[:60]})
        else:
            e = v.event()
            it = r['items'][v.step - 1]
            first = (e['src'][0]['t'] if e.get('src') else 'text')
            sig = {'clause': v.clause, 'first_statement': first, 'err': e.get('errkind', '')}
            rep.failure(sig, {'item': it, 'text': e.get('text'), 'err': e.get('err'), 'clause': v.clause,
                              'real': e.get('real'), 'spec_expected': repr(v.expected)[:3000]})
    rc = rep.finish()
    if replay_path:
        return rc
    cov = {'states': ntrees, 'transitions': ntrees, 'traces_validated_against_impl': accepted, 'evaluations': st['steps'],
           'distinct_nontrivial': len(distinct), 'rule': rule, 'samples': samples or [{'note': 'none'}],
           'statements_by_kind': kinds, 'model': model, 'expression_trees_enumerated_by_tlc': ntrees,
           'exhaustive': False}
    evidence.write(pid, tier, 'model_checking', cov, t.s(), rep.n, assumptions)
    return rc


def check(tier, replay_path=None):
    return run(
        PID, tier, replay_path, positions=False, cases=CASES,
        rule='one evaluation = one text parsed by the real parser. TLC enumerates every expression tree of depth <= 3 over all 16 '
             'binary and 6 unary operators (states = number of trees), proves RefParse(Unparse(t)) = t on each and exports its '
             'canonical tokens; each is rendered with seeded whitespace, line breaks, block and line comments, and once more '
             'with redundant parentheses; statement programs from a seeded generator cover every statement production with '
             'optional words kept, dropped or mixed. TLC then checks per text: tokens = Unparse(tree), the parser returned a '
             'tree, that tree = the tree the text was written for (redundant parentheses stripped), and for expression texts '
             'additionally = the reference parse of the tokens; distinct = distinct texts',
        model='OalSyntax.tla (precedence table, Unparse, RefParse, Strip), OalUnparse.tla (theorem RoundTrip on all trees), '
              'OalTrace.tla',
        assumptions=[
            'the parser tables are regenerated from the current grammar text for every check (stale tables cannot hide a change)',
            'operator, boolean and cardinality spellings are compared case-folded (C08 deals with keyword case)',
            'identifiers never coincide with keywords; polymorphic event markers and the assigner keyword are not generated '
            '(the parser does not record them)',
        ])
