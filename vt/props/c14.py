"""C14: component extraction mirrors the BridgePoint class model."""
import random

from .. import bpgen, common, evidence, replay, trace

PID = 'C14'
ROUTES = ['input', 'inputs', 'file', 'dir', 'zip']


def real_models():
    """the BridgePoint model files of the repository's test resources: (statements, diagram read from them)"""
    import os
    from .. import bpread
    out = []
    p = os.path.join(common.REPO, 'tests', 'resources', 'Simple_Model.xtuml')
    texts = []
    if os.path.exists(p):
        texts.append(open(p, encoding='utf-8').read())
    # (the model text that tests/test_bridgepoint/test_interpret.py carries as a string constant)
    p = os.path.join(common.REPO, 'tests', 'test_bridgepoint', 'test_interpret.py')
    if os.path.exists(p):
        import ast
        for node in ast.parse(open(p, encoding='utf-8').read()).body:
            if isinstance(node, ast.Assign) and getattr(node.targets[0], 'id', '') == 'model' and \
                    isinstance(node.value, ast.Constant) and isinstance(node.value.value, str):
                texts.append(node.value.value)
    for text in texts:
        out.append(([s for _, _, s in bpread.statements(text)], bpread.diagram(text)))
    return out


def scripts(tier, seed, xsd=False):
    rnd = random.Random(seed)
    items = []
    bases = [bpgen.base_diagram(), bpgen.reflexive_linked()]
    # a real model: its file as it is (rows in file order and shuffled, every route, whole model and each component), and
    # its diagram as the starting point of further edit scripts
    k = 0
    for stmts, d in real_models():
        bases.append(d)
        for root in [''] + d['comps']:
            if xsd and not root:
                continue
            for j in range(5 if tier == 'quick' else 20):
                items.append({'d': d, 'stmts': stmts, 'root': root, 'derived': bool(j % 2) or xsd, 'route': ROUTES[k % len(ROUTES)],
                              'shuffle': bool(j), 'seed': rnd.randint(0, 10 ** 6), 'via': ['loader', 'mk', 'sql_main', 'mk', 'load_component', 'loader'][k % 6],
                              'xsd': (['tree', 'main'][k % 3 == 0] if xsd else ''), 'trail': ['real']})
                k += 1
    nscripts = 12 if tier == 'quick' else 150
    length = 8 if tier == 'quick' else 14
    for s in range(nscripts):
        d = bases[s % len(bases)]
        trail = ['base']
        for step in range(length + 1):
            for root in [''] + d['comps']:
                if xsd and not root:
                    continue
                # (C20: referred key attributes may be derived there, so the component part asks for derived attributes)
                for derived in ([False, True] if (k % 3 == 0 and not xsd) else [bool(k % 2) or xsd]):
                    items.append({'d': d, 'root': root, 'derived': derived, 'route': ROUTES[k % len(ROUTES)],
                                  'shuffle': bool(k % 2), 'seed': rnd.randint(0, 10 ** 6), 'via': ['loader', 'mk', 'sql_main', 'mk', 'load_component', 'loader'][k % 6],
                                  'xsd': (['tree', 'main'][k % 5 == 0] if xsd else ''), 'trail': list(trail)})
                    k += 1
            nd, kind = bpgen.edit(d, rnd, derived_keys=xsd)
            tries = 0
            while nd is None and tries < 10:
                nd, kind = bpgen.edit(d, rnd, derived_keys=xsd)
                tries += 1
            if nd is None:
                break
            d = nd
            trail.append(kind)
    return items


def run(pid, tier, replay_path, xsd, rule, model, assumptions):
    t = common.Timer()
    rep = evidence.Report(pid)
    seed = common.seed()
    if replay_path:
        items = [common.read_json(replay_path)['item']]
    else:
        items = scripts(tier, seed, xsd)
    runs = [{'items': items[i:i + 10]} for i in range(0, len(items), 10)]
    traces = replay.replay('bp', {}, runs, timeout=3000)
    verdicts, st = trace.validate('BpTrace', '', traces, modules=['BpModel', 'BpTrace', 'TraceBase'])
    accepted = 0
    distinct = set()
    edits = {}
    samples = []
    for v, r in zip(verdicts, runs):
        n = len(v.trace) if v.ok else v.step
        for e, it in list(zip(v.trace, r['items']))[:n]:
            distinct.add((str(e['d']), e['root'], e['derived']))
            for kd in it.get('trail', [])[-1:]:
                edits[kd] = edits.get(kd, 0) + 1
        if v.ok:
            accepted += 1
            if len(samples) < 2:
                e = v.trace[-1]
                samples.append({'edits': r['items'][-1].get('trail'), 'root': e['root'], 'derived': e['derived'],
                                'component': e['comp'], 'xsd': e['xsd'] if e['hasxsd'] else None})
        else:
            e = v.event()
            it = r['items'][v.step - 1]
            sig = {'clause': v.clause, 'last_edit': (it.get('trail') or ['base'])[-1], 'err': e['err'].split(':')[0]}
            rep.failure(sig, {'item': it, 'err': e['err'], 'clause': v.clause, 'comp': e['comp'], 'xsd': e['xsd'],
                              'spec_expected': repr(v.expected)[:4000]})
    rc = rep.finish()
    if replay_path:
        return rc
    cov = {'states': st['tlc_states'], 'transitions': st['tlc_states'], 'traces_validated_against_impl': accepted,
           'evaluations': st['steps'], 'distinct_nontrivial': len(distinct), 'rule': rule, 'samples': samples or [{'note': 'none'}],
           'diagrams_after_edit_kind': edits, 'model': model, 'exhaustive': False}
    evidence.write(pid, tier, 'model_checking', cov, t.s(), rep.n, assumptions)
    return rc


def check(tier, replay_path=None):
    return run(
        PID, tier, replay_path, xsd=False,
        rule='one evaluation = one class diagram (the state after a prefix of an edit script: rename/retype/reorder/add attribute, '
             'toggle multiplicity or conditionality, change phrase, move class between components, change identifiers, enumerators '
             'and user types), synthesised as BridgePoint model text (rows in modeled or shuffled order; one input, several inputs, '
             'a file, a directory tree, a zip archive) and built with build_component / mk_component for the whole model and for '
             'each component, with and without derived attributes; TLC compares the extracted classes (ordered typed attributes), '
             'identifiers and associations (keys, multiplicity, conditionality, phrases) with BpModel!Component and requires the '
             'persisted SQL schema to load back to the same definitions; distinct = (diagram, root, derived)',
        model='BpModel.tla Component (ClassDef, UniqueDefs, AssocDefs for simple, linked and subtype relationships)',
        assumptions=[
            'the real model of the test resources (Simple_Model.xtuml) is loaded as it is (file order and shuffled statements); its '
            'diagram is read from the rows of the file by vt/bpread.py (the harness itself, no pyxtuml); edited diagrams and the '
            'synthetic base diagrams become '
            'BridgePoint model text through vt/adapters/_bp.py (the constructive direction); '
            'every edit is a new synthesis, so "changes exactly the corresponding part" follows from Component being a function of '
            'the diagram whose clauses each read one part of it',
            'key pairs and identifier attribute sets are compared as sets (their order follows row order, which is shuffled)',
        ])
