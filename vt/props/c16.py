"""C16: reflexive sorting yields the succession order and terminates."""
from .. import metacheck, metagen

PID = 'C16'


def random_runs(schema, rnd, tier):
    """larger sets: build random chains/rings over 8-12 instances, then a few unrelates"""
    runs = []
    a = schema['assocs'][0]
    c = a['src']
    for _ in range(10 if tier == 'quick' else 200):
        n = rnd.randint(6, 12)
        acts = [['New', c, [], {}] for _ in range(n)]
        order = list(range(1, n + 1))
        rnd.shuffle(order)
        # cut the permutation into chains; some chains are closed into rings
        i = 0
        while i < n:
            ln = rnd.randint(1, min(5, n - i))
            chain = order[i:i + ln]
            for x, y in zip(chain, chain[1:]):
                acts.append(['Relate', c, x, c, y, a['rel'], rnd.choice([a['tphrase']])])
            if ln > 1 and rnd.random() < 0.25:
                acts.append(['Relate', c, chain[-1], c, chain[0], a['rel'], a['tphrase']])
            i += ln
        for _ in range(rnd.randint(0, 3)):
            x, y = rnd.sample(range(1, n + 1), 2)
            acts.append(['Unrelate', c, x, c, y, a['rel'], a['tphrase']])
        runs.append({'acts': acts})
    return runs


def plans():
    obs = metagen.battery(['sort'], per_step=3)
    return [
        {'name': 'reflexive_11', 'schema': 'reflexive_11', 'spec': 'SpecVal', 'alpha': {'new', 'link'},
         'bound': {'quick': 5, 'thorough': 6}, 'invariants': ['TypeOK', 'Symmetric', 'Bounded'], 'properties': [],
         'must_cover': ('VNewD', 'VRelate', 'VUnrelate'), 'budget': 12000, 'budget_thorough': 400000, 'maxlen': 30,
         'state_cover': 3.0,
         'stages': [(lambda lab, dst: 'Exception' not in dst, 0.8), (lambda lab, dst: True, 0.2)],
         'obs': obs, 'random': random_runs, 'timeout': 2400, 'workers': 8},
    ]


def check(tier, replay_path=None):
    return metacheck.run_plans(
        PID, tier, plans(), replay_path,
        rule='one evaluation = one recorded call building an arrangement of chains and rings over a reflexive 1C:1C '
             'association; after every call sort_reflexive is asked for both phrases on the whole pool and on subsets; '
             'TLC checks (MetaTrace!SortOK) that every member appears once, every member is directly followed by its '
             'successor, each chain starts at the member without a partner across the phrase, a lone ring starts at the '
             'set\'s first member; subsets that are not whole chains only have to terminate (5 s budget per call)',
        model_text='Meta.tla (VNewD, VRelate, VUnrelate) on the reflexive 1C:1C shape: every arrangement of up to five (quick) / '
                   'six (thorough) instances into chains and rings is a TLC state; MetaObs!SortReflexive',
        assumptions=[
            'the order of the chains among themselves is not fixed by the property and is not compared',
            'sets mixing rings with chains, or several rings, are outside the statement: only termination is required',
        ], parallel=1)
