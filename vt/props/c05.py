"""C05: prebuild followed by text generation reproduces the program."""
import random

from .. import common, evidence, oalcheck, oalgen, replay, trace

PID = 'C05'
HOMES = ['func', 'bridge', 'op', 'derived', 'state', 'transition', 'portop', 'portsig']


def corpus(tier, seed):
    rnd = random.Random(seed)
    progs = []
    n = 200 if tier == 'quick' else 3000
    for k in range(n):
        home = HOMES[k % 8]
        g = oalgen.Gen(random.Random(rnd.randint(0, 10 ** 9)), maxdepth=rnd.choice([2, 3, 3]), parens=0.1, syntax_only=False)
        g.calls = True
        g.home = home
        g.events = True
        g.arrays = True
        g.oddstrings = True
        g.more = True
        # every second model lives in a component with ports (the port homes always do)
        g.ports = home in ('portop', 'portsig') or k % 2 == 0
        g.casevars = (k % 3 == 1)
        g.no_division = False
        body = g.program(nstmts=rnd.randint(2, 7), setup=(k % 3 == 0), final_return=(home not in ('derived', 'state', 'transition', 'portsig')))
        if home == 'derived':
            body.append(oalgen.Assign(oalgen.Field({'t': 'self'}, 'Calc'), g.expr('int')))
        progs.append((home, body, g.ports))
    return progs


def real_model_texts():
    from . import c14
    import os
    out = []
    p = os.path.join(common.REPO, 'tests', 'resources', 'Simple_Model.xtuml')
    if os.path.exists(p):
        out.append(open(p, encoding='utf-8').read())
    p = os.path.join(common.REPO, 'tests', 'test_bridgepoint', 'test_interpret.py')
    if os.path.exists(p):
        import ast
        for node in ast.parse(open(p, encoding='utf-8').read()).body:
            if isinstance(node, ast.Assign) and getattr(node.targets[0], 'id', '') == 'model' and \
                    isinstance(node.value, ast.Constant) and isinstance(node.value.value, str):
                out.append(node.value.value)
    # (only models that hold an action body)
    from .. import bpread, ooaschema
    schema = ooaschema.full()

    def has_body(text):
        rows = bpread.rows_of(text, schema)
        return any((r.get('Action_Semantics_internal') or '').strip()
                   for k in ('S_SYNC', 'S_BRG', 'O_TFR', 'O_DBATTR') for r in rows.get(k, []))
    return [t for t in out if has_body(t)]


def build_items(tier, seed, facts=False, cases=('lower', 'lower', 'upper', 'mixed'), strict=False):
    rnd = random.Random(seed + 5)
    progs = corpus(tier, seed)
    out, _ = oalcheck.unparse_stage([b for _, b, _ in progs])
    items = []
    for k, ((home, _, incomp), o) in enumerate(zip(progs, out)):
        items.append({'home': home, 'body': o['body'], 'toks': o['toks'], 'seed': rnd.randint(0, 10 ** 6),
                      'case': cases[k % len(cases)], 'layout': ['mixed', 'plain'][k % 2], 'facts': facts, 'strict': strict, 'incomp': incomp})
    if not strict:
        # every fourth model holds a second generated body (one written for a function or a bridge, without messages
        # across ports) and is prebuilt as a whole (prebuild_model)
        donors = [it for it in items if it['home'] in ('func', 'bridge') and not it['incomp']]
        for k, it in enumerate(items):
            if k % 4 == 1 and donors:
                d = donors[k % len(donors)]
                if d is not it:
                    it['other'] = {key: d[key] for key in ('body', 'toks', 'seed', 'case', 'layout')}
    return items


def run(pid, tier, replay_path, facts, rule, model, assumptions, module='OalTrace', mods=('OalSyntax', 'OalTrace', 'TraceBase'),
        consts='', cases=None, strict=False):
    t = common.Timer()
    rep = evidence.Report(pid)
    seed = common.seed()
    items = [common.read_json(replay_path)['item']] if replay_path else (
        build_items(tier, seed, facts, cases, strict) if cases else build_items(tier, seed, facts))
    runs = [{'items': items[i:i + 6]} for i in range(0, len(items), 6)]
    if not replay_path and pid == PID:
        # the action bodies of the real models of the repository's tests (one run per model, one event per body): the tree
        # a body parses to must come back from prebuilding and generating text
        runs += [{'items': [{'model': text}]} for text in real_model_texts()]
    elif replay_path and 'model' in items[0]:
        runs = [{'items': [items[0]]}]
    traces = replay.replay('prebuildgen', {'schema': oalgen.OAL_SCHEMA}, runs, timeout=3000)
    verdicts, st = trace.validate(module, consts, traces, modules=list(mods))
    accepted = 0
    homes = {}
    distinct = set()
    samples = []
    for v, r in zip(verdicts, runs):
        for e in v.trace[:(len(v.trace) if v.ok else v.step)]:
            homes[e['home']] = homes.get(e['home'], 0) + 1
            distinct.add(e['text'])
        if v.ok:
            accepted += 1
            if len(samples) < 2:
                e = v.trace[0]
                samples.append({'home': e['home'], 'text': e['text'][:500], 'generated': e['gen'][:500]})
        else:
            e = v.event()
            sig = {'clause': v.clause, 'home': e['home'], 'err': e['err'].split(':')[0][:60]}
            # (an item that holds a second body contributes two events)
            owners = [it for it in r['items'] for _ in range(2 if it.get('other') else 1)]
            rep.failure(sig, {'item': owners[min(v.step, len(owners)) - 1], 'text': e['text'], 'generated': e['gen'], 'err': e['err'],
                              'clause': v.clause, 'real': e['real'], 'facts': e.get('facts'), 'casediff': e.get('casediff'),
                              'spec_expected': repr(v.expected)[:3000]})
    rc = rep.finish()
    if replay_path:
        return rc
    cov = {'states': st['tlc_states'], 'transitions': st['tlc_states'], 'traces_validated_against_impl': accepted,
           'evaluations': st['steps'], 'distinct_nontrivial': len(distinct), 'rule': rule, 'samples': samples or [{'note': 'none'}],
           'actions_by_home': homes, 'model': model, 'exhaustive': False}
    evidence.write(pid, tier, 'model_checking', cov, t.s(), rep.n, assumptions)
    return rc


def check(tier, replay_path=None):
    return run(
        PID, tier, replay_path, facts=False,
        rule='one evaluation = one generated, name-resolved OAL body (assignments to scalars, attributes and elements of one- and '
             'two-dimensional array variables, control flow, create/delete, '
             'relate/unrelate, all select forms with where clauses and multi-step chains, function / class operation / instance '
             'operation / bridge invocations as statements and inside expressions with by-name parameters in any order, parameter '
             'reads, enumerators, constants; event statements: generate to an instance / creator / class state machine, create event '
             'instance, generate of an event instance, data items by name in any order) placed as the action of a function, a bridge, an '
             'instance operation, a derived attribute, a state or a transition - also a creation transition - (data items of the received event read as param / rcvd_evt), '
             'a required / provided operation or signal of a port; messages across ports (operations, signals, send ... to) in the models that live in a component; '
             'of a synthesised BridgePoint model, rendered with random layout and keyword case, prebuilt (prebuild_action) and turned '
             'back into text (gen_text_action); TLC requires that the generated text parses, that its tree equals the tree the body '
             'was written for (OalSyntax!StripB) and that prebuilding the generated text generates the same text again',
        model='OalSyntax.tla (Unparse, StripB) / OalTrace.tla (tree, regenerates_same_text, consistent)',
        assumptions=[
            'for the action bodies of the real models (tests/test_bridgepoint/test_interpret.py: 26 bodies) the tree is the one the '
            'parser makes of the original text; the optional words bridge / transform and the specification name in front of a '
            'constant are not compared there (the originals leave them out, the generator writes them)',
            'non-local polymorphic events and events of external entities are not in this corpus; the word send in front of a message '
            'across a port is optional: the invocation node class (port / implicit) of the regenerated text is not compared',
            'in a state or transition action the null PP_Id of a V_EPR instance (data item of a state machine event, no property parameter) is '
            'not counted as a uniqueness violation: the ooaofooa schema makes PP_Id part of the identifier of V_EPR',
            'the callables an action invokes are declared in the model with stub bodies',
        ])
