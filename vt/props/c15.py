"""C15: callable model elements behave as their OAL bodies specify."""
import random
import sys
import os

from .. import callgen, common, evidence, oalcheck, oalgen, replay, tlagen, trace
from . import c04

PID = 'C15'
sys.path.insert(0, os.path.join(os.path.dirname(os.path.dirname(os.path.abspath(__file__))), 'adapters'))


def value_record(ty, v):
    if ty == 'integer':
        return {'k': 'int', 'v': int(v)}
    if ty == 'boolean':
        return {'k': 'bool', 'v': v.lower() == 'true'}
    return {'k': 'str', 'v': v}


def build_items(tier, seed, cases=None, strict=False):
    from oal_render import render
    rnd = random.Random(seed)
    n = 32 if tier == 'quick' else 300
    envs = [callgen.environment(random.Random(rnd.randint(0, 10 ** 9))) for _ in range(n)]
    # every body of every environment goes through the specification's unparser in one batch
    bodies, index = [], []
    per = []
    for k, env in enumerate(envs):
        r2 = random.Random(rnd.randint(0, 10 ** 9))
        scr = callgen.scripts(r2, env)
        r2.shuffle(scr)
        scr = scr[:r2.randint(3, len(scr))]
        calls = callgen.python_calls(r2, env)
        per.append((scr, calls))
        for name, f in env['funcs'].items():
            bodies.append(f['body']); index.append((k, 'func:' + name))
        for kl, ops in env['ops'].items():
            for name, o in ops.items():
                bodies.append(o['body']); index.append((k, 'op:%s:%s' % (kl, name)))
        for kl, bs in env['bridges'].items():
            for name, b in bs.items():
                bodies.append(b['body']); index.append((k, 'bridge:%s:%s' % (kl, name)))
        for kl, ds in env['derived'].items():
            for name, dv in ds.items():
                bodies.append(dv['body']); index.append((k, 'derived:%s:%s' % (kl, name)))
        for j, s in enumerate(scr):
            bodies.append(s); index.append((k, 'script:%d' % j))
    out, _ = oalcheck.unparse_stage(bodies)
    texts = [dict() for _ in envs]
    lower = [dict() for _ in envs]
    for (k, key), o in zip(index, out):
        case = (cases or ['lower', 'lower', 'upper', 'mixed'])[k % len(cases or [0] * 4)]
        sd = rnd.randint(0, 10 ** 9)
        texts[k][key] = render(o['toks'], sd, case, ['plain', 'mixed'][k % 2])[0]
        if strict:
            lower[k][key] = render(o['toks'], sd, 'lower', ['plain', 'mixed'][k % 2])[0]
    items = []
    for k, env in enumerate(envs):
        scr, calls = per[k]
        spec_env = {
            'funcs': {n: {'params': f['params'], 'body': f['body']} for n, f in env['funcs'].items()},
            'ops': {kl: {n: {'inst': o['inst'], 'params': o['params'], 'body': o['body']} for n, o in ops.items()}
                    for kl, ops in env['ops'].items()},
            'bridges': {kl: {n: {'params': b['params'], 'body': b['body']} for n, b in bs.items()} for kl, bs in env['bridges'].items()},
            'derived': {kl: {n: dv['body'] for n, dv in ds.items()} for kl, ds in env['derived'].items()},
            'enums': env['enums'],
            'consts': {n: value_record(ty, v) for n, (ty, v) in env['consts'].items()},
        }
        items.append({'env': env, 'env_spec': spec_env, 'texts': texts[k], 'texts_lower': lower[k] if strict else None, 'scripts': scr,
                      'script_texts': [texts[k]['script:%d' % j] for j in range(len(scr))], 'calls': calls,
                      'seed': rnd.randint(0, 10 ** 6), 'shuffle': bool(k % 2)})
    return items


def check(tier, replay_path=None):
    return run(PID, tier, replay_path)


def run(PID, tier, replay_path=None, cases=None, strict=False):
    t = common.Timer()
    rep = evidence.Report(PID)
    seed = common.seed()
    items = [common.read_json(replay_path)['item']] if replay_path else build_items(tier, seed, cases, strict)
    runs = [{'items': items[i:i + 2]} for i in range(0, len(items), 2)]
    traces = replay.replay('calls', {'schema': oalgen.OAL_SCHEMA}, runs, timeout=3000)
    c = c04.consts(maxi=30, fuel=20000)
    mod = tlagen.mc_module('MC_OalCallTrace', ['OalCallTrace'], c)
    verdicts, st = trace.validate('MC_OalCallTrace', tlagen.cfg_constants(c), traces,
                                  modules=['OalExec', 'OalCallTrace', 'TraceBase'], extra={'MC_OalCallTrace.tla': mod})
    accepted = 0
    ncalls = 0
    kinds = {}
    distinct = set()
    samples = []
    for v, r in zip(verdicts, runs):
        for e in v.trace[:(len(v.trace) if v.ok else v.step)]:
            ncalls += len(e['results'])
            for cc in e['calls']:
                kinds[cc['k']] = kinds.get(cc['k'], 0) + 1
            kinds['script'] = kinds.get('script', 0) + len(e['scripts'])
            distinct.add(str(e['scripts']) + str(e['calls']))
        if v.ok:
            accepted += 1
            if len(samples) < 2:
                e = v.trace[0]
                samples.append({'python_calls': [[cc['k'], cc['ns'], cc['n'], cc['ps']] for cc in e['calls']][:6],
                                'results': e['results'], 'script_text': r['items'][0]['script_texts'][:2]})
        else:
            e = v.event()
            sig = {'clause': v.clause, 'err': e['err'].split(':')[0]}
            rep.failure(sig, {'item': r['items'][v.step - 1], 'err': e['err'], 'results': e['results'], 'clause': v.clause,
                              'spec_expected': repr(v.expected)[:3000]})
    rc = rep.finish()
    if replay_path:
        return rc
    if st.get('notes', {}).get('OOD', 0) * 2 > len(items):
        raise common.MachineryError('vacuous: %d of %d environments are outside the domain of OalExec' %
                                    (st['notes']['OOD'], len(items)))
    cov = {'states': st['tlc_states'], 'transitions': st['tlc_states'], 'traces_validated_against_impl': accepted,
           'evaluations': ncalls, 'distinct_nontrivial': len(distinct),
           'rule': 'one evaluation = one invocation result. For each generated environment (recursive and mutually recursive functions, '
                   'functions with several by-name parameters, callees that assign their callers\' variable names, functions with '
                   'bare / missing returns and returns through nested control flow, a random call graph g0..gn with calls in expressions, arguments, loop conditions and elif chains and locals named like parameters and like the callers\' variables, class and instance operations, bridges, a derived '
                   'attribute, an enumeration, constants) a BridgePoint model is synthesised (rows shuffled for every second one, '
                   'keyword case varied), built with mk_component, and the elements are invoked from OAL bodies (scripts: in '
                   'expressions, where clauses, loop conditions, for-each bodies) and from Python through find_symbol / class members; '
                   'TLC evaluates the same invocations with OalExec (Call, Derived) and compares every result and the final population',
           'samples': samples or [{'note': 'none'}], 'invocations_by_kind': kinds,
           'environments_outside_domain': st.get('notes', {}).get('OOD', 0),
           'model': 'OalExec.tla Call / Args / Derived / enumerators / constants; OalCallTrace.tla', 'exhaustive': False}
    evidence.write(PID, tier, 'model_checking', cov, t.s(), rep.n, [
        'parameters are integers (0..9), strings and booleans; every environment holds the fixed templates (seeded constants) and a random call graph of 3-5 functions (callgen.random_funcs: any function may call any other, the depth parameter bounds the recursion)',
        'a function that returns nothing is only invoked as a statement from OAL',
    ])
    return rc
