"""C10: names are case-insensitive and every spelling addresses one stored value."""
from .. import metacheck, metagen

PID = 'C10'
OPT = {'spell_attr': True, 'spell_class': True, 'serialize': True, 'spell_ident': True}
VALS = {'STRING': {'s:a', 's:b'}, 'UNIQUE_ID': {'u:0', 'u:9'}, 'INTEGER': {'i:7'}, 'BOOLEAN': {'b:1'}}


def random_runs(schema, rnd, tier, refs=False):
    """refs: creation calls also give referential attributes (by keyword, under the rotating spelling): values that match
    an instance, that match none, null"""
    runs = []
    for _ in range(12 if tier == 'quick' else 200):
        born = {c: 0 for c in schema['classes']}
        live = []
        acts = []
        for _ in range(80):
            k = rnd.random()
            if k < 0.2 or not live:
                c = rnd.choice(schema['classes'])
                born[c] += 1
                live.append((c, born[c]))
                plain = metagen.plain_attrs(schema, c)
                kw = {n: metagen.value_for(schema, c, n, rnd, 6) for n in plain if rnd.random() < 0.4}
                if refs:
                    for n in [a['n'] for a in schema['attrs'][c] if a['n'] not in plain]:
                        if rnd.random() < 0.5:
                            kw[n] = metagen.value_for(schema, c, n, rnd, 6)
                acts.append(['New', c, [], kw])
            elif k < 0.6:
                c, i = rnd.choice(live)
                n = rnd.choice([a['n'] for a in schema['attrs'][c]])
                # (now and then None is written: every spelling then reads None, and the null value is serialised)
                v = 'unset' if rnd.random() < 0.15 and n in metagen.plain_attrs(schema, c) else metagen.value_for(schema, c, n, rnd, 6)
                acts.append(['SetAttr', c, i, n, v])
            elif k < 0.75:
                c, i = rnd.choice(live)
                names = [a['n'] for a in schema['attrs'][c]]
                if refs:
                    # (a creation that gives referential values reads the identifying attributes of the instances it may
                    # refer to: those stay in place in these histories)
                    names = [n for n in names if not any(x['tgt'] == c and n in x['tkeys'] for x in schema['assocs'])] or names[:0]
                if names:
                    acts.append(['DelAttr', c, i, rnd.choice(names)])
            elif k < 0.8:
                x = rnd.choice(live)
                live.remove(x)
                acts.append(['Delete', x[0], x[1]])
            elif schema['assocs']:
                a = rnd.choice(schema['assocs'])
                xs = [i for i in live if i[0] == a['src']]
                ys = [i for i in live if i[0] == a['tgt']]
                if xs and ys:
                    x, y = rnd.choice(xs), rnd.choice(ys)
                    acts.append([rnd.choice(['Relate', 'Unrelate']), x[0], x[1], y[0], y[1], a['rel'], a['sphrase']])
        runs.append({'acts': acts})
    return runs


def plans():
    obs = metagen.battery(['sel', 'sel', 'sel', 'chk_id'], per_step=2, dup_eq=True, sticky_ids=2)
    obs_nav = metagen.battery(['nav', 'nav', 'sel', 'card'], per_step=2, dup_eq=True)
    return [
        {'name': 'spelling', 'schema': 'spelling', 'spec': 'SpecVal', 'alpha': {'new', 'set', 'del', 'link', 'delete'},
         'vals': VALS, 'bound': {'quick': {'Lk': 1, 'Kx': 1}, 'thorough': {'Lk': 2, 'Kx': 1}},
         'invariants': metacheck.INVARIANTS + ['OneValuePerName'], 'properties': ['RejectedIsNoop'],
         'must_cover': ('VSetAttr', 'VDelAttr', 'VRelate', 'VNewD'), 'budget': 14000, 'opt': OPT, 'obs': obs,
         'random': random_runs},
        {'name': 'valued', 'schema': 'valued', 'model': False, 'bound': 2, 'opt': OPT, 'obs': obs,
         'random': random_runs},
        {'name': 'mixed_case', 'schema': 'mixed_case', 'model': False, 'bound': 2, 'opt': OPT, 'obs': obs,
         'random': random_runs},
        {'name': 'keywords', 'schema': 'keywords', 'model': False, 'bound': 2, 'opt': OPT, 'obs': obs,
         'random': random_runs},
        # referential values given to the constructor (matching, dangling, null), then read under every spelling
        {'name': 'spelling_refs', 'schema': 'spelling', 'model': False, 'bound': 2, 'opt': OPT, 'obs': obs,
         'random': lambda schema, rnd, tier: random_runs(schema, rnd, tier, refs=True)},
        {'name': 'ref_middle_refs', 'schema': 'ref_middle', 'model': False, 'bound': 2, 'opt': OPT, 'obs': obs,
         'random': lambda schema, rnd, tier: random_runs(schema, rnd, tier, refs=True)},
    ] + [
        # class names under other spellings in navigation: directly, across an association class in one step, with phrases
        {'name': name + '_nav', 'schema': name, 'model': False, 'bound': 2, 'opt': OPT, 'obs': obs_nav, 'random': random_runs}
        for name in ('assoc_class', 'assoc_reflexive', 'reflexive_1m', 'subsuper')
    ]


def check(tier, replay_path=None):
    return metacheck.run_plans(
        PID, tier, plans(), replay_path,
        rule='one evaluation = one recorded call (new with keyword spellings, setattr, delattr, relate, unrelate, delete) '
             'issued under a rotating spelling (declared, lower, UPPER, swapped, mixed) of the attribute and class name; '
             'after every call every attribute of every live instance is read under the declared and four other '
             'spellings, serialised with serialize_instance and queried with where_eq under a spelling; TLC compares all '
             'of them with the single value the specification stores under the declared name',
        model_text='Meta.tla value alphabet (SpecVal: VNewD, VSetAttr, VDelAttr, VRelate, VUnrelate, VDelete) on a class with a '
                   'plain, an identifying and a referential attribute with two-letter stems; invariant OneValuePerName',
        assumptions=[
            'the five spellings cover all four case patterns of the two-letter name "Id" and three to five patterns of longer names',
            'deleting an attribute that holds no stored value (deleted already, or referential) may answer anything but must '
            'not change the model',
            'in the histories whose creation calls give referential values (plans *_refs) the identifying attributes that '
            'associations refer to are not deleted (the creation reads them)',
        ])
