"""Validate traces recorded from the implementation against a trace specification.

All traces of a shard are checked by one TLC process (see spec/TraceBase.tla);
shards run in parallel.  The verdict is total: every trace is either DONE or has
exactly one MISMATCH naming the step and the failing clause; anything else is a
machinery failure.
"""
import concurrent.futures
import json
import os
import re

from . import common, tlaval, tlc


class Verdict(object):
    def __init__(self, index, trace):
        self.index = index
        self.trace = trace
        self.ok = None
        self.step = None       # 1-based index of the failing event
        self.clause = None
        self.expected = None

    def event(self):
        return self.trace[self.step - 1] if self.step else None

    def __repr__(self):
        return 'Verdict(%d, ok=%s, step=%s, clause=%s)' % (self.index, self.ok, self.step, self.clause)


def _printed(out):
    """Extract values printed by PrintT that start with <<"DONE" or <<"MISMATCH"."""
    vals = []
    i = 0
    n = len(out)
    pat = re.compile(r'<<\s*"(?:DONE|MISMATCH)"')
    while True:
        m = pat.search(out, i)
        if not m:
            break
        j = m.start()
        # bracket matching, strings respected
        depth = 0
        k = j
        instr = False
        while k < n:
            c = out[k]
            if instr:
                if c == '\\':
                    k += 1
                elif c == '"':
                    instr = False
            elif c == '"':
                instr = True
            elif out.startswith('<<', k):
                depth += 1
                k += 1
            elif out.startswith('>>', k):
                depth -= 1
                k += 1
                if depth == 0:
                    break
            k += 1
        text = out[j:k + 1]
        try:
            vals.append(tlaval.parse(text))
        except Exception as e:
            raise common.MachineryError('cannot parse TLC output value %r: %s' % (text[:300], e))
        i = k + 1
    return vals


def _run_shard(args):
    cwd, module, cfg, path, timeout = args
    r = tlc.run(cwd, module, cfg, workers=1, timeout=timeout, env={'TRACE_FILE': path}, heap='3g')
    return r


def validate(module, cfg_consts, traces, modules=None, shards=None, timeout=1800, extra=None):
    """Returns (verdicts, stats).  cfg_consts: text of the CONSTANTS section."""
    t = common.Timer()
    if not traces:
        raise common.MachineryError('no traces to validate')
    for tr in traces:
        if not tr:
            raise common.MachineryError('empty trace recorded')
    steps = sum(len(x) for x in traces)
    if shards is None:
        shards = max(1, min(common.NCPU, steps // 1500 + 1, len(traces)))
    cwd = tlc.prepare_dir(modules, extra)
    cfg = 'TV_%s.cfg' % module
    with open(os.path.join(cwd, cfg), 'w') as f:
        f.write('%s\nINIT TInit\nNEXT TNext\nCHECK_DEADLOCK FALSE\n' % cfg_consts)
    # distribute round-robin by size
    order = sorted(range(len(traces)), key=lambda i: -len(traces[i]))
    buckets = [[] for _ in range(shards)]
    sizes = [0] * shards
    for i in order:
        b = sizes.index(min(sizes))
        buckets[b].append(i)
        sizes[b] += len(traces[i])
    jobs = []
    for b, idxs in enumerate(buckets):
        if not idxs:
            continue
        path = os.path.join(cwd, 'traces_%d.json' % b)
        with open(path, 'w') as f:
            json.dump([traces[i] for i in idxs], f)
        jobs.append((cwd, module, cfg, path, timeout))
    verdicts = [Verdict(i, traces[i]) for i in range(len(traces))]
    states = 0
    # (at most eight validating JVMs of 3g side by side: sixteen ran a 62 GB machine out of memory next to other checks)
    with concurrent.futures.ThreadPoolExecutor(max_workers=min(common.NCPU, 8)) as ex:
        results = list(ex.map(_run_shard, jobs))
    for (b, idxs), r in zip([(b, i) for b, i in enumerate(buckets) if i], results):
        errs = r.errors()
        if errs or not r.completed:
            os.makedirs(os.path.join(common.VERIF, 'out'), exist_ok=True)
            with open(os.path.join(common.VERIF, 'out', 'last_tlc_error.txt'), 'w') as f:
                f.write(r.out)
            raise common.MachineryError('TLC failed while validating traces with %s:\n%s' % (module, r.out[-5000:]))
        states += r.distinct
        seen = {}
        for v in _printed(r.out):
            local = v[1]
            if local in seen:
                raise common.MachineryError('two verdicts for trace %d' % local)
            seen[local] = v
        for local, gi in enumerate(idxs, 1):
            v = seen.get(local)
            vd = verdicts[gi]
            if v is None:
                raise common.MachineryError('no verdict for trace %d (shard %d) with %s:\n%s' % (gi, b, module, r.out[-3000:]))
            if v[0] == 'DONE':
                vd.ok = True
            else:
                vd.ok = False
                vd.step, vd.clause, vd.expected = v[2], v[3], v[4]
    notes = {}
    ood = []
    import re as _re
    for (b, idxs), r in zip([(b, i) for b, i in enumerate(buckets) if i], results):
        for tag in ('OOD',):
            notes[tag] = notes.get(tag, 0) + r.out.count('<<"%s"' % tag)
        for mm in _re.finditer(r'<<\s*"OOD",\s*(\d+),\s*(\d+)\s*>>', r.out):
            ood.append((idxs[int(mm.group(1)) - 1], int(mm.group(2))))
    stats = {'ood': ood, 'notes': notes, 'steps': steps, 'traces': len(traces), 'tlc_states': states, 'shards': len(jobs), 'wall_s': t.s()}
    return verdicts, stats
