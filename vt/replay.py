"""Run an adapter (a script executed by the repository's interpreter with the
scratch build first on PYTHONPATH) over a plan, in parallel chunks."""
import concurrent.futures
import json
import os

from . import build, common

ADAPTERS = os.path.join(os.path.dirname(os.path.abspath(__file__)), 'adapters')


def _one(args):
    adapter, plan, i, d, env, timeout = args
    pin = os.path.join(d, 'plan_%d.json' % i)
    pout = os.path.join(d, 'out_%d.json' % i)
    with open(pin, 'w') as f:
        json.dump(plan, f)
    rc, out = common.run([common.PY, os.path.join(ADAPTERS, adapter + '.py'), pin, pout],
                         env=env, cwd=d, timeout=timeout)
    if rc != 0 or not os.path.exists(pout):
        raise common.MachineryError('adapter %s failed (rc=%s):\n%s' % (adapter, rc, out[-4000:]))
    with open(pout) as f:
        return json.load(f)


def replay(adapter, header, runs, chunks=None, timeout=1800):
    """header: dict shared by all chunks; runs: list of behaviours.  Returns the
    list of recorded traces, one per run, in order."""
    d, env = build.build()
    work = common.scratch('vt-replay-')
    if chunks is None:
        chunks = max(1, min(common.NCPU, len(runs) // 2))
    parts = [runs[i::chunks] for i in range(chunks)]
    jobs = []
    for i, p in enumerate(parts):
        plan = dict(header)
        plan['runs'] = p
        jobs.append((adapter, plan, i, work, env, timeout))
    with concurrent.futures.ThreadPoolExecutor(max_workers=common.NCPU) as ex:
        outs = list(ex.map(_one, jobs))
    traces = [None] * len(runs)
    for i, o in enumerate(outs):
        if len(o) != len(parts[i]):
            raise common.MachineryError('adapter %s returned %d traces for %d runs' % (adapter, len(o), len(parts[i])))
        for k, tr in enumerate(o):
            traces[i + k * chunks] = tr
    return traces
