"""The ooaofooa schema (bridgepoint/schema.py of the working tree) read by the harness itself: the three statement forms
of that text are regular, so a few patterns give the classes, associations and identifiers in the shape of vt/schemas.py
without going through pyxtuml.  sub(P) is the part of the schema that decides the consistency counts of a population
confined to the classes P: P, every class related to one of them, and every association among those classes."""
import ast
import os
import re
import uuid

from . import common

_TABLE = re.compile(r'CREATE\s+TABLE\s+(\w+)\s*\((.*?)\)\s*;', re.S)
_END = r"(1C|MC|1|M)\s+(\w+)\s*\(([^)]*)\)(?:\s+PHRASE\s+'([^']*)')?"
_ROP = re.compile(r"CREATE\s+ROP\s+REF_ID\s+(R\d+)\s+FROM\s+" + _END + r"\s+TO\s+" + _END + r"\s*;")
_INDEX = re.compile(r'CREATE\s+UNIQUE\s+INDEX\s+(\w+)\s+ON\s+(\w+)\s*\(([^)]*)\)\s*;')
_INSERT = re.compile(r"INSERT\s+INTO\s+(\w+)\s+VALUES\s*\((.*?)\)\s*;", re.S)


def texts(repo=None):
    """the string constants of bridgepoint/schema.py (the module is data only; it is not imported)"""
    path = os.path.join(repo or common.REPO, 'bridgepoint', 'schema.py')
    tree = ast.parse(open(path, encoding='utf-8').read())
    out = {}
    for node in tree.body:
        if isinstance(node, ast.Assign) and isinstance(node.value, ast.Constant) and isinstance(node.value.value, str):
            out[node.targets[0].id] = node.value.value
    return out


def full(repo=None):
    t = texts(repo)
    classes, attrs = [], {}
    for name, body in _TABLE.findall(t['classes']):
        classes.append(name)
        attrs[name] = [{'n': a.split()[0], 't': a.split()[1].upper()} for a in body.split(',') if a.strip()]

    def declared(c, names):
        low = {a['n'].lower(): a['n'] for a in attrs[c]}
        return [low[n.strip().lower()] for n in names.split(',')]
    assocs = []
    for rel, sc, s, sk, sp, tc, tg, tk, tp in _ROP.findall(t['associations']):
        assocs.append({'rel': rel, 'src': s, 'skeys': declared(s, sk), 'smany': 'M' in sc, 'scond': 'C' in sc, 'sphrase': sp,
                       'tgt': tg, 'tkeys': declared(tg, tk), 'tmany': 'M' in tc, 'tcond': 'C' in tc, 'tphrase': tp})
    uniques = {c: [] for c in classes}
    for name, c, names in _INDEX.findall(t['indices']):
        uniques[c].append({'name': name, 'attrs': declared(c, names)})
    n = {k: len(re.findall(r'CREATE\s', t[k])) for k in ('classes', 'associations', 'indices')}
    if (len(classes), len(assocs), sum(len(u) for u in uniques.values())) != (n['classes'], n['associations'], n['indices']):
        raise common.MachineryError('bridgepoint/schema.py holds statements the harness patterns do not read')
    return {'classes': classes, 'attrs': attrs, 'assocs': assocs, 'uniques': uniques}


def sub(schema, P):
    near = set(P)
    for a in schema['assocs']:
        if a['src'] in P or a['tgt'] in P:
            near.update((a['src'], a['tgt']))
    classes = [c for c in schema['classes'] if c in near]
    return {'classes': classes, 'attrs': {c: schema['attrs'][c] for c in classes},
            'assocs': [a for a in schema['assocs'] if a['src'] in near and a['tgt'] in near],
            'uniques': {c: schema['uniques'][c] for c in classes}, 'populated': [c for c in classes if c in P]}


def _values(text):
    out, cur, q = [], '', False
    i = 0
    while i < len(text):
        ch = text[i]
        if q:
            if ch == "'" and text[i + 1:i + 2] == "'":
                cur += "'"
                i += 1
            elif ch == "'":
                q = False
            else:
                cur += ch
        elif ch == "'":
            q = True
            cur += '\x00'                      # marks a string literal
        elif ch == ',':
            out.append(cur.strip())
            cur = ''
        else:
            cur += ch
        i += 1
    out.append(cur.strip())
    return out


def global_rows(schema, repo=None):
    """the predefined rows (option -g) as rows of the specification: {'c': class, 'v': {attribute: token}}"""
    rows = []
    for c, body in _INSERT.findall(texts(repo)['globals']):
        v = {}
        for a, lit in zip(schema['attrs'][c], _values(body)):
            if a['t'] == 'UNIQUE_ID':
                v[a['n']] = 'u:%d' % uuid.UUID(lit.strip('"')).int
            elif a['t'] == 'STRING':
                v[a['n']] = 's:' + lit.lstrip('\x00')
            elif a['t'] == 'INTEGER':
                v[a['n']] = 'i:%d' % int(lit)
            elif a['t'] == 'BOOLEAN':
                v[a['n']] = 'b:%d' % int(lit)
            else:
                raise common.MachineryError('global row with a %s value' % a['t'])
        rows.append({'c': c, 'v': v})
    return rows
