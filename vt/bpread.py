"""The abstract class diagram of a real BridgePoint model file, read by the harness itself: the INSERT statements of the
file are taken apart with a few patterns (column names from bridgepoint/schema.py via vt/ooaschema.py, no pyxtuml), and
the rows that describe classes, attributes, identifiers, relationships, data types and containment are turned into the
diagram form of spec/BpModel.tla.  This is the reading direction concrete -> abstract of vt/adapters/_bp.py."""
import re
import uuid

from . import common, ooaschema

_STMT = re.compile(r"INSERT\s+INTO\s+(\w+)\s+VALUES\s*\(", re.S)


def statements(text):
    """-> [(table, [literal, ...], statement text)]; string literals keep their quotes"""
    out = []
    pos = 0
    while True:
        m = _STMT.search(text, pos)
        if not m:
            break
        i = m.end()
        vals, cur, q = [], '', False
        while True:
            ch = text[i]
            if q:
                cur += ch
                if ch == "'":
                    if text[i + 1:i + 2] == "'":
                        cur += "'"
                        i += 1
                    else:
                        q = False
            elif ch == "'":
                q = True
                cur += ch
            elif ch == ',':
                vals.append(cur.strip())
                cur = ''
            elif ch == ')':
                vals.append(cur.strip())
                break
            else:
                cur += ch
            i += 1
        end = text.index(';', i) + 1
        out.append((m.group(1), vals, text[m.start():end] + '\n'))
        pos = end
    return out


def _value(lit, ty):
    if ty == 'UNIQUE_ID':
        return uuid.UUID(lit.strip('"')).int if '"' in lit else int(lit)
    if ty == 'STRING':
        return lit[1:-1].replace("''", "'")
    if ty == 'BOOLEAN':
        return bool(int(lit)) if lit.isdigit() else lit.upper() == 'TRUE'
    if ty == 'REAL':
        return float(lit)
    return int(lit)


def rows_of(text, schema):
    rows = {}
    for table, vals, _ in statements(text):
        if table not in schema['attrs']:
            continue                      # (graphics rows: not part of the ooaofooa schema)
        cols = schema['attrs'][table]
        if len(vals) > len(cols):
            raise common.MachineryError('row of %s with %d values' % (table, len(vals)))
        # (a file written by an older BridgePoint may lack the last columns of a table)
        rows.setdefault(table, []).append({a['n']: _value(v, a['t']) for a, v in zip(cols, vals)})
    return rows


def diagram(text, repo=None):
    """the class diagram the rows of a model file describe"""
    schema = ooaschema.full(repo)
    R = rows_of(text, schema)
    G = lambda t: R.get(t, [])
    # data type names: those of the file and the predefined ones
    dt = {}
    for r in ooaschema.global_rows(schema, repo):
        if r['c'] == 'S_DT':
            dt[int(r['v']['DT_ID'][2:])] = r['v']['Name'][2:]
    for r in G('S_DT'):
        dt[r['DT_ID']] = r['Name']
    # containment: element -> component name ('' outside every component)
    pe = {r['Element_ID']: r for r in G('PE_PE')}
    comp_name = {r['Id']: r['Name'] for r in G('C_C')}

    def comp_of(eid, fuel=20):
        p = pe.get(eid)
        if p is None or fuel == 0:
            return ''
        if p['Component_ID']:
            return comp_name.get(p['Component_ID'], '')
        if p['Package_ID']:
            return comp_of(p['Package_ID'], fuel - 1)
        return ''

    def chain(items, key, prev):
        """items ordered by their predecessor references"""
        by_prev = {x[prev]: x for x in items}
        out, cur = [], by_prev.get(0)
        while cur is not None and len(out) <= len(items):
            out.append(cur)
            cur = by_prev.get(cur[key])
        return out
    enums = []
    for e in G('S_EDT'):
        items = chain([x for x in G('S_ENUM') if x['EDT_DT_ID'] == e['DT_ID']], 'Enum_ID', 'Previous_Enum_ID')
        enums.append({'n': dt[e['DT_ID']], 'items': [x['Name'] for x in items], 'comp': comp_of(e['DT_ID'])})
    udts = [{'n': dt[u['DT_ID']], 'base': dt[u['CDT_DT_ID']], 'comp': comp_of(u['DT_ID'])} for u in G('S_UDT')]
    obj = {o['Obj_ID']: o for o in G('O_OBJ')}
    attr = {a['Attr_ID']: a for a in G('O_ATTR')}
    refattrs = set(a['Attr_ID'] for a in G('O_RATTR'))
    derived = set(a['Attr_ID'] for a in G('O_DBATTR'))
    classes = []
    for o in G('O_OBJ'):
        attrs = []
        for a in chain([x for x in G('O_ATTR') if x['Obj_ID'] == o['Obj_ID']], 'Attr_ID', 'PAttr_ID'):
            k = 'ref' if a['Attr_ID'] in refattrs else 'derived' if a['Attr_ID'] in derived else 'base'
            attrs.append({'n': a['Name'], 'k': k, 'ty': '' if k == 'ref' else dt.get(a['DT_ID'], '?')})
        ids = []
        for i in sorted(x['Oid_ID'] for x in G('O_ID') if x['Obj_ID'] == o['Obj_ID']):
            while len(ids) < i:
                ids.append([])
            ids.append([attr[x['Attr_ID']]['Name'] for x in G('O_OIDA') if x['Obj_ID'] == o['Obj_ID'] and x['Oid_ID'] == i])
        classes.append({'kl': o['Key_Lett'], 'name': o['Name'], 'comp': comp_of(o['Obj_ID']), 'attrs': attrs, 'ids': ids})
    kl = lambda oid: obj[oid]['Key_Lett']

    def pairs(rel_id, rgo_obj, rto_obj, roir=None):
        return [[attr[x['Attr_ID']]['Name'], attr[x['RAttr_ID']]['Name']] for x in G('O_REF')
                if x['Rel_ID'] == rel_id and x['Obj_ID'] == rgo_obj and x['RObj_ID'] == rto_obj and (roir is None or x['ROIR_ID'] == roir)]
    rels = []
    one = lambda t, rid: [x for x in G(t) if x['Rel_ID'] == rid]
    for r in G('R_REL'):
        rid = r['Rel_ID']
        base = {'num': r['Numb'], 'comp': comp_of(rid)}
        if one('R_SIMP', rid):
            p, f = one('R_PART', rid)[0], one('R_FORM', rid)[0]
            rels.append(dict(base, k='simple', form=kl(f['Obj_ID']), part=kl(p['Obj_ID']), fm=f['Mult'], fc=f['Cond'], pm=p['Mult'],
                             pc=p['Cond'], fph=f['Txt_Phrs'], pph=p['Txt_Phrs'], keys=pairs(rid, f['Obj_ID'], p['Obj_ID'])))
        elif one('R_ASSOC', rid):
            a, b, l = one('R_AONE', rid)[0], one('R_AOTH', rid)[0], one('R_ASSR', rid)[0]
            rels.append(dict(base, k='linked', one=kl(a['Obj_ID']), oth=kl(b['Obj_ID']), link=kl(l['Obj_ID']), lm=l['Mult'],
                             om=a['Mult'], oc=a['Cond'], oph=a['Txt_Phrs'], tm=b['Mult'], tc=b['Cond'], tph=b['Txt_Phrs'],
                             okeys=pairs(rid, l['Obj_ID'], a['Obj_ID'], a['OIR_ID']),
                             tkeys=pairs(rid, l['Obj_ID'], b['Obj_ID'], b['OIR_ID'])))
        elif one('R_SUBSUP', rid):
            s = one('R_SUPER', rid)[0]
            subs = [kl(x['Obj_ID']) for x in one('R_SUB', rid)]
            rels.append(dict(base, k='subsup', sup=kl(s['Obj_ID']), subs=subs,
                             keys={kl(x['Obj_ID']): pairs(rid, x['Obj_ID'], s['Obj_ID']) for x in one('R_SUB', rid)}))
    # a component whose own packageable element lies inside another component is nested in it
    nest = [[comp_name[cid], comp_of(cid)] for cid in sorted(comp_name) if comp_of(cid)]
    return {'comps': sorted(comp_name.values()), 'nest': nest, 'enums': enums, 'udts': udts, 'classes': classes, 'rels': rels}
