"""Shared pipeline of the Meta.tla family: model-check a schema shape, derive
transition tours / simulated behaviours, replay them on a real MetaModel and let
TLC validate the recorded traces."""
import os

from . import common, replay, schemas, sim, tlagen, tlc, tours, trace

MODS = ['Meta', 'MetaTrace', 'TraceBase', 'MC_Meta', 'MC_MetaTrace']
INVARIANTS = ['TypeOK', 'Symmetric', 'OnlyLive', 'Bounded', 'RefReadOK', 'FreshIds']
PROPERTIES = ['RejectedIsNoop']


def to_act(label):
    """action label of the dumped state graph / simulation -> adapter call"""
    name, args = tours.parse_label(label)
    if name == 'HNew':
        return ['New', args[0], [], {}]
    if name in ('HRelate', 'HUnrelate'):
        x, y, r, p = args
        return [name[1:], x[0], x[1], y[0], y[1], r, p]
    if name == 'HDelete':
        return ['Delete', args[0][0], args[0][1]]
    if name == 'HRelateNone':
        return ['RelateNone']
    out = [name[1:] if name.startswith('H') else name]
    for a in args:
        if isinstance(a, frozenset):
            a = sorted(a)
        out.append(a)
    return out


def mc_files(schema, bound, maxi=None, genkind='int', userids=(), spec='Spec', invariants=INVARIANTS,
             properties=PROPERTIES, extra_consts=None):
    c = schemas.constants(schema, maxi or bound, genkind, userids)
    c['Bound'] = {k: bound for k in schema['classes']} if isinstance(bound, int) else dict(bound)
    c.update(extra_consts or {})
    mod = tlagen.mc_module('MC_Meta', ['Meta'], c)
    cfg = tlagen.cfg_constants(c) + 'SPECIFICATION %s\n' % spec
    cfg += ''.join('INVARIANT %s\n' % i for i in invariants)
    cfg += ''.join('PROPERTY %s\n' % p for p in properties)
    cfg += 'CHECK_DEADLOCK FALSE\n'
    return mod, cfg, c


def trace_files(schema, maxi, genkind='int', userids=(), extra_consts=None, module='MetaTrace'):
    c = schemas.constants(schema, maxi, genkind, userids)
    c['Bound'] = {k: maxi for k in schema['classes']}
    c.update(extra_consts or {})
    mod = tlagen.mc_module('MC_' + module, [module], c)
    return mod, tlagen.cfg_constants(c)


def model_check(schema, bound, dump=True, timeout=1200, workers=None,
                must_cover=('HNew', 'HRelate', 'HUnrelate', 'HDelete'), **kw):
    mod, cfg, _ = mc_files(schema, bound, **kw)
    d = tlc.prepare_dir(['Meta'], {'MC_Meta.tla': mod, 'mc.cfg': cfg})
    args = ()
    dot = os.path.join(d, 'g.dot')
    if dump:
        args = ('-dump', 'dot,actionlabels', dot)
    r = tlc.check_model(d, 'MC_Meta', 'mc.cfg', args=args, timeout=timeout, workers=workers)
    g = None
    if dump:
        g = tours.parse_dot(dot)
        os.remove(dot)
        for a in must_cover:
            if not g.actions.get(a):
                raise common.MachineryError('vacuous model: action %s never taken' % a)
    return r, g, d


def max_ordinal(runs):
    """largest number of New calls of one class in any run (for MaxI of the trace spec)"""
    m = 1
    for r in runs:
        cnt = {}
        for a in r['acts']:
            if a[0] in ('New', 'NewRef', 'Clone'):
                cnt[a[1]] = cnt.get(a[1], 0) + 1
        if cnt:
            m = max(m, max(cnt.values()))
    return m


def replay_validate(schema, runs, header=None, maxi=None, genkind='int', userids=(), extra_consts=None,
                    module='MetaTrace', adapter='meta'):
    hdr = {'schema': schema, 'gen': genkind, 'userids': list(userids)}
    hdr.update(header or {})
    traces = replay.replay(adapter, hdr, runs)
    maxi = maxi or max_ordinal(runs)
    mod, consts = trace_files(schema, maxi, genkind, userids, extra_consts, module)
    verdicts, st = trace.validate('MC_' + module, consts, traces,
                                  modules=['Meta', 'MetaTrace', 'TraceBase', module],
                                  extra={'MC_%s.tla' % module: mod})
    return traces, verdicts, st
