"""Shared pipeline of the Meta.tla family: model-check a schema shape, derive
transition tours / simulated behaviours, replay them on a real MetaModel and let
TLC validate the recorded traces."""
import json
import os

from . import common, replay, schemas, sim, tlagen, tlc, tours, trace

MODS = ['Meta', 'MetaTrace', 'TraceBase', 'MC_Meta', 'MC_MetaTrace']
INVARIANTS = ['TypeOK', 'Symmetric', 'OnlyLive', 'Bounded', 'RefReadOK', 'FreshIds']
PROPERTIES = ['RejectedIsNoop']


def to_act(label):
    """action label of the dumped state graph / simulation -> adapter call"""
    name, args = tours.parse_label(label)
    if name == 'HNew':
        return ['New', args[0], [], {}]
    if name in ('HRelate', 'HUnrelate'):
        x, y, r, p = args
        return [name[1:], x[0], x[1], y[0], y[1], r, p]
    if name == 'HDelete':
        return ['Delete', args[0][0], args[0][1]]
    if name == 'HRelateNone':
        return ['RelateNone']
    if name == 'VNewD':
        return ['New', args[0], [], {}]
    if name == 'VNew':
        kw = args[2]
        if isinstance(kw, list):      # TLC prints a function with domain 1..n as a tuple; never for string keys
            kw = {}
        return ['New', args[0], list(args[1]) if not isinstance(args[1], dict) else [], dict(kw)]
    if name == 'VNewUnknown':
        return ['NewUnknown', args[0]]
    if name == 'VSetAttr':
        return ['SetAttr', args[0][0], args[0][1], args[1], args[2]]
    if name == 'VDelAttr':
        return ['DelAttr', args[0][0], args[0][1], args[1]]
    if name in ('VGenNext', 'VGenPeek'):
        return [name[1:]]
    if name in ('VRelate', 'VUnrelate'):
        x, y, r, p = args
        return [name[1:], x[0], x[1], y[0], y[1], r, p]
    if name == 'VDelete':
        return ['Delete', args[0][0], args[0][1]]
    if name == 'VLoad':
        rows = args[0] if isinstance(args[0], list) else []
        return ['LoadBuild', [dict(r) for r in rows], {}]
    if name == 'VLoadInto':
        rows = args[0] if isinstance(args[0], list) else []
        return ['LoadInto', [dict(r) for r in rows]]
    if name == 'VSaveLoad':
        return ['SaveLoad', {}]
    out = [name[1:] if name.startswith('H') else name]
    for a in args:
        if isinstance(a, frozenset):
            a = sorted(a)
        out.append(a)
    return out


def mc_files(schema, bound, maxi=None, genkind='int', userids=(), spec='Spec', invariants=INVARIANTS,
             properties=PROPERTIES, extra_consts=None):
    c = schemas.constants(schema, maxi or bound, genkind, userids)
    c['Bound'] = {k: bound for k in schema['classes']} if isinstance(bound, int) else dict(bound)
    c.update(extra_consts or {})
    mod = tlagen.mc_module('MC_Meta', ['MetaObs'], c)
    cfg = tlagen.cfg_constants(c) + 'SPECIFICATION %s\n' % spec
    cfg += ''.join('INVARIANT %s\n' % i for i in invariants)
    cfg += ''.join('PROPERTY %s\n' % p for p in properties)
    cfg += 'CHECK_DEADLOCK FALSE\n'
    return mod, cfg, c


def trace_files(schema, maxi, genkind='int', userids=(), extra_consts=None, module='MetaTrace'):
    c = schemas.constants(schema, maxi, genkind, userids)
    c['Bound'] = {k: maxi for k in schema['classes']}
    c.update(extra_consts or {})
    mod = tlagen.mc_module('MC_' + module, [module], c)
    return mod, tlagen.cfg_constants(c)


def model_check(schema, bound, dump=True, timeout=1200, workers=None,
                must_cover=('HNew', 'HRelate', 'HUnrelate', 'HDelete'), **kw):
    mod, cfg, _ = mc_files(schema, bound, **kw)
    d = tlc.prepare_dir(['Meta', 'MetaObs'], {'MC_Meta.tla': mod, 'mc.cfg': cfg})
    args = ()
    dot = os.path.join(d, 'g.dot')
    if dump:
        args = ('-dump', 'dot,actionlabels', dot)
    r = tlc.check_model(d, 'MC_Meta', 'mc.cfg', args=args, timeout=timeout, workers=workers)
    g = None
    if dump:
        g = tours.parse_dot(dot)
        os.remove(dot)
        for a in must_cover:
            if not g.actions.get(a):
                raise common.MachineryError('vacuous model: action %s never taken' % a)
    return r, g, d


def max_ordinal(runs):
    """largest number of New calls of one class in any run (for MaxI of the trace spec)"""
    m = 1
    for r in runs:
        cnt = {}
        for a in r['acts']:
            if a[0] in ('New', 'NewRef', 'Clone'):
                cnt[a[1]] = cnt.get(a[1], 0) + 1
            elif a[0] == 'NewRow':
                cnt[a[1]['c']] = cnt.get(a[1]['c'], 0) + 1
            elif a[0] in ('LoadBuild', 'LoadInto'):
                for row in a[1]:
                    cnt[row['c']] = cnt.get(row['c'], 0) + 1
        if cnt:
            m = max(m, max(cnt.values()))
    return m


def replay_validate(schema, runs, header=None, maxi=None, genkind='int', userids=(), extra_consts=None,
                    module='MetaTrace', adapter='meta'):
    hdr = {'schema': schema, 'gen': genkind, 'userids': list(userids)}
    hdr.update(header or {})
    traces = replay.replay(adapter, hdr, runs)
    maxi = maxi or max_ordinal(runs)
    mod, consts = trace_files(schema, maxi, genkind, userids, extra_consts, module)
    verdicts, st = trace.validate('MC_' + module, consts, traces,
                                  modules=['Meta', 'MetaObs', 'MetaTrace', 'TraceBase', module],
                                  extra={'MC_%s.tla' % module: mod})
    return traces, verdicts, st


# ---------------------------------------------------------------------------
# generic plan runner shared by the properties decided with the Meta family
import concurrent.futures
import random as _random

from . import evidence as _evidence


def _plan_job(args):
    plan, tier, seed = args
    schema = schemas.SCHEMAS[plan['schema']]
    rnd = _random.Random(seed * 1009 + sum(map(ord, plan['name'])))
    bound = plan['bound'][tier] if isinstance(plan['bound'], dict) and tier in plan['bound'] else plan['bound']
    maxb = bound if isinstance(bound, int) else max(bound.values())
    extra = {}
    if 'alpha' in plan:
        extra['Alpha'] = set(plan['alpha'])
    if 'vals' in plan:
        extra['Vals'] = plan['vals']
    if 'rowchoices' in plan:
        extra['RowChoices'] = tlagen.SetOf(plan['rowchoices'])
        extra['MaxRows'] = plan['maxrows'][tier] if isinstance(plan['maxrows'], dict) else plan['maxrows']
    genkind = plan.get('gen', 'int')
    userids = plan.get('userids', ())
    r = g = None
    runs = []
    covered = total = 0
    if plan.get('model', True):
        r, g, d = model_check(schema, bound, maxi=maxb, workers=plan.get('workers', 4), spec=plan.get('spec', 'Spec'),
                              invariants=plan.get('invariants', INVARIANTS), properties=plan.get('properties', PROPERTIES),
                              must_cover=plan.get('must_cover', ()), extra_consts=extra, genkind=genkind if genkind != 'uuid' else 'int',
                              userids=userids, timeout=plan.get('timeout', 1500))
        # (thorough: a tour of every edge of a graph with millions of edges takes hours in this harness; the default is a
        # budget twenty times the quick one, plans with small graphs ask for everything with budget_thorough=None)
        budget = plan.get('budget', 6000) if tier == 'quick' else plan.get('budget_thorough', 20 * plan.get('budget', 6000))
        stages = plan.get('stages') or [(lambda lab, dst: True, 1.0)]
        if plan.get('state_cover'):
            stages = [(tours.bfs_tree_edges(g), plan['state_cover'])] + list(stages)
        ts, covered, total = tours.staged_tours(g, stages, maxlen=plan.get('maxlen', 40), budget=budget, seed=seed)
        runs += [{'acts': [to_act(l) for l in t], 'src': 'tour'} for t in ts]
        simc = plan.get('sim')
        if simc:
            num, depth, sb = simc[tier]
            mod, cfg, _ = mc_files(schema, sb, maxi=sb if isinstance(sb, int) else max(sb.values()),
                                   spec=plan.get('spec', 'Spec'), invariants=[], properties=[],
                                   extra_consts=extra, genkind=genkind if genkind != 'uuid' else 'int', userids=userids)
            with open(os.path.join(d, 'MC_Meta.tla'), 'w') as f:
                f.write(mod)
            with open(os.path.join(d, 'sim.cfg'), 'w') as f:
                f.write(cfg)
            beh = sim.simulate(d, 'MC_Meta', 'sim.cfg', num=num, depth=depth, seed=seed + 7, workers=2)
            runs += [{'acts': [to_act(l) for l in b], 'src': 'simulate'} for b in beh]
    if plan.get('random'):
        for x in plan['random'](schema, rnd, tier):
            x.setdefault('src', 'random')
            runs.append(x)
    if plan.get('decorate'):
        for k, x in enumerate(runs):
            plan['decorate'](x, k, rnd)
    if plan.get('obs'):
        for x in runs:
            if 'obs' not in x:
                x['obs'] = plan['obs'](schema, x['acts'], rnd)
    if not runs:
        raise common.MachineryError('plan %s produced no behaviours' % plan['name'])
    # (every run shares its process with a metamodel of the same class / attribute / association names and other attribute
    # types - adapter shadow_prelude: metamodels are independent, so nothing of it may show)
    traces, verdicts, st = replay_validate(schema, runs, header={'opt': dict(plan.get('opt') or {}, shadow=True)}, genkind=genkind,
                                           userids=userids)
    return plan, bound, r, g, covered, total, runs, verdicts, st


def to_act_value(label):
    return to_act(label)


def run_plans(pid, tier, plans, replay_path, rule, model_text, assumptions, sig_extra=None, parallel=4):
    t = common.Timer()
    rep = _evidence.Report(pid)
    seed = common.seed()
    if replay_path:
        obj = common.read_json(replay_path)
        plan = dict([p for p in plans if p['name'] == obj['plan']][0])
        plan['model'] = False
        run = {'acts': obj['acts'], 'src': 'replay'}
        if obj.get('obs'):
            run['obs'] = obj['obs']
        plan['random'] = lambda schema, rnd, tier: [run]
        plan['obs'] = None
        results = [_plan_job((plan, tier, seed))]
    else:
        with concurrent.futures.ThreadPoolExecutor(max_workers=parallel) as ex:
            results = list(ex.map(_plan_job, [(p, tier, seed) for p in plans]))
    cov = {'states': 0, 'transitions': 0, 'traces_validated_against_impl': 0, 'evaluations': 0,
           'tour_edges_covered': 0, 'tour_edges_total': 0, 'plans': {}, 'calls_per_outcome': {},
           'observations_checked': 0, 'observations_by_kind': {}}
    distinct = set()
    samples = []
    for plan, bound, r, g, covered, total, runs, verdicts, st in results:
        name = plan['name']
        if r:
            cov['states'] += r.distinct
            cov['transitions'] += r.generated
        cov['plans'][name] = {'schema': plan['schema'], 'bound': bound, 'states': r.distinct if r else 0,
                              'transitions': r.generated if r else 0,
                              'edges_by_action': dict(g.actions) if g else {}, 'tour_edges_covered': covered,
                              'tour_edges_total': total, 'traces': len(runs), 'steps': st['steps']}
        cov['tour_edges_covered'] += covered
        cov['tour_edges_total'] += total
        cov['evaluations'] += st['steps']
        for v, run in zip(verdicts, runs):
            pre = None
            upto = len(v.trace) if v.ok else v.step
            for e in v.trace[:upto]:
                key = '%s/%s' % (e['op'], e['res'] if not e['res'].startswith('u:') else 'id')
                cov['calls_per_outcome'][key] = cov['calls_per_outcome'].get(key, 0) + 1
                post = (str(e['pool']), str(e['nav']), str(e['attr']))
                if post != pre or e['res'] not in ('True', 'none'):
                    distinct.add((name, e['op'], str(e.get('x', e.get('c'))), str(e.get('y', e.get('n'))),
                                  str(e.get('rel', e.get('v'))), e.get('ph'), pre))
                pre = post
                for q, qr in zip(e.get('q', []), e.get('qr', [])):
                    cov['observations_checked'] += 1
                    cov['observations_by_kind'][q['k']] = cov['observations_by_kind'].get(q['k'], 0) + 1
                    distinct.add((name, 'obs', json.dumps(q, sort_keys=True), json.dumps(qr, sort_keys=True)))
            if v.ok:
                cov['traces_validated_against_impl'] += 1
                if len(samples) < 3 and (len(v.trace) > 6 or plan.get('maxlen', 40) < 6 or not r):
                    samples.append({'plan': name, 'source': run['src'],
                                    'calls': [[e['op'], e.get('x', e.get('c')), e.get('y', e.get('n')),
                                               e.get('rel', e.get('v')), e.get('ph'), e['res']] for e in v.trace[:10]],
                                    'observations': [[q, qr] for e in v.trace[:10]
                                                     for q, qr in zip(e.get('q', []), e.get('qr', []))][:4]})
            else:
                e = v.event()
                sig = {'plan': name, 'op': e['op'], 'res': e['res'], 'clause': v.clause}
                if v.clause == 'query' and v.expected:
                    sig['query'] = v.expected[0].get('k') if isinstance(v.expected[0], dict) else str(v.expected[0])
                if sig_extra:
                    sig.update(sig_extra(e, v))
                rep.failure(sig, {'plan': name, 'acts': run['acts'][:v.step], 'obs': (run.get('obs') or [])[:v.step],
                                  'step': v.step, 'clause': v.clause, 'event': e, 'spec_expected': repr(v.expected)[:3000]})
    rc = rep.finish()
    if replay_path:
        return rc
    cov['distinct_nontrivial'] = len(distinct)
    cov['rule'] = rule
    cov['samples'] = samples or [{'note': 'none'}]
    cov['model'] = model_text
    cov['exhaustive'] = bool(tier == 'thorough' and cov['tour_edges_total'] > 0 and
                             cov['tour_edges_covered'] == cov['tour_edges_total'])
    _evidence.write(pid, tier, 'model_checking', cov, t.s(), rep.n, assumptions)
    return rc
