"""Render token sequences of OalSyntax.tla as OAL text (layout, comments, optional
words, keyword case), parse the text with the real parser and record the syntax
tree in the specification's vocabulary plus the source position of every
statement and expression node.  usage: oal.py plan.json out.json
plan: {"runs": [{"items": [{"body": tree, "toks": [...], "seed": n, "case": mode, "layout": mode}]}]}"""
import json
import os
import sys

sys.path.insert(0, os.path.dirname(os.path.abspath(__file__)))
from _util import limit, CallTimeout

import bridgepoint.oal as oal

from oal_render import render, KEYWORDS


# ---- real syntax tree -> specification vocabulary ----
class Conv(object):
    def __init__(self, text):
        self.text = text
        self.nodes = []

    def note(self, node, k):
        p = node.position
        cs = node.character_stream
        try:
            self.nodes.append({'k': k, 'sl': p.start_line, 'sc': p.start_column, 'el': p.end_line, 'ec': p.end_column,
                               'so': p.start_stream, 'eo': p.end_stream,
                               'cs': bool(cs == self.text[p.start_stream:p.end_stream])})
        except AttributeError:
            self.nodes.append({'k': k, 'sl': -1, 'sc': -1, 'el': -1, 'ec': -1, 'so': -1, 'eo': -1, 'cs': False})

    def params(self, plist):
        out = []
        for p in plist.children:
            assert isinstance(p, oal.ParameterNode), p
            out.append((p.name, p.expression))
        return out

    def expr(self, n):
        T = type(n)
        if T is oal.BinaryOperationNode:
            self.note(n, 'bin')
            l = self.expr(n.left)
            r = self.expr(n.right)
            return {'t': 'bin', 'op': n.operator.lower(), 'l': l, 'r': r}
        if T is oal.UnaryOperationNode:
            self.note(n, 'un')
            return {'t': 'un', 'op': n.operator.lower(), 'e': self.expr(n.operand)}
        if T is oal.IntegerNode:
            self.note(n, 'int')
            return {'t': 'int', 'v': n.value}
        if T is oal.RealNode:
            self.note(n, 'real')
            return {'t': 'real', 'v': n.value}
        if T is oal.StringNode:
            self.note(n, 'str')
            return {'t': 'str', 'v': n.value}
        if T is oal.BooleanNode:
            self.note(n, 'bool')
            return {'t': 'bool', 'v': n.value.lower()}
        if T is oal.EnumOrNamedConstantNode:
            self.note(n, 'enum')
            return {'t': 'enum', 'ns': n.namespace, 'n': n.name}
        if T is oal.SelfAccessNode:
            self.note(n, 'self')
            return {'t': 'self'}
        if T is oal.SelectedAccessNode:
            self.note(n, 'selected')
            return {'t': 'selected'}
        if T is oal.VariableAccessNode:
            self.note(n, 'var')
            return {'t': 'var', 'n': n.variable_name}
        if T is oal.ParamAccessNode:
            self.note(n, 'param')
            return {'t': 'param', 'n': n.variable_name}
        if T is oal.FieldAccessNode:
            self.note(n, 'field')
            return {'t': 'field', 'h': self.expr(n.handle), 'n': n.name}
        if T is oal.IndexAccessNode:
            self.note(n, 'index')
            h = self.expr(n.handle)
            return {'t': 'index', 'h': h, 'e': self.expr(n.expression)}
        if T is oal.FunctionInvocationNode:
            self.note(n, 'fcall')
            return {'t': 'fcall', 'n': n.action_name, 'ps': [{'n': a, 'e': self.expr(e)} for a, e in self.params(n.parameter_list)]}
        if T in (oal.ImplicitInvocationNode, oal.ClassInvocationNode, oal.BridgeInvocationNode, oal.PortInvocationNode):
            self.note(n, 'icall')
            kind = {oal.ImplicitInvocationNode: 'implicit', oal.ClassInvocationNode: 'class',
                    oal.BridgeInvocationNode: 'bridge', oal.PortInvocationNode: 'port'}[T]
            return {'t': 'icall', 'kind': kind, 'ns': n.namespace, 'n': n.action_name,
                    'ps': [{'n': a, 'e': self.expr(e)} for a, e in self.params(n.parameter_list)]}
        if T is oal.InstanceInvocationNode:
            self.note(n, 'ocall')
            h = self.expr(n.handle)
            return {'t': 'ocall', 'h': h, 'n': n.action_name,
                    'ps': [{'n': a, 'e': self.expr(e)} for a, e in self.params(n.parameter_list)]}
        raise ValueError('unexpected expression node %s' % T.__name__)

    def block(self, b):
        assert isinstance(b, oal.BlockNode), b
        sl = b.statement_list
        assert isinstance(sl, oal.StatementListNode), sl
        return [self.stmt(s) for s in sl.children]

    def phrase(self, ph):
        return ph if ph else ''

    def event_spec(self, ev):
        data = [(d.name, d.expression) for d in ev.event_data.children]
        return {'id': ev.identifier, 'poly': False, 'meaning': ev.meaning or '', 'hasdata': bool(data),
                'data': [{'n': a, 'e': self.expr(e)} for a, e in data]}

    def stmt(self, n):
        T = type(n)
        if T is oal.AssignmentNode:
            self.note(n, 'assign')
            lhs = self.expr(n.variable_access)
            return {'t': 'assign', 'lhs': lhs, 'e': self.expr(n.expression)}
        if T is oal.InvocationStatementNode:
            self.note(n, 'call')
            return {'t': 'call', 'inv': self.expr(n.invocation)}
        if T is oal.BreakNode:
            self.note(n, 'break')
            return {'t': 'break'}
        if T is oal.ContinueNode:
            self.note(n, 'continue')
            return {'t': 'continue'}
        if T is oal.ControlNode:
            self.note(n, 'control')
            return {'t': 'control'}
        if T is oal.ReturnNode:
            self.note(n, 'return')
            if n.expression is None:
                return {'t': 'return', 'has': False, 'e': {'t': 'int', 'v': '0'}}
            return {'t': 'return', 'has': True, 'e': self.expr(n.expression)}
        if T is oal.IfNode:
            self.note(n, 'if')
            c = self.expr(n.expression)
            b = self.block(n.block)
            elifs = []
            for x in n.elif_list.children:
                assert isinstance(x, oal.ElIfNode)
                cc = self.expr(x.expression)
                elifs.append({'c': cc, 'b': self.block(x.block)})
            if n.else_clause is not None:
                return {'t': 'if', 'c': c, 'b': b, 'elifs': elifs, 'haselse': True, 'els': self.block(n.else_clause.block)}
            return {'t': 'if', 'c': c, 'b': b, 'elifs': elifs, 'haselse': False, 'els': []}
        if T is oal.WhileNode:
            self.note(n, 'while')
            c = self.expr(n.expression)
            return {'t': 'while', 'c': c, 'b': self.block(n.block)}
        if T is oal.ForEachNode:
            self.note(n, 'for')
            return {'t': 'for', 'v': n.instance_variable_name, 's': n.set_variable_name, 'b': self.block(n.block)}
        if T is oal.CreateObjectNode:
            self.note(n, 'create')
            return {'t': 'create', 'v': n.variable_name, 'k': n.key_letter}
        if T is oal.CreateObjectNoVariableNode:
            self.note(n, 'create_nv')
            return {'t': 'create_nv', 'k': n.key_letter}
        if T is oal.DeleteNode:
            self.note(n, 'delete')
            return {'t': 'delete', 'v': n.variable_name}
        if T in (oal.RelateNode, oal.RelateUsingNode, oal.UnrelateNode, oal.UnrelateUsingNode):
            k = 'relate' if T in (oal.RelateNode, oal.RelateUsingNode) else 'unrelate'
            self.note(n, k)
            return {'t': k, 'a': n.from_variable_name, 'b': n.to_variable_name, 'rel': n.rel_id, 'ph': self.phrase(n.phrase),
                    'using': getattr(n, 'using_variable_name', '') if T in (oal.RelateUsingNode, oal.UnrelateUsingNode) else ''}
        if T in (oal.SelectFromNode, oal.SelectFromWhereNode):
            self.note(n, 'select_from')
            d = {'t': 'select_from', 'card': n.cardinality.lower(), 'v': n.variable_name, 'k': n.key_letter}
            if T is oal.SelectFromWhereNode:
                d.update({'haswhere': True, 'w': self.expr(n.where_clause)})
            else:
                d.update({'haswhere': False, 'w': {'t': 'bool', 'v': 'true'}})
            return d
        if T in (oal.SelectRelatedNode, oal.SelectRelatedWhereNode):
            self.note(n, 'select_related')
            h = self.expr(n.handle)
            chain = []
            for st in n.navigation_chain.children:
                assert isinstance(st, oal.NavigationStepNode)
                chain.append({'k': st.key_letter, 'rel': st.rel_id, 'ph': self.phrase(st.phrase)})
            d = {'t': 'select_related', 'card': n.cardinality.lower(), 'v': n.variable_name, 'h': h, 'chain': chain}
            if T is oal.SelectRelatedWhereNode:
                d.update({'haswhere': True, 'w': self.expr(n.where_clause)})
            else:
                d.update({'haswhere': False, 'w': {'t': 'bool', 'v': 'true'}})
            return d
        if T in (oal.GenerateClassEventNode, oal.GenerateCreatorEventNode):
            self.note(n, 'gen_class')
            return {'t': 'gen_class', 'ev': self.event_spec(n.event_specification), 'k': n.key_letter,
                    'word': 'creator' if T is oal.GenerateCreatorEventNode else 'class'}
        if T is oal.GenerateInstanceEventNode:
            self.note(n, 'gen_inst')
            ev = self.event_spec(n.event_specification)
            return {'t': 'gen_inst', 'ev': ev, 'to': self.expr(n.variable_access)}
        if T is oal.GeneratePreexistingNode:
            self.note(n, 'gen_pre')
            return {'t': 'gen_pre', 'e': self.expr(n.variable_access)}
        if T in (oal.CreateClassEventNode, oal.CreateCreatorEventNode):
            self.note(n, 'create_ev_class')
            return {'t': 'create_ev_class', 'v': n.variable_name, 'ev': self.event_spec(n.event_specification),
                    'k': n.key_letter, 'word': 'creator' if T is oal.CreateCreatorEventNode else 'class'}
        if T is oal.CreateInstanceEventNode:
            self.note(n, 'create_ev_inst')
            ev = self.event_spec(n.event_specification)
            return {'t': 'create_ev_inst', 'v': n.variable_name, 'ev': ev, 'to': self.expr(n.to_variable_access)}
        if T is oal.GeneratePortEventNode:
            self.note(n, 'send_event')
            ps = [{'n': a, 'e': self.expr(e)} for a, e in self.params(n.parameter_list)]
            return {'t': 'send_event', 'port': n.port_name, 'n': n.action_name, 'ps': ps, 'to': self.expr(n.expression)}
        raise ValueError('unexpected statement node %s' % T.__name__)


def convert(root, text):
    assert isinstance(root, oal.BodyNode), root
    c = Conv(text)
    body = c.block(root.block)
    return body, c.nodes


def one(item):
    text, tokpos = render(item['toks'], item.get('seed', 0), item.get('case', 'lower'), item.get('layout', 'mixed'),
                          item.get('keep'))
    ev = {'src': item['body'], 'toks': item['toks'], 'err': '', 'errkind': '', 'real': [], 'tokpos': tokpos, 'nodes': [],
          'text': text}
    if item.get('simple'):
        ev['simple'] = True
    try:
        with limit(10.0):
            root = oal.parse(text)
        ev['real'], nodes = convert(root, text)
        if item.get('positions', True):
            ev['nodes'] = nodes
        # (the tree is read a second time after the later parses of the run, see main)
        ev['_root'] = root
    except CallTimeout:
        ev['err'] = ev['errkind'] = 'Timeout'
    except oal.ParseException as e:
        ev['err'] = 'ParseException: %s' % e
        ev['errkind'] = 'ParseException'
    except Exception as e:
        ev['err'] = 'PY:%s: %s' % (type(e).__name__, e)
        ev['errkind'] = 'PY:' + type(e).__name__
    return ev


def total(item):
    """arbitrary text: the parser must return a tree or raise its own exception, in bounded time"""
    ev = {'total': True, 'text': item['text'], 'err': '', 'errkind': '', 'src': [], 'toks': [], 'real': [], 'tokpos': [],
          'nodes': []}
    try:
        with limit(item.get('budget', 5.0)):
            root = oal.parse(item['text'])
        convert(root, item['text'])
    except CallTimeout:
        ev['err'] = ev['errkind'] = 'Timeout'
    except oal.ParseException as e:
        ev['err'] = 'ParseException'
        ev['errkind'] = 'ParseException'
    except Exception as e:
        ev['err'] = 'PY:%s: %s' % (type(e).__name__, e)
        ev['errkind'] = 'PY:' + type(e).__name__
    return ev


def main(plan_path, out_path):
    plan = json.load(open(plan_path))
    out = []
    for r in plan['runs']:
        evs = [total(it) if it.get('total') else one(it) for it in r['items']]
        # a tree that was returned stays what it is: every tree of the run is read again after all the later texts (valid
        # and invalid ones) have been parsed; where the second reading differs, it is the one that is judged
        try:
            oal.parse('select any later from instances of LATER where (selected.t == "a later text");\n')   # (also after a single item)
        except Exception:
            pass
        for ev in evs:
            root = ev.pop('_root', None)
            if root is None:
                continue
            try:
                real, nodes = convert(root, ev['text'])
            except Exception as e:
                ev['err'] = 'PY:%s on reading the tree again: %s' % (type(e).__name__, e)
                ev['errkind'] = 'PY:' + type(e).__name__
                continue
            if real != ev['real']:
                ev['real'] = real
            if ev['nodes'] and nodes != ev['nodes']:
                ev['nodes'] = nodes
        out.append(evs)
    json.dump(out, open(out_path, 'w'))


if __name__ == '__main__':
    main(sys.argv[1], sys.argv[2])
