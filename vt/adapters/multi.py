"""One real ModelLoader, several metamodels built from it, mutations of each (C18).
Records after every call the projection of *every* built metamodel.
usage: multi.py plan.json out.json
plan: {"schema": .., "runs": [{"acts": [["Input", {"parts": [..], "rows": [..]}, seed] | ["Build"] |
                                        ["Mutate", k, act] | ["SchemaMutate", k, what]]}]}"""
import json
import os
import random
import sys

import xtuml

sys.path.insert(0, os.path.dirname(os.path.abspath(__file__)))
from _util import limit, CallTimeout
import _sql
import meta


def new_world(plan, m):
    w = meta.World.__new__(meta.World)
    w.schema = plan['schema']
    w.plan = plan
    w.types = {c: {a['n']: a['t'] for a in w.schema['attrs'][c]} for c in w.schema['classes']}
    w.genkind = 'int' if isinstance(m.id_generator, xtuml.IntegerGenerator) else 'uuid'
    w.opt = plan.get('opt', {})
    w.refs = {c: set(k for a in w.schema['assocs'] if a['src'] == c for k in a['skeys']) for c in w.schema['classes']}
    w.step = 0
    w.adopt(m)
    return w


def run(plan, acts):
    loader = xtuml.ModelLoader()
    worlds = []
    events = []
    schema = plan['schema']
    for k, act in enumerate(acts):
        ev = {'op': act[0], 'res': 'none', 'oerr': ''}
        try:
            with limit(20.0):
                if act[0] == 'Input':
                    what, seed = act[1], act[2]
                    rnd = random.Random(seed)
                    stmts = [s for _, s in _sql.schema_statements(schema, rnd, what.get('parts', []))]
                    if what.get('canonical'):
                        # rows that may reach a build before (or without) their CREATE TABLE statement
                        stmts += [_sql.insert_statement(schema, r, rnd, bool(nm), True, (what.get('spell') or {}).get(r['c']))
                                  for r, nm in zip(what.get('rows', []), what['named'])]
                    else:
                        stmts += [_sql.insert_statement(schema, r, rnd) for r in what.get('rows', [])]
                    if what.get('shuffle'):
                        rnd.shuffle(stmts)
                    ev['rows'] = what.get('rows', [])
                    loader.input('\n'.join(stmts) + '\n')
                elif act[0] == 'Build':
                    # with an integer generator of its own, or (every third build) with the generator the loader gives it
                    m = loader.build_metamodel(xtuml.IntegerGenerator()) if (k + len(worlds)) % 3 else loader.build_metamodel()
                    worlds.append(new_world(plan, m))
                    ev['g'] = m.id_generator.peek() - 1 if isinstance(m.id_generator, xtuml.IntegerGenerator) else -1
                    if len(act) > 1 and act[1].get('partial'):
                        ev['partial'] = True          # built before the associations and identifiers were given
                    if len(act) > 1 and act[1].get('undecl'):
                        ev['undecl'] = act[1]['undecl']
                        ev['names'] = act[1].get('names') or {'_': []}
                elif act[0] == 'Mutate':
                    w = worlds[act[1] - 1]
                    w.step = k
                    ev['model'] = act[1]
                    sub = {'op': act[2][0]}
                    ev['sub'] = sub
                    sub2, res = w.act(act[2], k, sub)
                    ev['res'] = res
                elif act[0] == 'SchemaMutate':
                    w = worlds[act[1] - 1]
                    ev['model'] = act[1]
                    what = act[2]
                    c = schema['classes'][k % len(schema['classes'])]
                    mc = w.m.find_metaclass(c)
                    if what == 'append_attribute':
                        mc.append_attribute('Extra%d' % k, 'INTEGER')
                    elif what == 'delete_attribute':
                        mc.delete_attribute(mc.attributes[-1][0])
                    elif what == 'insert_attribute':
                        mc.insert_attribute(0, 'First%d' % k, 'STRING')
                    elif what == 'define_unique_identifier':
                        w.m.define_unique_identifier(c, 'IX%d' % k, mc.attributes[0][0])
                    elif what == 'define_class':
                        w.m.define_class('Klass%d' % k, [('Id', 'UNIQUE_ID')])
                    elif what == 'define_association':
                        a = w.m.define_association('R%d' % (700 + k), c, [mc.attributes[0][0]], False, True, 'x',
                                                   c, [mc.attributes[0][0]], False, True, 'y')
                    w.dirty = True
                else:
                    raise SystemExit('unknown act %r' % (act,))
        except CallTimeout:
            ev['res'] = 'Timeout'
        except (xtuml.MetaException, xtuml.ParsingException) as e:
            ev['res'] = type(e).__name__
        except Exception as e:
            ev['res'] = 'PY:' + type(e).__name__
        projs = []
        for w in worlds:
            if getattr(w, 'dirty', False):
                projs.append(None)            # its own schema was changed on purpose: no longer projected
                continue
            try:
                with limit(20.0):
                    p = w.project()
                    p['schema'] = w.schema_projection()
                    p['oerr'] = ''
                    p['peek'] = _sql.encode(w.m.id_generator.peek(), 'UNIQUE_ID')
            except Exception as e:
                p = {'oerr': '%s: %s' % (type(e).__name__, e)}
            projs.append(p)
        ev['models'] = projs
        events.append(ev)
        if ev['res'] == 'Timeout':
            break
    return events


def main(plan_path, out_path):
    plan = json.load(open(plan_path))
    json.dump([run(plan, r['acts']) for r in plan['runs']], open(out_path, 'w'))


if __name__ == '__main__':
    main(sys.argv[1], sys.argv[2])
