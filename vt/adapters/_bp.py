"""Synthesis of BridgePoint (ooaofooa) model text from an abstract class diagram.

The diagram is plain data (see spec/BpModel.tla for its meaning); this module
writes the rows a BridgePoint model file would contain for it (INSERT statements
with the identifiers that tie the rows together).  It is the constructive
direction abstract -> concrete; pyxtuml's mk_component / gen_xsd_schema go the
other way, and TLC compares what they extract with BpModel!Component / Xsd."""
import random
import re
import uuid

from bridgepoint import schema as bp_schema

CORE_BASE = 247728914420827907967735776184937480192
CORE = {'void': 0, 'boolean': 1, 'integer': 2, 'real': 3, 'string': 4, 'unique_id': 5, 'same_as<Base_Attribute>': 7,
        'inst_ref<Object>': 8, 'date': 14, 'timestamp': 16}

_COLUMNS = {}


def columns(table):
    if not _COLUMNS:
        for m in re.finditer(r'CREATE TABLE (\w+) \((.*?)\);', bp_schema.classes, re.S):
            cols = []
            for part in m.group(2).split(','):
                n, t = part.split()
                cols.append((n, t.upper()))
            _COLUMNS[m.group(1)] = cols
    return _COLUMNS[table]


class Synth(object):
    def __init__(self, d, seed=0):
        self.d = d
        self.rows = []
        self.next = 1000 + (seed % 7) * 100000
        self.dt = {n: CORE_BASE + k for n, k in CORE.items()}
        self.obj = {}      # key letters -> Obj_ID
        self.attr = {}     # (kl, attr) -> Attr_ID
        self.pkg = {}      # component name ('' = root) -> Package_ID
        self.comp = {}     # component name -> C_C.Id
        self.nested = {}   # component name -> Package_ID of a package nested in its package
        import random as _random
        self.prnd = _random.Random(seed * 31 + 5)
        self.build()

    def id(self):
        self.next += 1
        return self.next

    def row(self, table, **v):
        self.rows.append((table, v))

    def pe(self, element_id, comp, kind=0):
        """the packageable-element row placing an element in its component: in the package of the component, in a package
        nested in that package, or (classes and data types) directly in the component.  Where an element sits inside its
        component is a choice of the synthesis, like the order of the rows"""
        place = self.prnd.random() if comp and kind in (3, 4) else 0.0
        if place < 0.6:
            self.row('PE_PE', Element_ID=element_id, Visibility=1, Package_ID=self.pkg[comp], Component_ID=0, type=kind)
        elif place < 0.8:
            self.row('PE_PE', Element_ID=element_id, Visibility=1, Package_ID=0, Component_ID=self.comp[comp], type=kind)
        else:
            if comp not in self.nested:
                pid = self.id()
                self.nested[comp] = pid
                self.row('EP_PKG', Package_ID=pid, Sys_ID=0, Direct_Sys_ID=0, Name=comp + '_inner', Descrip='', Num_Rng=0)
                self.row('PE_PE', Element_ID=pid, Visibility=1, Package_ID=self.pkg[comp], Component_ID=0, type=7)
            self.row('PE_PE', Element_ID=element_id, Visibility=1, Package_ID=self.nested[comp], Component_ID=0, type=kind)

    def type_id(self, name):
        return self.dt[name]

    # ------------------------------------------------------------------
    def build(self):
        d = self.d
        sys_id = self.id()
        root = self.id()
        self.pkg[''] = root
        self.row('EP_PKG', Package_ID=root, Sys_ID=sys_id, Direct_Sys_ID=sys_id, Name='Root', Descrip='', Num_Rng=0)
        self.row('PE_PE', Element_ID=root, Visibility=1, Package_ID=0, Component_ID=0, type=7)
        nest = {c: p for c, p in d.get('nest', [])}
        for cname in d.get('comps', []):
            self.comp[cname] = self.id()
            self.pkg[cname] = self.id()
        for cname in d.get('comps', []):
            cid, pid = self.comp[cname], self.pkg[cname]
            self.row('C_C', Id=cid, Package_ID=0, NestedComponent_Id=0, Name=cname, Descrip='', Mult=0, Root_Package_ID=0,
                     isRealized=False, Realized_Class_Path='', Key_Lett=cname)
            if cname in nest:
                # a component nested in another one: it lives in that component's package
                self.row('PE_PE', Element_ID=cid, Visibility=1, Package_ID=self.pkg[nest[cname]], Component_ID=0, type=2)
            else:
                self.pe(cid, '', 2)
            self.row('EP_PKG', Package_ID=pid, Sys_ID=0, Direct_Sys_ID=0, Name=cname + '_pkg', Descrip='', Num_Rng=0)
            # the package lives directly inside the component
            self.row('PE_PE', Element_ID=pid, Visibility=1, Package_ID=0, Component_ID=cid, type=7)
        for u in d.get('enums', []):
            self.enum(u)
        for u in d.get('udts', []):
            self.udt(u)
        for c in d['classes']:
            self.klass(c)
        for c in d['classes']:
            self.ref_attrs(c)
        if d.get('irdt'):
            # one instance-reference and one instance-set-reference data type per class
            for c in d['classes']:
                for is_set, fmt in ((False, 'inst_ref<%s>'), (True, 'inst_ref_set<%s>')):
                    did = self.id()
                    self.dt[fmt % c['kl']] = did
                    self.row('S_DT', DT_ID=did, Dom_ID=0, Name=fmt % c['kl'], Descrip='', DefaultValue='')
                    self.pe(did, c.get('comp', ''), 3)
                    self.row('S_IRDT', DT_ID=did, isSet=is_set, Obj_ID=self.obj[c['kl']])
        for r in d.get('rels', []):
            self.rel(r)
        for c in d['classes']:
            for sm in c.get('sms', []):
                self.state_machine(c, sm)
        for i in d.get('ifaces', []):
            self.iface(i)
        for po in d.get('ports', []):
            self.port(po)
        for f in d.get('funcs', []):
            self.func(f)
        for e in d.get('ees', []):
            self.ee(e)
        for c in d.get('consts', []):
            self.const_group(c)

    def enum(self, u):
        did = self.id()
        self.dt[u['n']] = did
        self.row('S_DT', DT_ID=did, Dom_ID=0, Name=u['n'], Descrip='', DefaultValue='')
        self.pe(did, u.get('comp', ''), 3)
        self.row('S_EDT', DT_ID=did)
        prev = 0
        for item in u['items']:
            eid = self.id()
            self.row('S_ENUM', Enum_ID=eid, Name=item, Descrip='', EDT_DT_ID=did, Previous_Enum_ID=prev)
            prev = eid

    def udt(self, u):
        did = self.id()
        self.dt[u['n']] = did
        self.row('S_DT', DT_ID=did, Dom_ID=0, Name=u['n'], Descrip='', DefaultValue='')
        self.pe(did, u.get('comp', ''), 3)
        self.row('S_UDT', DT_ID=did, CDT_DT_ID=self.type_id(u['base']), Gen_Type=0, Definition='')

    def klass(self, c):
        kl = c['kl']
        oid = self.id()
        self.obj[kl] = oid
        self.row('O_OBJ', Obj_ID=oid, Name=c.get('name', kl), Numb=len(self.obj), Key_Lett=kl, Descrip='', SS_ID=0)
        self.pe(oid, c.get('comp', ''), 4)
        prev = 0
        for a in c['attrs']:
            aid = self.id()
            self.attr[(kl, a['n'])] = aid
            ty = self.type_id(a['ty']) if a['k'] != 'ref' else self.type_id('same_as<Base_Attribute>')
            self.row('O_ATTR', Attr_ID=aid, Obj_ID=oid, PAttr_ID=prev, Name=a['n'], Descrip='', Prefix='', Root_Nam=a['n'],
                     Pfx_Mode=0, DT_ID=ty, Dimensions=a.get('dims', ''), DefaultValue='')
            prev = aid
            if a['k'] in ('base', 'derived'):
                self.row('O_BATTR', Attr_ID=aid, Obj_ID=oid)
                if a['k'] == 'base':
                    self.row('O_NBATTR', Attr_ID=aid, Obj_ID=oid)
                else:
                    self.row('O_DBATTR', Attr_ID=aid, Obj_ID=oid, Action_Semantics_internal=a.get('body', ''), Suc_Pars=1, Dialect=0)
        for k, names in enumerate(c.get('ids', [])):
            self.row('O_ID', Oid_ID=k, Obj_ID=oid)
            for n in names:
                self.row('O_OIDA', Attr_ID=self.attr[(kl, n)], Obj_ID=oid, Oid_ID=k, localAttributeName=n)
        prev = 0
        for op in c.get('ops', []):
            tid = self.id()
            self.row('O_TFR', Tfr_ID=tid, Obj_ID=oid, Name=op['n'], Descrip='', DT_ID=self.type_id(op.get('ret', 'void')),
                     Instance_Based=1 if op.get('inst') else 0, Action_Semantics_internal=op.get('body', ''), Suc_Pars=1,
                     Return_Dimensions='', Previous_Tfr_ID=prev, Dialect=0, Numb=0)
            prev = tid
            pp = 0
            for p in op.get('params', []):
                pid = self.id()
                self.row('O_TPARM', TParm_ID=pid, Tfr_ID=tid, Name=p['n'], DT_ID=self.type_id(p['ty']), By_Ref=0, Dimensions=p.get('dims', ''),
                         Previous_TParm_ID=pp, Descrip='')
                pp = pid

    def base_of(self, kl, n, depth=0):
        """the base attribute a referential attribute ultimately refers to: (kl, name)"""
        c = [x for x in self.d['classes'] if x['kl'] == kl][0]
        a = [x for x in c['attrs'] if x['n'] == n][0]
        if a['k'] != 'ref' or depth > 8:
            return kl, n
        for r in self.d.get('rels', []):
            for owner, refs in self.rel_refs(r):
                if owner == kl:
                    for (tk, pairs) in refs:
                        for ra, ia in pairs:
                            if ra == n:
                                return self.base_of(tk, ia, depth + 1)
        return kl, n

    @staticmethod
    def rel_refs(r):
        """[(referring class, [(referred class, [(ref attr, id attr)])])]"""
        if r['k'] == 'simple':
            return [(r['form'], [(r['part'], r['keys'])])]
        if r['k'] == 'linked':
            return [(r['link'], [(r['one'], r['okeys']), (r['oth'], r['tkeys'])])]
        return [(s, [(r['sup'], r['keys'][s])]) for s in r['subs']]

    def ref_attrs(self, c):
        kl = c['kl']
        for a in c['attrs']:
            if a['k'] == 'ref':
                bk, bn = self.base_of(kl, a['n'])
                self.row('O_RATTR', Attr_ID=self.attr[(kl, a['n'])], Obj_ID=self.obj[kl], BAttr_ID=self.attr[(bk, bn)],
                         BObj_ID=self.obj[bk], Ref_Mode=1, BaseAttrName=bn)

    def oid_for(self, kl, pairs):
        """the identifier of class kl that contains all referred attributes"""
        c = [x for x in self.d['classes'] if x['kl'] == kl][0]
        want = set(p[1] for p in pairs)
        for k, names in enumerate(c.get('ids', [])):
            if want <= set(names):
                return k
        return 0

    def oir(self, kl, rel_id):
        o = self.id()
        self.row('R_OIR', Obj_ID=self.obj[kl], Rel_ID=rel_id, OIR_ID=o, IObj_ID=0)
        return o

    def refs(self, rel_id, rgo_kl, rgo_oir, rto_kl, rto_oir, oid, pairs):
        for ra, ia in pairs:
            self.row('O_RTIDA', Attr_ID=self.attr[(rto_kl, ia)], Obj_ID=self.obj[rto_kl], Oid_ID=oid, Rel_ID=rel_id, OIR_ID=rto_oir)
            self.row('O_REF', Obj_ID=self.obj[rgo_kl], RObj_ID=self.obj[rto_kl], ROid_ID=oid, RAttr_ID=self.attr[(rto_kl, ia)],
                     Rel_ID=rel_id, OIR_ID=rgo_oir, ROIR_ID=rto_oir, Attr_ID=self.attr[(rgo_kl, ra)], ARef_ID=self.id(),
                     PARef_ID=0, Is_Cstrd=False, Descrip='', RObj_Name='', RAttr_Name='', Rel_Name='')

    def rel(self, r):
        rid = self.id()
        self.row('R_REL', Rel_ID=rid, Numb=r['num'], Descrip='', SS_ID=0)
        self.pe(rid, r.get('comp', ''), 9)
        if r['k'] == 'simple':
            self.row('R_SIMP', Rel_ID=rid)
            po = self.oir(r['part'], rid)
            poid = self.oid_for(r['part'], r['keys'])
            self.row('R_RTO', Obj_ID=self.obj[r['part']], Rel_ID=rid, OIR_ID=po, Oid_ID=poid)
            self.row('R_PART', Obj_ID=self.obj[r['part']], Rel_ID=rid, OIR_ID=po, Mult=r['pm'], Cond=r['pc'], Txt_Phrs=r.get('pph', ''))
            fo = self.oir(r['form'], rid)
            self.row('R_RGO', Obj_ID=self.obj[r['form']], Rel_ID=rid, OIR_ID=fo)
            self.row('R_FORM', Obj_ID=self.obj[r['form']], Rel_ID=rid, OIR_ID=fo, Mult=r['fm'], Cond=r['fc'], Txt_Phrs=r.get('fph', ''))
            self.refs(rid, r['form'], fo, r['part'], po, poid, r['keys'])
        elif r['k'] == 'linked':
            self.row('R_ASSOC', Rel_ID=rid)
            oo = self.oir(r['one'], rid)
            ooid, toid = self.oid_for(r['one'], r['okeys']), self.oid_for(r['oth'], r['tkeys'])
            self.row('R_RTO', Obj_ID=self.obj[r['one']], Rel_ID=rid, OIR_ID=oo, Oid_ID=ooid)
            self.row('R_AONE', Obj_ID=self.obj[r['one']], Rel_ID=rid, OIR_ID=oo, Mult=r['om'], Cond=r['oc'], Txt_Phrs=r.get('oph', ''))
            to = self.oir(r['oth'], rid)
            self.row('R_RTO', Obj_ID=self.obj[r['oth']], Rel_ID=rid, OIR_ID=to, Oid_ID=toid)
            self.row('R_AOTH', Obj_ID=self.obj[r['oth']], Rel_ID=rid, OIR_ID=to, Mult=r['tm'], Cond=r['tc'], Txt_Phrs=r.get('tph', ''))
            lo = self.oir(r['link'], rid)
            self.row('R_RGO', Obj_ID=self.obj[r['link']], Rel_ID=rid, OIR_ID=lo)
            # (lm: the link class may be marked {*}; pyxtuml's associations have no place for it)
            self.row('R_ASSR', Obj_ID=self.obj[r['link']], Rel_ID=rid, OIR_ID=lo, Mult=r.get('lm', 0))
            self.refs(rid, r['link'], lo, r['one'], oo, ooid, r['okeys'])
            self.refs(rid, r['link'], lo, r['oth'], to, toid, r['tkeys'])
        else:
            self.row('R_SUBSUP', Rel_ID=rid)
            so = self.oir(r['sup'], rid)
            self.row('R_RTO', Obj_ID=self.obj[r['sup']], Rel_ID=rid, OIR_ID=so, Oid_ID=0)
            self.row('R_SUPER', Obj_ID=self.obj[r['sup']], Rel_ID=rid, OIR_ID=so)
            for s in r['subs']:
                bo = self.oir(s, rid)
                self.row('R_RGO', Obj_ID=self.obj[s], Rel_ID=rid, OIR_ID=bo)
                self.row('R_SUB', Obj_ID=self.obj[s], Rel_ID=rid, OIR_ID=bo)
                self.refs(rid, s, bo, r['sup'], so, 0, r['keys'][s])

    def state_machine(self, c, sm):
        """an instance ('inst') or class based ('class') state machine of class c: events with their data items, states,
        one transition into every state that names the event it is taken on (`via`), a state action per state"""
        kl = c['kl']
        smid = self.id()
        spd = self.id()
        self.row('SM_SM', SM_ID=smid, Descrip='', Config_ID=0)
        self.row('SM_ISM' if sm['kind'] == 'inst' else 'SM_ASM', SM_ID=smid, Obj_ID=self.obj[kl])
        self.row('SM_SUPDT', SMspd_ID=spd, SM_ID=smid, Non_Local=False)
        evt = {}
        for e in sm['events']:
            eid = self.id()
            evt[e['numb']] = eid
            label = '%s%s%d' % (kl, '_A' if sm['kind'] == 'class' else '', e['numb'])
            # a polymorphic event: BridgePoint keeps the star in the derived label ('star'); 'plain' leaves it out
            if e.get('poly') == 'star':
                label += '*'
            self.row('SM_EVT', SMevt_ID=eid, SM_ID=smid, SMspd_ID=spd, Numb=e['numb'], Mning=e['mning'], Is_Lbl_U=0, Unq_Lbl='',
                     Drv_Lbl=label, Descrip='')
            if e.get('poly'):
                self.row('SM_PEVT', SMevt_ID=eid, SM_ID=smid, SMspd_ID=spd, localClassName=c.get('name', kl), localClassKL=kl,
                         localEventMning=e['mning'])
            else:
                self.row('SM_SEVT', SMevt_ID=eid, SM_ID=smid, SMspd_ID=spd)
                self.row('SM_LEVT', SMevt_ID=eid, SM_ID=smid, SMspd_ID=spd)
            prev = 0
            for di in e.get('data', []):
                did = self.id()
                self.row('SM_EVTDI', SMedi_ID=did, SM_ID=smid, Name=di['n'], Descrip='', DT_ID=self.type_id(di['ty']), Dimensions=di.get('dims', ''),
                         SMevt_ID=eid, Previous_SMedi_ID=prev)
                prev = did
        first = None
        for st in sm.get('states', []):
            sid = self.id()
            first = first or sid
            self.row('SM_STATE', SMstt_ID=sid, SM_ID=smid, SMspd_ID=spd, Name=st['n'], Numb=st['numb'], Final=0)
            aid = self.id()
            self.row('SM_ACT', Act_ID=aid, SM_ID=smid, Suc_Pars=1, Action_Semantics_internal=st.get('body', ''), Descrip='', Dialect=0)
            self.row('SM_AH', Act_ID=aid, SM_ID=smid)
            self.row('SM_MOAH', Act_ID=aid, SM_ID=smid, SMstt_ID=sid)
            if st.get('via') is not None:
                # the transition into the state on event `via`: taken from the first state, or a creation transition
                tid = self.id()
                self.row('SM_TXN', Trans_ID=tid, SM_ID=smid, SMstt_ID=sid, SMspd_ID=spd)
                if st.get('creation'):
                    self.row('SM_CRTXN', Trans_ID=tid, SM_ID=smid, SMevt_ID=evt[st['via']], SMspd_ID=spd)
                else:
                    self.row('SM_SEME', SMstt_ID=first, SMevt_ID=evt[st['via']], SM_ID=smid, SMspd_ID=spd)
                    self.row('SM_NSTXN', Trans_ID=tid, SM_ID=smid, SMstt_ID=first, SMevt_ID=evt[st['via']], SMspd_ID=spd)
                if 'tbody' in st:
                    # the action of the transition
                    taid = self.id()
                    self.row('SM_ACT', Act_ID=taid, SM_ID=smid, Suc_Pars=1, Action_Semantics_internal=st['tbody'], Descrip='', Dialect=0)
                    self.row('SM_AH', Act_ID=taid, SM_ID=smid)
                    self.row('SM_TAH', Act_ID=taid, SM_ID=smid, Trans_ID=tid)

    def iface(self, i):
        """an interface: executable properties (operations with a return type, signals) with their parameters"""
        iid = self.id()
        self.ifc = getattr(self, 'ifc', {})
        self.row('C_I', Id=iid, Package_ID=0, Name=i['n'], Descrip='')
        self.pe(iid, '', 6)
        eps = []
        prev = {'op': 0, 'sig': 0}
        for numb, ep in enumerate(i['eps']):
            eid = self.id()
            eps.append((ep, eid))
            self.row('C_EP', Id=eid, Interface_Id=iid, Direction=0, Name=ep['n'], Descrip='', Numb=numb)
            if ep['k'] == 'op':
                self.row('C_IO', Id=eid, DT_ID=self.type_id(ep.get('ret', 'void')), Name=ep['n'], Descrip='', Direction=0,
                         Return_Dimensions='', Previous_Id=prev['op'])
            else:
                self.row('C_AS', Id=eid, Name=ep['n'], Descrip='', Direction=0, Previous_Id=prev['sig'])
            prev[ep['k']] = eid
            pp = 0
            for p in ep.get('params', []):
                pid = self.id()
                self.row('C_PP', PP_Id=pid, Signal_Id=eid, DT_ID=self.type_id(p['ty']), Name=p['n'], Descrip='', By_Ref=0,
                         Dimensions=p.get('dims', ''), Previous_PP_Id=pp)
                pp = pid
        self.ifc[i['n']] = (iid, eps)

    def port(self, po):
        """a port of a component that requires ('R') or provides ('P') an interface; one message body per executable
        property (po['bodies'][name], '' when missing)"""
        iid, eps = self.ifc[po['iface']]
        poid, irid = self.id(), self.id()
        self.row('C_PO', Id=poid, Component_Id=self.comp[po['comp']], Name=po['n'], Mult=0, DoNotShowPortOnCanvas=False, Key_Lett='')
        self.row('C_IR', Id=irid, Formal_Interface_Id=iid, Delegation_Id=0, Port_Id=poid)
        if po['k'] == 'R':
            self.row('C_R', Requirement_Id=irid, Name=po['iface'], Descrip='', InformalName='', reversePathFromComponent='')
        else:
            self.row('C_P', Provision_Id=irid, Name=po['iface'], InformalName='', Descrip='', pathFromComponent='')
        for ep, eid in eps:
            xid = self.id()
            body = po.get('bodies', {}).get(ep['n'], '')
            if po['k'] == 'R':
                self.row('SPR_REP', Id=xid, ExecutableProperty_Id=eid, Requirement_Id=irid)
            else:
                self.row('SPR_PEP', Id=xid, ExecutableProperty_Id=eid, Provision_Id=irid)
            table = 'SPR_%s%s' % (po['k'], 'O' if ep['k'] == 'op' else 'S')
            self.row(table, Id=xid, Name=ep['n'], Descrip='', Action_Semantics_internal=body, Suc_Pars=1, Dialect=0, Numb=0)

    def func(self, f):
        sid = self.id()
        self.row('S_SYNC', Sync_ID=sid, Dom_ID=0, Name=f['n'], Descrip='', Action_Semantics_internal=f.get('body', ''),
                 DT_ID=self.type_id(f.get('ret', 'void')), Suc_Pars=1, Return_Dimensions='', Dialect=0, Numb=0)
        self.pe(sid, f.get('comp', ''), 1)
        prev = 0
        for p in f.get('params', []):
            pid = self.id()
            self.row('S_SPARM', SParm_ID=pid, Sync_ID=sid, Name=p['n'], DT_ID=self.type_id(p['ty']), By_Ref=0, Dimensions=p.get('dims', ''),
                     Previous_SParm_ID=prev, Descrip='')
            prev = pid

    def ee(self, e):
        eid = self.id()
        self.row('S_EE', EE_ID=eid, Name=e['n'], Descrip='', Key_Lett=e['kl'], Dom_ID=0, Realized_Class_Path='', Label='',
                 isRealized=False)
        self.pe(eid, e.get('comp', ''), 5)
        for b in e.get('bridges', []):
            bid = self.id()
            self.row('S_BRG', Brg_ID=bid, EE_ID=eid, Name=b['n'], Descrip='', Brg_Typ=0, DT_ID=self.type_id(b.get('ret', 'void')),
                     Action_Semantics_internal=b.get('body', ''), Suc_Pars=1, Return_Dimensions='', Dialect=0)
            prev = 0
            for p in b.get('params', []):
                pid = self.id()
                self.row('S_BPARM', BParm_ID=pid, Brg_ID=bid, Name=p['n'], DT_ID=self.type_id(p['ty']), By_Ref=0, Dimensions=p.get('dims', ''),
                         Previous_BParm_ID=prev, Descrip='')
                prev = pid

    def const_group(self, g):
        gid = self.id()
        self.row('CNST_CSP', Constant_Spec_ID=gid, InformalGroupName=g['n'], Descrip='')
        self.pe(gid, g.get('comp', ''), 10)
        prev = 0
        for c in g['items']:
            cid = self.id()
            self.row('CNST_SYC', Const_ID=cid, Name=c['n'], Descrip='', DT_ID=self.type_id(c['ty']), Constant_Spec_ID=gid,
                     Previous_Const_ID=prev, Previous_DT_DT_ID_Deprecated=0)
            self.row('CNST_LFSC', Const_ID=cid, DT_ID_Deprecated=0)
            self.row('CNST_LSC', Const_ID=cid, DT_ID_Deprecated=0, Value=c['v'])
            prev = cid

    # ------------------------------------------------------------------
    def statements(self, shuffle_seed=None):
        rows = list(self.rows)
        if shuffle_seed is not None:
            random.Random(shuffle_seed).shuffle(rows)
        out = []
        for table, v in rows:
            vals = []
            for n, t in columns(table):
                x = v.get(n, None)
                if t == 'UNIQUE_ID':
                    vals.append('"%s"' % uuid.UUID(int=int(x or 0)))
                elif t == 'STRING':
                    vals.append("'%s'" % str(x or '').replace("'", "''"))
                elif t == 'BOOLEAN':
                    vals.append('1' if x else '0')
                elif t == 'REAL':
                    vals.append('%f' % float(x or 0))
                else:
                    vals.append('%d' % int(x or 0))
            out.append('INSERT INTO %s\n\tVALUES (%s);\n' % (table, ',\n\t'.join(vals)))
        return out
