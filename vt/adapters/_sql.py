"""Rendering of abstract schemas and rows as text of pyxtuml's SQL dialect (input
of the real loader).  Layout, keyword case and value forms vary with a seed; none
of it may influence what the loader builds."""
import random
import uuid

# abstract value tokens with a fixed concrete representative (everything else is literal)
TABLE = {
    's@quote': "it's", 's@qq': "a''b", 's@comment': '-- x', 's@nl': 'a\nb', 's@uni': 'åäö ☃',
    's@semi': 'a;b', 's@paren': ');', 's@kw': 'INSERT INTO', 's@tab': 'a\tb', 's@bs': 'a\\b', 's@dq': 'say "x"', 's@nul': 'a\x00b',
    's@pct': '100% %s %d %(x)s {0}',
    # a backslash directly in front of a quote, a value that ends in a backslash, quotes at the very ends, a lone quote
    's@bsq': "sed 's/\\'/x/'", 's@bsend': 'C:\\Users\\me\\', 's@qends': "'both ends'", 's@q1': "'",
    'u@big': str(2 ** 128 - 1), 'u@mid': str((3 << 96) + 3), 'i@big': str(-2 ** 70), 'i@pos': str(2 ** 65 + 1),
}
REV = {}


def decode(tok):
    if tok == 'unset':
        return None
    if tok[1] == '@':
        raw = TABLE[tok]
        k = tok[0]
        return int(raw) if k in 'ui' else raw
    k, v = tok[0], tok[2:]
    if k in 'ui':
        return int(v)
    if k == 'b':
        return bool(int(v))
    if k == 'r':
        return float(v)
    if k == 's':
        return v
    raise ValueError(tok)


def encode(v, ty):
    ty = (ty or '').upper()
    if v is None:
        return 'unset'
    if not REV:
        for t, raw in TABLE.items():
            REV[(t[0], raw)] = t
    if ty == 'UNIQUE_ID' and isinstance(v, int) and not isinstance(v, bool):
        return REV.get(('u', str(v)), 'u:%d' % v)
    if ty == 'INTEGER' and isinstance(v, int) and not isinstance(v, bool):
        return REV.get(('i', str(v)), 'i:%d' % v)
    if ty == 'BOOLEAN' and isinstance(v, bool):
        return 'b:%d' % int(v)
    if ty == 'REAL' and isinstance(v, float):
        return 'r:%r' % v
    if ty == 'STRING' and isinstance(v, str):
        return REV.get(('s', v), 's:' + v)
    return '?:%s:%r' % (type(v).__name__, v)


def kwcase(word, rnd):
    k = rnd.random()
    if k < 0.6:
        return word
    if k < 0.8:
        return word.lower()
    return ''.join(c.upper() if rnd.random() < 0.5 else c.lower() for c in word)


def sep(rnd, must=True):
    k = rnd.random()
    if k < 0.6:
        return ' '
    if k < 0.75:
        return '\n    '
    if k < 0.85:
        return '\t'
    if k < 0.95:
        return ' -- note\n  '
    return '  '


def value_text(tok, ty, rnd, canonical=False):
    ty = ty.upper()
    v = decode(tok)
    if canonical:
        # the lexical form from which the loader guesses this very type when no CREATE TABLE statement is given
        if ty == 'UNIQUE_ID':
            return '"%s"' % uuid.UUID(int=v)
        if ty == 'INTEGER':
            return '%d' % v
        if ty == 'BOOLEAN':
            return rnd.choice(['TRUE', 'true', 'True'] if v else ['FALSE', 'false', 'False'])
        if ty == 'REAL':
            return repr(v) if 'e' not in repr(v) else '%f' % v
    if ty == 'UNIQUE_ID':
        if rnd.random() < 0.8 or v >= 2 ** 31:
            return '"%s"' % uuid.UUID(int=v)
        return '%d' % v
    if ty == 'INTEGER':
        return ('- %d' % -v if rnd.random() < 0.3 else '%d' % v) if v < 0 else '%d' % v
    if ty == 'BOOLEAN':
        return rnd.choice(['1', 'TRUE', 'true', 'True'] if v else ['0', 'FALSE', 'false', 'False'])
    if ty == 'REAL':
        s = repr(v) if 'e' not in repr(v) else '%f' % v
        return ('-' + sep(rnd) + s[1:]) if s.startswith('-') and rnd.random() < 0.3 else s
    if ty == 'STRING':
        return "'%s'" % v.replace("'", "''")
    raise ValueError(ty)


def card(many, cond):
    return ('M' if many else '1') + ('C' if cond else '')


def schema_statements(schema, rnd, parts=('table', 'rop', 'index')):
    out = []
    W = lambda w: kwcase(w, rnd)
    S = lambda: sep(rnd)
    if 'table' in parts:
        for c in schema['classes']:
            attrs = (',' + S()).join('%s%s%s' % (a['n'], S(), a['t'])
                                     for a in schema['attrs'][c])
            out.append(('table', '%s%s%s%s%s%s(%s%s%s);' % (W('CREATE'), S(), W('TABLE'), S(), c, S(), S(), attrs, S())))
    if 'rop' in parts:
        for a in schema['assocs']:
            def end(kind, keys, many, cond, phrase):
                s = '%s%s%s%s(%s)' % (card(many, cond), S(), kind, S(), (',' + S()).join(keys))
                if phrase:
                    s += '%s%s%s\'%s\'' % (S(), W('PHRASE'), S(), phrase)
                return s
            out.append(('rop', '%s%s%s%s%s%s%s%s%s%s%s%s%s%s%s;' % (
                W('CREATE'), S(), W('ROP'), S(), W('REF_ID'), S(), a['rel'], S(), W('FROM'), S(),
                end(a['src'], a['skeys'], a['smany'], a['scond'], a['sphrase']), S(), W('TO'), S(),
                end(a['tgt'], a['tkeys'], a['tmany'], a['tcond'], a['tphrase']))))
    if 'index' in parts:
        for c in schema['classes']:
            for u in schema['uniques'].get(c, []):
                out.append(('index', '%s%s%s%s%s%s%s%s%s%s%s%s(%s);' % (
                    W('CREATE'), S(), W('UNIQUE'), S(), W('INDEX'), S(), u['name'], S(), W('ON'), S(), c, S(),
                    (',' + S()).join(u['attrs']))))
    return out


def insert_statement(schema, row, rnd, named=None, canonical=False, spell=None):
    c = row['c']
    attrs = schema['attrs'][c]
    W = lambda w: kwcase(w, rnd)
    S = lambda: sep(rnd)
    missing = [a['n'] for a in attrs if row['v'].get(a['n'], 'unset') == 'unset']
    if named is None:
        named = bool(missing) or rnd.random() < 0.3
    if named:
        cols = [a for a in attrs if a['n'] not in missing]
        if rnd.random() < 0.5 and not canonical:
            rnd.shuffle(cols)
        names = (',' + S()).join((spell or {}).get(a['n'], a['n']) if rnd.random() < 0.7 or canonical else a['n'].upper() for a in cols)
        vals = (',' + S()).join(value_text(row['v'][a['n']], a['t'], rnd, canonical) for a in cols)
        return '%s%s%s%s%s%s(%s)%s%s%s(%s);' % (W('INSERT'), S(), W('INTO'), S(), c, S(), names, S(), W('VALUES'), S(), vals)
    vals = (',' + S()).join(value_text(row['v'][a['n']], a['t'], rnd, canonical) for a in attrs)
    return '%s%s%s%s%s%s%s%s(%s);' % (W('INSERT'), S(), W('INTO'), S(), c, S(), W('VALUES'), S(), vals)
