"""Feed texts to a real xtuml.ModelLoader and record acceptance, the number of
accumulated statements and whether a twin loader that only ever saw the accepted
texts builds the same model (C12).  usage: loadio.py plan.json out.json
plan: {"runs": [{"texts": [str, ...], "build_every": int}]}"""
import json
import os
import sys

import xtuml

sys.path.insert(0, os.path.dirname(os.path.abspath(__file__)))
from _util import limit, CallTimeout

BUDGET = 5.0     # seconds per call ("bounded time")


def build_text(loader):
    """outcome of a build and the serialisation of what was built"""
    try:
        with limit(BUDGET * 4):
            m = loader.build_metamodel(xtuml.IntegerGenerator())
    except CallTimeout:
        return 'Timeout', None
    except xtuml.ParsingException as e:
        return 'ParsingException', 'message: %s' % e        # (file name and line of the offending statement included)
    except xtuml.MetaException as e:
        return 'MetaException', 'message: %s' % e
    except Exception as e:
        return 'PY:' + type(e).__name__, None
    try:
        return 'built', xtuml.serialize(m)
    except Exception as e:
        return 'built', 'unserializable:' + type(e).__name__


def signature(loader):
    """the accumulated statements: kind, file name and line of each"""
    return [(type(s).__name__, getattr(s, 'filename', None), getattr(s, 'lineno', None)) for s in loader.statements]


def deep(x):
    """a value the loader holds, written out in full"""
    if isinstance(x, (list, tuple)):
        return '[' + ', '.join(deep(y) for y in x) + ']'
    if isinstance(x, dict):
        return '{' + ', '.join('%s: %s' % (deep(k), deep(v)) for k, v in sorted(x.items(), key=repr)) + '}'
    if hasattr(x, '__dict__') and not isinstance(x, type):
        return '%s(%s)' % (type(x).__name__, ', '.join('%s=%s' % (k, deep(v)) for k, v in sorted(vars(x).items())))
    return repr(x)


def content(loader):
    return [deep(s)[:4000] for s in loader.statements]


def run(r):
    loader = xtuml.ModelLoader()
    twin = xtuml.ModelLoader()
    events = []
    accepted, outcomes = [], []
    every = r.get('build_every', 1)
    for k, text in enumerate(r['texts']):
        ev = {'op': 'Input', 'k': k}
        try:
            with limit(BUDGET):
                loader.input(text, name='<t%d>' % k)
            res = 'accepted'
        except CallTimeout:
            res = 'Timeout'
        except xtuml.ParsingException:
            res = 'ParsingException'
        except Exception as e:
            res = 'PY:' + type(e).__name__
        if res == 'accepted':
            twin.input(text, name='<t%d>' % k)
            accepted.append((k, text))
        ev['res'] = res
        # whether a text is accepted does not depend on the texts rejected before it: a loader that only ever saw the
        # accepted texts gives the same answer
        ev['fresh'] = True
        if res == 'ParsingException' and any(o != 'accepted' for o in outcomes):
            probe = xtuml.ModelLoader()
            try:
                with limit(BUDGET * 2):
                    for j, t in accepted:
                        probe.input(t, name='<t%d>' % j)
                    probe.input(text, name='<t%d>' % k)
                ev['fresh'] = False                    # a loader without the rejected history accepts it
            except CallTimeout:
                pass
            except Exception:
                pass
        outcomes.append(res)
        ev['n'] = len(loader.statements)
        ev['c'] = content(loader)
        # the loader that saw the rejected texts holds the same statements, from the same lines, as its twin that did not
        ev['twin'] = bool(res != 'accepted' or signature(loader) == signature(twin)) if res != 'Timeout' else True
        if res not in ('accepted', 'Timeout'):
            ev['twin'] = signature(loader) == signature(twin)
        events.append(ev)
        if res == 'Timeout':
            break
        if (k + 1) % every == 0 or k == len(r['texts']) - 1:
            out, text1 = build_text(loader)
            out2, text2 = build_text(twin)
            events.append({'op': 'Build', 'k': k, 'res': out, 'n': len(loader.statements), 'c': content(loader),
                           'twin': bool(out == out2 and text1 == text2), 'fresh': True})
            if out == 'Timeout':
                break
    return events


def main(plan_path, out_path):
    plan = json.load(open(plan_path))
    json.dump([run(r) for r in plan['runs']], open(out_path, 'w'))


if __name__ == '__main__':
    main(sys.argv[1], sys.argv[2])
