"""Replay OrderedSet.tla behaviours on xtuml.OrderedSet / xtuml.QuerySet and
record one event per call.  Nothing here computes an expected value: the
recorded events are judged by TLC against OrderedSetTrace.tla.

usage: orderedset.py plan.json out.json
plan: {"n": N, "runs": [{"cls": "OrderedSet"|"QuerySet", "acts": [[name, arg..], ..]}, ..]}
"""
import itertools
import json
import sys

import xtuml

sys.path.insert(0, __import__('os').path.dirname(__import__('os').path.abspath(__file__)))
from _util import limit, CallTimeout

LIMIT = 64     # an iteration longer than this is recorded truncated (bounded time)


class E(object):
    """Universe element; hashable by identity like xtuml instances."""
    def __init__(self, i):
        self.i = i

    def __repr__(self):
        return 'e%d' % self.i


def bounded(it):
    return list(itertools.islice(it, LIMIT))


# plain values as elements: the ones a truth test takes for nothing (0, '', ()) among them
PLAIN = [0, '', (), 'x', 5, -1, 2.5, 'y']


def run(cls, acts, n, plain=False):
    if plain:
        elems = [None] + PLAIN[:n]
        idx = lambda xs: [([k for k, v in enumerate(elems) if k and type(v) is type(x) and v == x] or [-1])[0] for x in xs]
    else:
        elems = [None] + [E(i) for i in range(1, n + 1)]
        idx = lambda xs: [x.i if isinstance(x, E) else -1 for x in xs]
    obj = cls()
    other = cls()            # the result of the latest pure operator (or the set parked by Swap)
    events = []
    for act in acts:
        name, args = act[0], act[1:]
        ev = {'op': name}
        res = {'k': 'none'}
        try:
          with limit(5.0):
              if name in ('Add', 'Discard', 'Remove'):
                  ev['x'] = args[0]
                  getattr(obj, name.lower())(elems[args[0]])
              elif name == 'PopLast':
                  res = {'k': 'val', 'v': idx([obj.pop()])[0]}
              elif name == 'PopFirst':
                  res = {'k': 'val', 'v': idx([obj.pop(last=False)])[0]}
              elif name == 'Clear':
                  obj.clear()
              elif name == 'Swap':
                  obj, other = other, obj
              elif name in ('IOr', 'IAnd', 'ISub', 'IXor'):
                  ev['q'] = list(args[0])
                  q = [elems[i] for i in args[0]]
                  # the argument is any iterable: alternate its concrete type
                  kind = len(events) % 3
                  arg = q if kind == 0 else (cls(q) if kind == 1 and len(set(args[0])) == len(args[0]) else iter(q))
                  if name == 'IOr':
                      obj |= arg
                  elif name == 'IAnd':
                      obj &= list(arg) if kind == 2 else arg
                  elif name == 'ISub':
                      obj -= arg
                  else:
                      obj ^= list(arg) if kind == 2 else arg
              elif name == 'ISelf':
                  ev['o'] = args[0]
                  if args[0] == 'or':
                      obj |= obj
                  elif args[0] == 'and':
                      obj &= obj
                  elif args[0] == 'sub':
                      obj -= obj
                  else:
                      obj ^= obj
              elif name == 'Pure':
                  ev['o'] = args[0]
                  ev['q'] = list(args[1])
                  q = [elems[i] for i in args[1]]
                  arg = q if len(events) % 2 else cls(q)
                  if args[0] == 'or':
                      r = obj | arg
                  elif args[0] == 'and':
                      r = obj & arg
                  elif args[0] == 'sub':
                      r = obj - arg
                  else:
                      r = obj ^ arg
                  res = {'k': 'seq', 'q': idx(bounded(iter(r)))}
                  if type(r) is not cls:
                      res = {'k': 'err', 'e': 'result type %s' % type(r).__name__}
                  else:
                      other = r
              elif name in ('IterRemove', 'RevIterRemove'):
                  F = set(args[0])
                  ev['f'] = [False] + [i in F for i in range(1, n + 1)]
                  ev['f'] = ev['f'][1:]
                  visited = []
                  for x in itertools.islice(iter(obj) if name == 'IterRemove' else reversed(obj), LIMIT):
                      visited.append(x)
                      if idx([x])[0] in F:
                          obj.remove(x)
                  res = {'k': 'seq', 'q': idx(visited)}
              elif name in ('Eq', 'Ne'):
                  ev['q'] = list(args[0])
                  q = [elems[i] for i in args[0]]
                  kind = len(events) % 3
                  cmp = cls(q) if kind == 0 else (q if kind == 1 else tuple(q))
                  b = (obj == cmp) if name == 'Eq' else (obj != cmp)
                  res = {'k': 'bool', 'b': bool(b)} if isinstance(b, bool) else {'k': 'err', 'e': repr(b)}
              elif name == 'New':
                  ev['q'] = list(args[0])
                  q = [elems[i] for i in args[0]]
                  obj = cls(q if len(events) % 2 else iter(q))
              else:
                  raise SystemExit('unknown action %r' % name)
        except KeyError:
            res = {'k': 'err', 'e': 'KeyError'}
        except CallTimeout:
            res = {'k': 'err', 'e': 'Timeout'}
        except Exception as e:                      # any other exception is recorded, not hidden
            res = {'k': 'err', 'e': type(e).__name__}
        ev['res'] = res
        ev.update({'list': [], 'rev': [], 'len': -1, 'mem': [False] * n, 'oerr': '', 'other': []})
        if cls is xtuml.QuerySet:
            ev.update({'first': [], 'last': []})
        try:
            with limit(5.0):
                ev['list'] = idx(bounded(iter(obj)))
                ev['rev'] = idx(bounded(reversed(obj)))
                ev['len'] = len(obj)
                ev['other'] = idx(bounded(iter(other)))
                ev['mem'] = [elems[i] in obj for i in range(1, n + 1)]
                if cls is xtuml.QuerySet:
                    f, l = obj.first, obj.last
                    ev['first'] = [] if f is None else idx([f])
                    ev['last'] = [] if l is None else idx([l])
        except CallTimeout:
            ev['oerr'] = 'Timeout'
        except Exception as e:
            ev['oerr'] = type(e).__name__
        events.append(ev)
        if res.get('e') == 'Timeout' or ev['oerr']:
            break                                   # the object cannot be trusted any further
    return events


def main(plan_path, out_path):
    plan = json.load(open(plan_path))
    out = []
    for r in plan['runs']:
        cls = getattr(xtuml, r['cls'])
        out.append(run(cls, r['acts'], plan['n'], bool(r.get('plain'))))
    json.dump(out, open(out_path, 'w'))


if __name__ == '__main__':
    main(sys.argv[1], sys.argv[2])
