"""Interpret OAL bodies with the real interpreter on a real domain and record the
return value and the final population (C04, C08).  usage: oalexec.py plan.json out.json
plan: {"schema": .., "runs": [{"items": [{"body", "toks", "seed", "case", "layout", "kw"}]}]}"""
import json
import os
import sys

sys.path.insert(0, os.path.dirname(os.path.abspath(__file__)))
from _util import limit, CallTimeout
from oal_render import render
import meta

import xtuml
from bridgepoint import interpret, ooaofooa


def domain_for(schema):
    m = ooaofooa.Domain(xtuml.IntegerGenerator())
    for c in schema['classes']:
        m.define_class(c, [(a['n'], a['t']) for a in schema['attrs'][c]])
    for a in schema['assocs']:
        ass = m.define_association(a['rel'], a['src'], a['skeys'], a['smany'], a['scond'], a['sphrase'],
                                   a['tgt'], a['tkeys'], a['tmany'], a['tcond'], a['tphrase'])
        ass.formalize()
    for c in schema['classes']:
        for u in schema['uniques'].get(c, []):
            m.define_unique_identifier(c, u['name'], *u['attrs'])
    return m


def tok(v):
    if v is None:
        return 'none'
    if isinstance(v, bool):
        return 'b:%d' % int(v)
    if isinstance(v, int):
        return 'i:%d' % v
    if isinstance(v, float):
        return 'r:%r' % v
    if isinstance(v, str):
        return 's:' + v
    return '?:' + type(v).__name__


def untok(t):
    return {'i': lambda s: int(s), 'b': lambda s: bool(int(s)), 's': lambda s: s}[t[0]](t[2:])


def one(plan, item):
    schema = plan['schema']
    text, _ = render(item['toks'], item.get('seed', 0), item.get('case', 'lower'), item.get('layout', 'plain'), item.get('keep'))
    ev = {'src': item['body'], 'text': text, 'err': '', 'res': 'none', 'pool': {c: [] for c in schema['classes']}, 'nav': [],
          'attr': {c: [] for c in schema['classes']}}
    if item.get('kw'):
        ev['kw'] = item['kw']
    domain = domain_for(schema)
    try:
        with limit(10.0):
            res = interpret.run_function(domain, 'body', text, {n: untok(t) for n, t in item.get('kw', {}).items()})
        ev['res'] = tok(res)
    except CallTimeout:
        ev['err'] = 'Timeout'
    except Exception as e:
        ev['err'] = '%s: %s' % (type(e).__name__, e)
    w = meta.World.__new__(meta.World)
    w.schema = schema
    w.plan = plan
    w.opt = {}
    w.step = 0
    w.refs = {c: set(k for a in schema['assocs'] if a['src'] == c for k in a['skeys']) for c in schema['classes']}
    w.m = domain
    # handles by creation order: the integer generator numbered them; pool order is creation order of the live ones,
    # deleted instances are no longer reachable, so ordinals are recovered from the ids the generator handed out
    w.h = {c: [] for c in schema['classes']}
    try:
        with limit(10.0):
            p = project(w, domain, schema)
        ev.update(p)
    except Exception as e:
        ev['err'] = ev['err'] or 'projection: %s: %s' % (type(e).__name__, e)
    return ev


def project(w, domain, schema):
    """pools/links by creation ordinal.  The interpreter offers no handle on deleted instances, so the adapter
    installs a creation counter on the domain before the run (see install_counter)."""
    born = domain._vt_born
    for c in schema['classes']:
        w.h[c] = list(born[c])
    p = w.project()
    return {'pool': p['pool'], 'nav': p['nav'], 'attr': p['attr']}


def install_counter(domain, schema):
    """remember every instance in creation order per class (a wrapper around the public new())"""
    domain._vt_born = {c: [] for c in schema['classes']}
    orig = domain.new

    def new(kind, *a, **kw):
        inst = orig(kind, *a, **kw)
        domain._vt_born[xtuml.get_metaclass(inst).kind].append(inst)
        return inst
    domain.new = new


_domain_for = domain_for


def domain_for(schema):          # noqa: F811
    d = _domain_for(schema)
    install_counter(d, schema)
    return d


def main(plan_path, out_path):
    plan = json.load(open(plan_path))
    out = []
    for r in plan['runs']:
        out.append([one(plan, it) for it in r['items']])
    json.dump(out, open(out_path, 'w'))


if __name__ == '__main__':
    main(sys.argv[1], sys.argv[2])
