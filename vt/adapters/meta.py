"""Replay Meta.tla behaviours on a real xtuml.MetaModel and record one event per
call with the projected abstract state.  Nothing here computes an expected
value; TLC judges the events against MetaTrace.tla.

usage: meta.py plan.json out.json
plan: {"schema": {...}, "gen": "int"|"uuid"|"user", "userids": [...], "obs": {...},
       "runs": [{"acts": [[name, arg..], ..]}, ..]}
"""
import itertools
import json
import os
import sys

import xtuml

sys.path.insert(0, os.path.dirname(os.path.abspath(__file__)))
from _util import limit, CallTimeout

LIMIT = 200


def decode(tok):
    """value token -> python value"""
    if tok == 'unset':
        return None
    k, v = tok[0], tok[2:]
    if k == 'u' or k == 'i':
        return int(v)
    if k == 'b':
        return bool(int(v))
    if k == 'r':
        return float(v)
    if k == 's':
        return v
    raise ValueError(tok)


def encode(v, ty):
    """python value -> token, according to the declared type of the attribute"""
    ty = (ty or '').upper()
    if v is None:
        return 'unset'
    if ty == 'UNIQUE_ID' and isinstance(v, int) and not isinstance(v, bool):
        return 'u:%d' % v
    if ty == 'INTEGER' and isinstance(v, int) and not isinstance(v, bool):
        return 'i:%d' % v
    if ty == 'BOOLEAN' and isinstance(v, bool):
        return 'b:%d' % int(v)
    if ty == 'REAL' and isinstance(v, float):
        return 'r:%r' % v
    if ty == 'STRING' and isinstance(v, str):
        return 's:' + v
    return '?:%s:%r' % (type(v).__name__, v)


class UserGen(xtuml.IdGenerator):
    def __init__(self, ids):
        self.ids = list(ids)
        self.k = 0
        xtuml.IdGenerator.__init__(self)

    def readfunc(self):
        self.k += 1
        return self.ids[self.k - 1] if self.k <= len(self.ids) else 10 ** 6 + self.k


def make_generator(plan):
    kind = plan.get('gen', 'int')
    if kind == 'int':
        return xtuml.IntegerGenerator()
    if kind == 'uuid':
        return xtuml.UUIDGenerator()
    return UserGen([decode(t) for t in plan.get('userids', [])])


def build_metamodel(schema, id_generator):
    m = xtuml.MetaModel(id_generator)
    for c in schema['classes']:
        m.define_class(c, [(a['n'], a['t']) for a in schema['attrs'][c]])
    for a in schema['assocs']:
        ass = m.define_association(a['rel'], a['src'], a['skeys'], a['smany'], a['scond'], a['sphrase'],
                                   a['tgt'], a['tkeys'], a['tmany'], a['tcond'], a['tphrase'])
        ass.formalize()
    for c in schema['classes']:
        for u in schema['uniques'].get(c, []):
            m.define_unique_identifier(c, u['name'], *u['attrs'])
    return m


class World(object):
    def __init__(self, plan):
        self.schema = plan['schema']
        self.m = build_metamodel(self.schema, make_generator(plan))
        self.h = {c: [] for c in self.schema['classes']}     # class -> handles by ordinal-1
        self.types = {c: {a['n']: a['t'] for a in self.schema['attrs'][c]} for c in self.schema['classes']}

    def inst(self, c, i):
        return self.h[c][i - 1]

    def ordinal(self, c, inst):
        for k, x in enumerate(self.h[c]):
            if x is inst:
                return k + 1
        return -1

    def ords(self, c, insts):
        return [self.ordinal(c, x) for x in itertools.islice(iter(insts), LIMIT)]

    # ---- projection of the abstract state through the public API ----
    def project(self):
        sch = self.schema
        pool = {c: self.ords(c, self.m.select_many(c)) for c in sch['classes']}
        nav = []
        for a in sch['assocs']:
            f = [self.ords(a['src'], xtuml.navigate_many(t).nav(a['src'], a['rel'], a['tphrase'])())
                 for t in self.h[a['tgt']]]
            b = [self.ords(a['tgt'], xtuml.navigate_many(s).nav(a['tgt'], a['rel'], a['sphrase'])())
                 for s in self.h[a['src']]]
            nav.append({'fwd': f, 'bwd': b})
        attr = {}
        for c in sch['classes']:
            rows = []
            for x in itertools.islice(iter(self.m.select_many(c)), LIMIT):
                row = {}
                for a in sch['attrs'][c]:
                    try:
                        row[a['n']] = encode(getattr(x, a['n']), a['t'])
                    except AttributeError:
                        row[a['n']] = 'absent'
                rows.append(row)
            attr[c] = rows
        return {'pool': pool, 'nav': nav, 'attr': attr}

    # ---- actions ----
    def act(self, act, k, ev):
        name = act[0]
        if name == 'New':
            c, pos, kw = act[1], act[2], act[3] if len(act) > 3 else {}
            ev.update({'c': c, 'pos': list(pos), 'kw': dict(kw) if kw else {'_': '_'}})
            inst = None
            before = len(self.m.find_metaclass(c).storage)
            try:
                inst = self.m.new(c, *[decode(t) for t in pos], **{n: decode(t) for n, t in (kw or {}).items()})
            finally:
                st = self.m.find_metaclass(c).storage
                if inst is None and len(st) > before:
                    inst = st[-1]                     # created although the call failed
                if inst is not None:
                    self.h[c].append(inst)
            return ev, 'none'
        if name in ('Relate', 'Unrelate'):
            cx, ix, cy, iy, rel, ph = act[1:7]
            ev.update({'x': [cx, ix], 'y': [cy, iy], 'rel': rel, 'ph': ph})
            fn = xtuml.relate if name == 'Relate' else xtuml.unrelate
            r = rel if k % 2 else (int(rel[1:]) if rel[1:].isdigit() else rel)   # 'R1' and 1 are the same number
            if ph == '' and k % 3 == 0:
                out = fn(self.inst(cx, ix), self.inst(cy, iy), r)
            else:
                out = fn(self.inst(cx, ix), self.inst(cy, iy), r, ph)
            return ev, repr(out)
        if name == 'RelateNone':
            cs = self.schema['classes']
            some = next((x for c in cs for x in self.h[c]), None)
            rel = self.schema['assocs'][0]['rel'] if self.schema['assocs'] else 'R1'
            variants = [lambda: xtuml.relate(None, some, rel), lambda: xtuml.relate(some, None, rel),
                        lambda: xtuml.unrelate(None, some, rel), lambda: xtuml.unrelate(some, None, rel, 'x')]
            return ev, repr(variants[k % 4]())
        if name == 'Delete':
            c, i = act[1], act[2]
            ev.update({'x': [c, i]})
            if k % 2:
                xtuml.delete(self.inst(c, i))
            else:
                self.m.find_metaclass(c).delete(self.inst(c, i))
            return ev, 'none'
        raise SystemExit('unknown action %r' % (act,))


def run(plan, acts):
    w = World(plan)
    events = []
    for k, act in enumerate(acts):
        ev = {'op': act[0]}
        try:
            with limit(10.0):
                ev, res = w.act(act, k, ev)
        except CallTimeout:
            res = 'Timeout'
        except xtuml.MetaException as e:
            res = type(e).__name__
        except Exception as e:
            res = 'PY:' + type(e).__name__
        ev['res'] = res
        ev['oerr'] = ''
        ev.update({'pool': {c: [] for c in plan['schema']['classes']}, 'nav': [],
                   'attr': {c: [] for c in plan['schema']['classes']}})
        try:
            with limit(10.0):
                ev.update(w.project())
        except CallTimeout:
            ev['oerr'] = 'Timeout'
        except Exception as e:
            ev['oerr'] = '%s: %s' % (type(e).__name__, e)
        events.append(ev)
        if res == 'Timeout' or ev['oerr']:
            break
    return events


def main(plan_path, out_path):
    plan = json.load(open(plan_path))
    out = [run(plan, r['acts']) for r in plan['runs']]
    json.dump(out, open(out_path, 'w'))


if __name__ == '__main__':
    main(sys.argv[1], sys.argv[2])
