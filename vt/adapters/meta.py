"""Replay Meta.tla behaviours on a real xtuml.MetaModel and record one event per
call with the projected abstract state.  Nothing here computes an expected
value; TLC judges the events against MetaTrace.tla.

usage: meta.py plan.json out.json
plan: {"schema": {...}, "gen": "int"|"uuid"|"user", "userids": [...], "obs": {...},
       "runs": [{"acts": [[name, arg..], ..]}, ..]}
"""
import itertools
import json
import operator
import os
import re
import sys
import uuid

import xtuml

sys.path.insert(0, os.path.dirname(os.path.abspath(__file__)))
from _util import limit, CallTimeout
import random
import shutil
import tempfile
import zipfile

LIMIT = 200


from _sql import decode, encode
import _sql


SPELLERS = [lambda s: s, lambda s: s.lower(), lambda s: s.upper(), lambda s: s.swapcase(),
            lambda s: s[:1].lower() + s[1:].upper()]


def spell(name, k):
    return SPELLERS[k % len(SPELLERS)](name)


_SER = re.compile(r'^\s+(.*?),? -- (\w+) : (\w+)$')


def parse_serialized(text):
    """values of one INSERT statement written by xtuml.serialize_instance -> {name: token}"""
    row = {}
    for line in text.splitlines():
        m = _SER.match(line)
        if not m:
            continue
        v, n, ty = m.group(1), m.group(2), m.group(3).upper()
        if ty == 'BOOLEAN':
            row[n] = 'b:%d' % int(v)
        elif ty == 'INTEGER':
            row[n] = 'i:%d' % int(v)
        elif ty == 'REAL':
            row[n] = 'r:%r' % float(v)
        elif ty == 'STRING':
            row[n] = 's:' + v[1:-1].replace("''", "'")
        elif ty == 'UNIQUE_ID':
            row[n] = 'u:%d' % uuid.UUID(v[1:-1]).int
        else:
            row[n] = '?:' + v
    return row


class UserGen(xtuml.IdGenerator):
    def __init__(self, ids):
        self.ids = list(ids)
        self.k = 0
        xtuml.IdGenerator.__init__(self)

    def readfunc(self):
        self.k += 1
        return self.ids[self.k - 1] if self.k <= len(self.ids) else 10 ** 6 + self.k


class UserPoolGen(xtuml.IdGenerator):
    """a user-supplied generator that redefines the public methods next() and peek() (and keeps no state of the base
    class): the ids a metamodel hands out are the values of next()"""
    def __init__(self, ids):
        self.ids = list(ids)
        self.k = 1                       # as UserGen.k: one more than the number of ids handed out

    def _at(self, k):
        return self.ids[k] if k < len(self.ids) else 10 ** 6 + k + 1

    def peek(self):
        return self._at(self.k - 1)

    def next(self):
        self.k += 1
        return self._at(self.k - 2)


def make_generator(plan):
    kind = plan.get('gen', 'int')
    if kind == 'user' and (plan.get('opt') or {}).get('gen_style') == 'methods':
        return UserPoolGen([decode(t) for t in plan.get('userids', [])])
    if kind == 'int':
        return xtuml.IntegerGenerator()
    if kind == 'uuid':
        return xtuml.UUIDGenerator()
    return UserGen([decode(t) for t in plan.get('userids', [])])


def build_metamodel(schema, id_generator, opt=None):
    opt = opt or {}
    m = xtuml.MetaModel(id_generator)
    for c in schema['classes']:
        m.define_class(c, [(a['n'], a['t']) for a in schema['attrs'][c]])
    for a in schema['assocs']:
        ass = m.define_association(a['rel'], a['src'], a['skeys'], a['smany'], a['scond'], a['sphrase'],
                                   a['tgt'], a['tkeys'], a['tmany'], a['tcond'], a['tphrase'])
        ass.formalize()
    referred = {c: set(k for a in schema['assocs'] if a['tgt'] == c for k in a['tkeys']) for c in schema['classes']}
    for j, c in enumerate(schema['classes']):
        for u in schema['uniques'].get(c, []):
            if opt.get('spell_ident') and set(u['attrs']) <= referred[c]:
                # C10: an identifier declared under other spellings of the class and attribute names constrains the same
                # stored values (only identifiers over referred keys: their null check does not go by the declared names)
                m.define_unique_identifier(spell(c, j + 1), u['name'], *[spell(n, j + k + 1) for k, n in enumerate(u['attrs'])])
            else:
                m.define_unique_identifier(c, u['name'], *u['attrs'])
    return m


TIMEOUTS = []


def budget(seconds):
    """the time a call may take; once three calls of this process have run into it (the check has failed by then) the rest
    of the runs get a tenth of it, so that a change that makes a call spin does not cost the full budget thousands of times"""
    return seconds if len(TIMEOUTS) < 3 else max(1.0, seconds / 10)


_QUOTED = re.compile(r"'(?:''|[^'])*'")


def file_form(text, rnd):
    """the text as some editor would have saved it: Windows line ends, or no line break after the last statement (never
    where a string value spans lines or the text ends in a comment)"""
    k = rnd.randint(0, 3)
    if any('\n' in m.group() for m in _QUOTED.finditer(text)) or '--' in text:
        return text
    if k == 2:
        return text.replace('\n', '\r\n')
    if k == 3:
        return text.rstrip('\n')
    return text


class World(object):
    bp = None                        # set by a load through the BridgePoint loader: {'rows': ..., 'globals': ...}

    def __init__(self, plan):
        self.schema = plan['schema']
        self.plan = plan
        self.m = build_metamodel(self.schema, make_generator(plan), plan.get('opt'))
        self.h = {c: [] for c in self.schema['classes']}     # class -> handles by ordinal-1
        self.types = {c: {a['n']: a['t'] for a in self.schema['attrs'][c]} for c in self.schema['classes']}
        self.genkind = plan.get('gen', 'int')
        self.opt = plan.get('opt', {})
        self.refs = {c: set(k for a in self.schema['assocs'] if a['src'] == c for k in a['skeys'])
                     for c in self.schema['classes']}
        self.step = 0

    def cname(self, c):
        """class name as the caller spells it (C10: any letter case addresses the same class)"""
        return spell(c, self.step) if self.opt.get('spell_class') else c

    def inst(self, c, i):
        return self.h[c][i - 1]

    # ---- loading and persisting ----
    def adopt(self, m):
        """continue with another metamodel: handles are its instances in pool order"""
        self.m = m
        self.h = {}
        for c in self.schema['classes']:
            try:
                self.h[c] = list(m.select_many(c))
            except xtuml.UnknownClassException:
                self.h[c] = []

    def load_texts(self, chunks, route, rnd):
        """feed text chunks to a fresh loader through the given route and build"""
        loader = xtuml.ModelLoader()
        tmp = tempfile.mkdtemp(prefix='vt-load-')
        try:
            if route == 'input':
                for ch in chunks:
                    loader.input(ch)
            elif route == 'one':
                loader.input('\n'.join(chunks))
            elif route == 'files':
                for k, ch in enumerate(chunks):
                    p = os.path.join(tmp, 'f%d.sql' % k)
                    with open(p, 'w', encoding='utf-8', newline='') as f:
                        f.write(file_form(ch, rnd))
                    if k % 2:
                        loader.filename_input(p)
                    else:
                        with open(p, 'r', encoding='utf-8') as f:
                            loader.file_input(f)
            elif route == 'load_metamodel':
                paths = []
                for k, ch in enumerate(chunks):
                    p = os.path.join(tmp, 'f%d.sql' % k)
                    with open(p, 'w', encoding='utf-8', newline='') as f:
                        f.write(file_form(ch, rnd))
                    paths.append(p)
                # (a file name, or any iterable of file names)
                res = paths[0] if len(paths) == 1 else [paths, tuple(paths), iter(paths)][rnd.randint(0, 2)]
                m = xtuml.load_metamodel(res)
                m.id_generator = make_generator(self.plan)     # load_metamodel offers no choice of generator
                return m, loader
            elif route.startswith('bp_'):
                # the BridgePoint loader: the ooaofooa schema (and, on demand, the predefined global rows) comes with the
                # loader, the chunks hold rows only
                from bridgepoint import ooaofooa
                loader = ooaofooa.Loader(load_globals=bool(self.bp and self.bp['globals']))
                for path in self.bp_write(chunks, route, tmp, rnd):
                    if path is None:
                        loader.input(chunks[0])
                    else:
                        loader.filename_input(path)
            else:
                raise SystemExit('unknown route %r' % route)
            return loader.build_metamodel(make_generator(self.plan)), loader
        finally:
            shutil.rmtree(tmp, ignore_errors=True)

    def bp_write(self, chunks, route, tmp, rnd):
        """the chunks as model files the way bridgepoint.ooaofooa.ModelLoader.filename_input takes them: single files, a
        directory tree of .xtuml files (files with other endings are not part of the model), a zip archive; -> paths
        ([None]: the text goes to input())"""
        if route == 'bp_input':
            return [None] if len(chunks) == 1 else self.bp_write(chunks, 'bp_files', tmp, rnd)
        if route == 'bp_files':
            paths = []
            for k, ch in enumerate(chunks):
                p = os.path.join(tmp, 'f%d.%s' % (k, ['xtuml', 'sql'][k % 2]))
                with open(p, 'w', encoding='utf-8', newline='') as f:
                    f.write(file_form(ch, rnd))
                paths.append(p)
            return paths
        noise = 'INSERT INTO S_DT VALUES (1, 0, \'not part of the model\', \'\', \'\');\n'
        if route == 'bp_dir':
            # one directory tree, or two trees whose files carry the same names
            roots = [os.path.join(tmp, 'model%d' % j) for j in range(2 if len(chunks) > 2 else 1)]
            half = (len(chunks) + len(roots) - 1) // len(roots)
            for j, root in enumerate(roots):
                for k, ch in enumerate(chunks):
                    if k // half == j:
                        i = k % half
                        d = os.path.join(root, *['pkg%d' % x for x in range(i % 3)])
                        os.makedirs(d, exist_ok=True)
                        with open(os.path.join(d, 'part%d.xtuml' % i), 'w', encoding='utf-8', newline='') as f:
                            f.write(file_form(ch, rnd))
                os.makedirs(root, exist_ok=True)
                with open(os.path.join(root, 'notes.txt'), 'w') as f:
                    f.write(noise)
            return roots
        if route == 'bp_zip':
            # one archive, or two archives whose members carry the same names
            paths = [os.path.join(tmp, 'model%d.zip' % j) for j in range(2 if len(chunks) > 1 else 1)]
            half = (len(chunks) + len(paths) - 1) // len(paths)       # (statement order is kept: the first archive holds
            for j, p in enumerate(paths):                              # the first chunks)
                with zipfile.ZipFile(p, 'w') as z:
                    for k, ch in enumerate(chunks):
                        if k // half == j:
                            i = k % half
                            z.writestr('/'.join(['pkg%d' % x for x in range(i % 3)] + ['part%d.xtuml' % i]), file_form(ch, rnd))
                    z.writestr('readme.txt', noise)
            return paths
        raise SystemExit('unknown route %r' % route)

    def render_population(self, rows, rnd, order='schema_first', nchunks=1, named=None, parts=None, modes=None):
        sch = [s for _, s in _sql.schema_statements(self.schema, rnd, parts if parts is not None else ('table', 'rop', 'index'))]
        if modes is not None:
            # no (or not every) CREATE TABLE statement: values in the lexical form that fixes their type, one insert
            # form per class
            ins = [_sql.insert_statement(self.schema, r, rnd, bool(modes[r['c']]), True) for r in rows]
        else:
            ins = [_sql.insert_statement(self.schema, r, rnd, named) for r in rows]
        if order == 'schema_first':
            stmts = sch + ins
        elif order == 'schema_last':
            stmts = ins + sch
        else:                                   # schema statements scattered; inserts keep their relative order
            stmts = list(ins)
            for s in sch:
                stmts.insert(rnd.randint(0, len(stmts)), s)
        nchunks = max(1, min(nchunks, len(stmts)))
        cuts = sorted(rnd.sample(range(1, len(stmts)), nchunks - 1)) if nchunks > 1 else []
        chunks, prev = [], 0
        for c in cuts + [len(stmts)]:
            chunks.append('\n'.join(stmts[prev:c]) + '\n')
            prev = c
        return chunks

    def save_texts(self, route):
        m = self.m
        tmp = tempfile.mkdtemp(prefix='vt-save-')
        try:
            if route == 'serialize_database':
                return [xtuml.serialize_database(m)]
            if route == 'serialize':
                return [xtuml.serialize(m)]
            if route == 'parts':
                return [xtuml.serialize_schema(m), xtuml.serialize_instances(m), xtuml.serialize_unique_identifiers(m)]
            if route == 'parts_reordered':
                return [xtuml.serialize_instances(m), xtuml.serialize_unique_identifiers(m), xtuml.serialize_schema(m)]
            if route == 'persist_database':
                p = os.path.join(tmp, 'db.sql')
                xtuml.persist_database(m, p)
                return [open(p, encoding='utf-8').read()]
            if route == 'persist_parts':
                ps = [os.path.join(tmp, n) for n in ('s.sql', 'i.sql', 'u.sql')]
                xtuml.persist_schema(m, ps[0])
                xtuml.persist_instances(m, ps[1])
                xtuml.persist_unique_identifiers(m, ps[2])
                return [open(p, encoding='utf-8').read() for p in ps]
            if route == 'persist_append':
                p = os.path.join(tmp, 'db.sql')
                xtuml.persist_schema(m, p)
                xtuml.persist_instances(m, p, mode='a')
                xtuml.persist_unique_identifiers(m, p, mode='a')
                return [open(p, encoding='utf-8').read()]
            if route == 'instances_only':
                return [xtuml.serialize_instances(m)]
            if route == 'classes_assocs':
                return [xtuml.serialize_classes(m) + xtuml.serialize_associations(m)
                        + ''.join(xtuml.serialize(x) for x in m.instances) + xtuml.serialize_unique_identifiers(m)]
            raise SystemExit('unknown save route %r' % route)
        finally:
            shutil.rmtree(tmp, ignore_errors=True)

    def schema_projection(self):
        m = self.m
        attrs, uniq = {}, {}
        for c in self.schema['classes']:
            try:
                mc = m.find_metaclass(c)
            except xtuml.UnknownClassException:
                attrs[c], uniq[c] = [['?', '?']], []
                continue
            attrs[c] = [[n, t.upper()] for n, t in mc.attributes] or [['?', '?']]
            uniq[c] = sorted([[k, list(v)] for k, v in mc.indices.items()])
        assocs = []
        inside = set(c.upper() for c in self.schema['classes'])
        for a in m.associations:
            if self.bp and not (a.source_link.from_metaclass.kind.upper() in inside and
                                a.target_link.from_metaclass.kind.upper() in inside):
                continue                # (the ooaofooa schema is compared on the classes of the plan's part of it)
            assocs.append({'rel': a.rel_id, 'src': a.target_link.from_metaclass.kind, 'skeys': list(a.source_keys),
                           'smany': bool(a.source_link.many), 'scond': bool(a.source_link.conditional),
                           'sphrase': a.target_link.phrase,
                           'tgt': a.source_link.from_metaclass.kind, 'tkeys': list(a.target_keys),
                           'tmany': bool(a.target_link.many), 'tcond': bool(a.target_link.conditional),
                           'tphrase': a.source_link.phrase})
        extra = sorted(k for k in m.metaclasses if k not in [c.upper() for c in self.schema['classes']])
        if self.bp:
            extra = []
        return {'attrs': attrs, 'uniques': uniq, 'assocs': assocs, 'extra': extra}

    def ordinal(self, c, inst):
        for k, x in enumerate(self.h[c]):
            if x is inst:
                return k + 1
        return -1

    def ords(self, c, insts):
        return [self.ordinal(c, x) for x in itertools.islice(iter(insts), LIMIT)]

    # ---- projection of the abstract state through the public API ----
    def project(self):
        sch = self.schema
        known = {c: self.known(c) for c in sch['classes']}
        pool = {c: self.ords(c, self.m.select_many(self.cname(c))) if known[c] else [] for c in sch['classes']}
        nav = []
        for a in sch['assocs']:
            f = [self.ords(a['src'], xtuml.navigate_many(t).nav(self.cname(a['src']), a['rel'], a['tphrase'])())
                 for t in self.h[a['tgt']]]
            b = [self.ords(a['tgt'], xtuml.navigate_many(s).nav(self.cname(a['tgt']), a['rel'], a['sphrase'])())
                 for s in self.h[a['src']]]
            nav.append({'fwd': f, 'bwd': b})
        attr = {}
        spl = {c: [] for c in sch['classes']}
        ser = {c: [] for c in sch['classes']}
        for c in sch['classes']:
            rows = []
            for x in itertools.islice(iter(self.m.select_many(c)) if known[c] else [], LIMIT):
                row = {}
                for a in sch['attrs'][c]:
                    row[a['n']] = self.read(x, a['n'], a['t'])
                rows.append(row)
                if self.opt.get('spell_attr'):
                    spl[c].append({a['n']: [self.read(x, sp(a['n']), a['t']) for sp in SPELLERS[1:]]
                                   for a in sch['attrs'][c]})
                if self.opt.get('serialize'):
                    try:
                        ser[c].append(parse_serialized(xtuml.serialize_instance(x)))
                    except Exception as e:
                        ser[c].append({a['n']: 'error:' + type(e).__name__ for a in sch['attrs'][c]})
            attr[c] = rows
        return {'pool': pool, 'nav': nav, 'attr': attr, 'spell': spl, 'ser': ser}

    def known(self, c):
        try:
            self.m.find_metaclass(c)
            return True
        except xtuml.UnknownClassException:
            return False

    def read(self, x, name, ty):
        try:
            return encode(getattr(x, name), ty)
        except AttributeError:
            # a class inferred from a positional INSERT names its attributes _0, _1, ...: read by position
            mc = xtuml.get_metaclass(x)
            names = list(mc.attribute_names)
            if names and all(re.match(r'^_\d+$', n) for n in names):
                decl = [a['n'] for a in self.schema['attrs'].get(mc.kind, [])]
                if name in decl and decl.index(name) < len(names):
                    try:
                        v = getattr(x, names[decl.index(name)])
                    except AttributeError:
                        return 'absent'
                    actual = (mc.attribute_type(names[decl.index(name)]) or '').upper()
                    if ty.upper() == 'BOOLEAN' and actual == 'INTEGER' and v in (0, 1):
                        return 'b:%d' % v     # a boolean persisted without its schema comes back as the integer 0 / 1
                    return encode(v, ty)
            return 'absent'

    # ---- observations (MetaObs.tla Eval) ----
    def start(self, f, k, sized=False):
        if f['k'] == 'none':
            return None
        if f['k'] == 'inst':
            return self.inst(f['c'], f['i'])
        if f['k'] == 'all':
            s = self.m.select_many(self.cname(f['c']))
        else:
            s = self.m.select_many(self.cname(f['c']), *self.ops(f['ops'], k))
        # any iterable is a legal start: query set, list, generator
        return [s, list(s), (x for x in list(s))][k % (2 if sized else 3)]

    def ops(self, ops, k):
        out = []
        for j, op in enumerate(ops):
            if op['k'] == 'eq':
                kv = {}
                for i, (n, v) in enumerate(op['kv']):
                    name = spell(n, k + j) if self.opt.get('spell_attr') else n
                    if name in kv:
                        # the same attribute named twice in one filter: under another spelling
                        alts = [f(n) for f in SPELLERS] + [n.upper(), n.lower(), n.swapcase(), n.capitalize()]
                        alts = [a for a in alts if a not in kv]
                        if not alts:
                            continue
                        name = alts[(k + i) % len(alts)]
                    kv[name] = decode(v)
                out.append(xtuml.where_eq(**kv) if (k + j) % 2 else kv)
            elif op['k'] == 'lam':
                fn = {'eq': operator.eq, 'ne': operator.ne, 'lt': operator.lt, 'le': operator.le,
                      'gt': operator.gt, 'ge': operator.ge}[op['cmp']]
                out.append(lambda sel, fn=fn, n=op['n'], v=decode(op['v']): fn(getattr(sel, n), v))
            elif op['k'] == 'ord':
                out.append((xtuml.reverse_order_by if op['rev'] else xtuml.order_by)(*op['ns']))
        return out

    def observe(self, o, k):
        R = lambda e='', r=(), n=0, b=False, s='': {'e': e, 'r': list(r), 'n': n, 'b': b, 's': s}
        try:
            kind = o['k']
            if kind == 'sel':
                if o['form'] == 'many':
                    return R(r=self.ords(o['c'], self.m.select_many(self.cname(o['c']), *self.ops(o['ops'], k))))
                fn = self.m.select_one if k % 2 else self.m.select_any
                x = fn(self.cname(o['c']), *self.ops(o['ops'], k))
                return R(r=[] if x is None else self.ords(o['c'], [x]))
            if kind == 'nav':
                start = self.start(o['from'], k)
                last = o['chain'][-1][0] if o['chain'] else o['from']['c']
                if o['form'] == 'many':
                    ch = xtuml.navigate_many(start)
                elif o['form'] == 'one':
                    ch = xtuml.navigate_one(start)
                else:
                    ch = xtuml.navigate_any(start)
                for j, (kd, rel, ph) in enumerate(o['chain']):
                    num = int(rel[1:]) if (k + j) % 2 and rel[1:].isdigit() else rel
                    if (k + j) % 3 == 0:
                        ch = ch.nav(self.cname(kd), num, ph)
                    else:
                        ch = getattr(ch, self.cname(kd))[(num, ph) if ph or j % 2 else num]
                out = ch(*self.ops(o['ops'], k))
                if o['form'] == 'many':
                    return R(r=self.ords(last, out))
                return R(r=[] if out is None else self.ords(last, [out]))
            if kind == 'sub':
                x = xtuml.navigate_subtype(self.inst(o['c'], o['i']), int(o['rel'][1:]) if k % 2 else o['rel'])
                if x is None:
                    return R()
                kd = xtuml.get_metaclass(x).kind
                return R(r=self.ords(kd, [x]), s=kd)
            if kind == 'card':
                return R(n=xtuml.cardinality(self.start(o['from'], k, sized=True)))
            if kind == 'chk_assoc':
                rel = o['rel']
                if rel == '':
                    return R(n=xtuml.check_association_integrity(self.m))
                return R(n=xtuml.check_association_integrity(self.m, int(rel[1:]) if k % 2 else rel))
            if kind == 'chk_id':
                # (key letters are case-insensitive: the restriction names the class under a rotating spelling)
                return R(n=xtuml.check_uniqueness_constraint(self.m, spell(o['c'], k) if o['c'] else None))
            if kind == 'consistent':
                return R(b=bool(self.m.is_consistent()))
            if kind == 'cli':
                return self.cli(o, R)
            if kind == 'chk_sub':
                return R(n=xtuml.check_subtype_integrity(self.m, self.cname(o['c']), o['rel']))
            if kind == 'sort':
                if o['all']:
                    qs = self.m.select_many(o['c'])
                else:
                    qs = xtuml.QuerySet([self.inst(o['c'], i) for i in o['sub']])
                out = xtuml.sort_reflexive(qs, int(o['rel'][1:]) if k % 2 else o['rel'], o['ph'])
                return R(r=self.ords(o['c'], out))
            raise SystemExit('unknown observation %r' % (o,))
        except CallTimeout:
            raise
        except xtuml.MetaException as e:
            return R(e=type(e).__name__)
        except Exception as e:
            return R(e='PY:' + type(e).__name__)

    def cli(self, o, R):
        """the command-line consistency checker on the persisted model: violation count returned by main(), and (for a
        share of the calls) the exit status of the real process"""
        import logging
        import subprocess
        import xtuml.consistency_check as cc
        tmp = tempfile.mkdtemp(prefix='vt-cli-')
        try:
            p = os.path.join(tmp, 'db.sql')
            if self.bp:
                # bridgepoint.consistency_check: the rows of the model as files / directory / archive; the schema (and with
                # -g the predefined rows) is the tool's own
                import bridgepoint.consistency_check as cc
                rnd = random.Random(o.get('seed', 0))
                chunks = self.render_population(self.bp['rows'], rnd, nchunks=o.get('files', 1), parts=[]) if self.bp['rows'] else ['']
                paths = self.bp_write(chunks, o.get('route', 'bp_files') if o.get('route') != 'bp_input' else 'bp_files', tmp, rnd)
                script = os.path.join(os.path.dirname(cc.__file__), 'consistency_check.py')
            else:
                xtuml.persist_database(self.m, p)
                paths = [p]
                script = None
            args = ['-g'] if self.bp and self.bp['globals'] else []
            for r in o['rels']:
                args += ['-r', r[1:]]
            for j, c in enumerate(o['kinds']):
                args += ['-k', spell(c, len(o['rels']) + j)]
            logging.disable(logging.CRITICAL)
            try:
                n = cc.main(args + paths)
            finally:
                logging.disable(logging.NOTSET)
            nonzero = n > 0
            if o.get('proc'):
                rc = subprocess.run([sys.executable, '-m', cc.__name__] + args + paths, stdout=subprocess.DEVNULL,
                                    stderr=subprocess.DEVNULL, timeout=60).returncode
                if (rc != 0) != nonzero or rc not in (0, 1):
                    return R(e='exit status %d for %d violations' % (rc, n))
            return R(n=n, b=nonzero)
        finally:
            shutil.rmtree(tmp, ignore_errors=True)

    # ---- actions ----
    def act(self, act, k, ev):
        name = act[0]
        if name == 'New':
            c, pos, kw = act[1], act[2], act[3] if len(act) > 3 else {}
            ev.update({'c': c, 'pos': list(pos), 'kw': dict(kw) if kw else {'_': '_'}, 'ids': [], 'g': -1})
            inst = None
            before = len(self.m.find_metaclass(c).storage)
            kwargs = {(spell(n, k) if self.opt.get('spell_attr') else n): decode(t) for n, t in (kw or {}).items()}
            try:
                if k % 2:
                    inst = self.m.new(self.cname(c), *[decode(t) for t in pos], **kwargs)
                else:
                    inst = self.m.find_metaclass(self.cname(c))(*[decode(t) for t in pos], **kwargs)
            finally:
                st = self.m.find_metaclass(c).storage
                if inst is None and len(st) > before:
                    inst = st[-1]                     # created although the call failed
                if inst is not None:
                    self.h[c].append(inst)
                    slots = [a['n'] for a in self.schema['attrs'][c]
                             if a['t'].upper() == 'UNIQUE_ID' and a['n'] not in self.refs[c]]
                    ev['ids'] = [self.read(inst, n, 'UNIQUE_ID') for n in slots]
                if self.genkind == 'int':
                    ev['g'] = self.m.id_generator.peek() - 1
                elif self.genkind == 'user':
                    ev['g'] = self.m.id_generator.k - 1   # ids the harness' own generator has handed out
            return ev, 'none'
        if name == 'LoadBuild':
            rows, how = act[1], (act[2] if len(act) > 2 else {})
            ev.update({'rows': rows, 'g': -1, 'how': how})
            rnd = random.Random(how.get('seed', k))
            if how.get('route', '').startswith('bp_'):
                # the first how['skip'] rows are the predefined global rows: the loader brings them itself
                self.bp = {'rows': rows[how.get('skip', 0):], 'globals': bool(how.get('skip'))}
                chunks = self.render_population(self.bp['rows'], rnd, nchunks=how.get('chunks', 1), parts=[]) if self.bp['rows'] else ['']
            else:
                chunks = self.render_population(rows, rnd, how.get('order', 'schema_first'), how.get('chunks', 1),
                                                how.get('named'), how.get('parts'), how.get('modes'))
            if how.get('infer'):
                ev['infer'] = how['infer']
            m, _ = self.load_texts(chunks, how.get('route', 'input'), rnd)
            self.adopt(m)
            ev['schema'] = self.schema_projection()
            if self.genkind == 'int':
                ev['g'] = self.m.id_generator.peek() - 1
            return ev, 'none'
        if name == 'SaveLoad':
            how = act[1] if len(act) > 1 else {}
            ev.update({'g': -1, 'how': how})
            rnd = random.Random(how.get('seed', k))
            texts = self.save_texts(how.get('save', 'serialize_database'))
            m, _ = self.load_texts(texts, how.get('route', 'input'), rnd)
            self.adopt(m)
            ev['schema'] = self.schema_projection()
            if how.get('infer'):
                ev['infer'] = how['infer']
            # the text is a fixed point after one round
            t1 = xtuml.serialize(self.m)
            l2 = xtuml.ModelLoader()
            l2.input(t1)
            t2 = xtuml.serialize(l2.build_metamodel(xtuml.IntegerGenerator()))
            ev['fix'] = 'yes' if t1 == t2 else 'no'
            if self.genkind == 'int':
                ev['g'] = self.m.id_generator.peek() - 1
            return ev, 'none'
        if name == 'NewRow':
            row, how = act[1], (act[2] if len(act) > 2 else {})
            c = row['c']
            ev.update({'row': row, 'g': -1, 'c': c})
            names = [a['n'] for a in self.schema['attrs'][c]]
            given = {n: decode(t) for n, t in row['v'].items() if t != 'unset'}
            inst = None
            before = len(self.m.find_metaclass(c).storage)
            try:
                if how.get('clone') is not None:
                    # clone the corresponding instance of another metamodel, loaded from the whole population
                    if getattr(self, 'source', None) is None:
                        rnd = random.Random(7)
                        chunks = self.render_population(how['src'], rnd)
                        self.source, _ = self.load_texts(chunks, 'input', rnd)
                    tmp = list(self.source.select_many(c))[how['clone']]
                    # the row is what the clone call reads from the source instance
                    ev['row'] = {'c': c, 'v': {a['n']: self.read(tmp, a['n'], a['t']) for a in self.schema['attrs'][c]}}
                    inst = self.m.clone(tmp)
                elif how.get('positional') and len(given) == len(names):
                    inst = self.m.new(self.cname(c), *[given[n] for n in names])
                else:
                    kw = {(spell(n, k) if self.opt.get('spell_attr') else n): v for n, v in given.items()}
                    inst = self.m.new(self.cname(c), **kw)
            finally:
                st = self.m.find_metaclass(c).storage
                if inst is None and len(st) > before:
                    inst = st[-1]
                if inst is not None:
                    self.h[c].append(inst)
                if self.genkind == 'int':
                    ev['g'] = self.m.id_generator.peek() - 1
            return ev, 'none'
        if name == 'BatchRelate':
            ev.update({'a': act[1]})
            a = self.schema['assocs'][act[1] - 1]
            found = [x for x in self.m.associations
                     if x.rel_id == a['rel'] and x.target_link.from_metaclass.kind.upper() == a['src'].upper()
                     and x.source_link.from_metaclass.kind.upper() == a['tgt'].upper() and list(x.source_keys) == a['skeys']]
            found[0].batch_relate()
            return ev, 'none'
        if name == 'LoadInto':
            # a second loader that holds rows only populates the existing metamodel
            rows = act[1]
            ev.update({'rows': rows, 'g': -1})
            rnd = random.Random(k)
            before = set(id(x) for c in self.schema['classes'] for x in self.m.find_metaclass(c).storage)
            loader = xtuml.ModelLoader()
            for r in rows:
                loader.input(_sql.insert_statement(self.schema, r, rnd) + '\n')
            try:
                loader.populate(self.m)
            finally:
                for c in self.schema['classes']:
                    self.h[c] += [x for x in self.m.find_metaclass(c).storage if id(x) not in before]
                if self.genkind == 'int':
                    ev['g'] = self.m.id_generator.peek() - 1
            return ev, 'none'
        if name == 'NewUnknown':
            ev.update({'c': act[1]})
            # an attribute of unknown type is rejected whether or not the call supplies a value for it
            how = act[2] if len(act) > 2 else 'omitted'
            names = [a['n'] for a in self.schema['attrs'][act[1]]]
            odd = [j for j, a in enumerate(self.schema['attrs'][act[1]])
                   if a['t'].upper() not in ('BOOLEAN', 'INTEGER', 'REAL', 'STRING', 'UNIQUE_ID')]
            if how == 'positional':
                self.m.new(act[1], *[7] * (max(odd) + 1))
            elif how == 'keyword':
                self.m.new(act[1], **{spell(names[j], k): 'x' for j in odd})
            elif how == 'all':
                self.m.find_metaclass(act[1])(*[3] * len(names))
            else:
                self.m.new(act[1])
            return ev, 'none'
        if name in ('SetAttr', 'DelAttr'):
            c, i, n = act[1], act[2], act[3]
            sp = spell(n, k)
            ev.update({'x': [c, i], 'n': n, 'sp': sp})
            if name == 'SetAttr':
                ev['v'] = act[4]
                setattr(self.inst(c, i), sp, decode(act[4]))
            else:
                delattr(self.inst(c, i), sp)
            return ev, 'none'
        if name in ('GenNext', 'GenPeek'):
            g = self.m.id_generator
            ev['id'] = ''
            v = (g.next() if k % 2 else next(g)) if name == 'GenNext' else g.peek()
            ev['id'] = encode(v, 'UNIQUE_ID')
            return ev, ev['id']
        if name in ('Relate', 'Unrelate'):
            cx, ix, cy, iy, rel, ph = act[1:7]
            ev.update({'x': [cx, ix], 'y': [cy, iy], 'rel': rel, 'ph': ph})
            fn = xtuml.relate if name == 'Relate' else xtuml.unrelate
            r = rel if k % 2 else (int(rel[1:]) if rel[1:].isdigit() else rel)   # 'R1' and 1 are the same number
            if ph == '' and k % 3 == 0:
                out = fn(self.inst(cx, ix), self.inst(cy, iy), r)
            else:
                out = fn(self.inst(cx, ix), self.inst(cy, iy), r, ph)
            return ev, repr(out)
        if name == 'RelateNone':
            cs = self.schema['classes']
            some = next((x for c in cs for x in self.h[c]), None)
            rel = self.schema['assocs'][0]['rel'] if self.schema['assocs'] else 'R1'
            variants = [lambda: xtuml.relate(None, some, rel), lambda: xtuml.relate(some, None, rel),
                        lambda: xtuml.unrelate(None, some, rel), lambda: xtuml.unrelate(some, None, rel, 'x')]
            return ev, repr(variants[k % 4]())
        if name == 'Delete':
            c, i = act[1], act[2]
            ev.update({'x': [c, i]})
            if k % 2:
                xtuml.delete(self.inst(c, i))
            else:
                self.m.find_metaclass(c).delete(self.inst(c, i))
            return ev, 'none'
        raise SystemExit('unknown action %r' % (act,))


_SHADOWED = set()
_RETYPE = {'INTEGER': 'UNIQUE_ID', 'UNIQUE_ID': 'INTEGER', 'STRING': 'BOOLEAN', 'BOOLEAN': 'STRING', 'REAL': 'STRING'}
_ZERO = {'INTEGER': 0, 'UNIQUE_ID': 0, 'STRING': '', 'BOOLEAN': False, 'REAL': 0.0}


def shadow_prelude(schema):
    """Another metamodel lives in the same process: same class, attribute and association names, but every attribute of
    another type.  It is loaded with rows that hold the null / zero value of every type and with rows that hold other
    values, used through the API and dropped.  Metamodels are independent: nothing of this may show in the run."""
    key = json.dumps(schema, sort_keys=True)
    if key in _SHADOWED:
        return
    _SHADOWED.add(key)
    sh = dict(schema, attrs={c: [{'n': a['n'], 't': _RETYPE.get(a['t'].upper(), a['t'])} for a in schema['attrs'][c]]
                             for c in schema['classes']})
    if any(a['t'].upper() not in _ZERO for c in sh['classes'] for a in sh['attrs'][c]):
        return
    try:
        rnd = random.Random(1)
        text = '\n'.join(st for _, st in _sql.schema_statements(sh, rnd))
        loader = xtuml.ModelLoader()
        loader.input(text)
        m = loader.build_metamodel()
        for rep in range(2):
            for c in sh['classes']:
                vals = {a['n']: (_ZERO[a['t'].upper()] if rep == 0 else {'INTEGER': 3, 'UNIQUE_ID': 3, 'STRING': 'x',
                                                                         'BOOLEAN': True}[a['t'].upper()])
                        for a in sh['attrs'][c]}
                try:
                    m.new(c, **vals)
                except xtuml.MetaException:
                    pass
        l2 = xtuml.ModelLoader()
        l2.input(xtuml.serialize(m))
        m2 = l2.build_metamodel()
        xtuml.check_association_integrity(m2)
        xtuml.check_uniqueness_constraint(m2)
    except Exception:
        pass                                  # (the prelude is not judged)


def run(plan, acts, obs=None):
    if (plan.get('opt') or {}).get('shadow'):
        shadow_prelude(plan['schema'])
    w = World(plan)
    events = []
    for k, act in enumerate(acts):
        w.step = k
        ev = {'op': act[0]}
        try:
            with limit(budget(10.0)):
                ev, res = w.act(act, k, ev)
        except CallTimeout:
            res = 'Timeout'
            TIMEOUTS.append(1)
        except (xtuml.MetaException, xtuml.ParsingException) as e:
            res = type(e).__name__
        except Exception as e:
            res = 'PY:' + type(e).__name__
        ev['res'] = res
        ev['oerr'] = ''
        empty = {c: [] for c in plan['schema']['classes']}
        ev.update({'pool': dict(empty), 'nav': [], 'attr': dict(empty), 'spell': dict(empty), 'ser': dict(empty),
                   'q': [], 'qr': []})
        ev.setdefault('fix', '')
        ev.setdefault('schema', {'attrs': {'_': []}, 'uniques': {'_': []}, 'assocs': [], 'extra': ['-']})
        if ev['op'] in ('DelAttr',) and res.startswith('PY:'):
            res = res[3:]
            ev['res'] = res
        try:
            with limit(budget(20.0)):
                ev.update(w.project())
                qs = (obs[k] if obs and k < len(obs) else []) or []
                ev['qr'] = [w.observe(o, k + j) for j, o in enumerate(qs)]
                ev['q'] = qs
        except CallTimeout:
            ev['oerr'] = 'Timeout'
            TIMEOUTS.append(1)
        except Exception as e:
            ev['oerr'] = '%s: %s' % (type(e).__name__, e)
        events.append(ev)
        if res == 'Timeout' or ev['oerr'] or ev['op'] == 'NewUnknown':
            break
    return events


def main(plan_path, out_path):
    plan = json.load(open(plan_path))
    out = [run(plan, r['acts'], r.get('obs')) for r in plan['runs']]
    json.dump(out, open(out_path, 'w'))


if __name__ == '__main__':
    main(sys.argv[1], sys.argv[2])
