"""Prebuild an OAL action of a synthesised BridgePoint model into ooaofooa Body /
Value instances, generate text back from them, and record what the generated
text parses to (C05) and facts about the prebuilt population (C06).
usage: prebuildgen.py plan.json out.json
plan: {"schema": oal schema, "runs": [{"items": [{"home", "body", "toks", "seed", "case", "layout"}]}]}"""
import json
import os
import sys

sys.path.insert(0, os.path.dirname(os.path.abspath(__file__)))
from _util import limit, CallTimeout
from oal_render import render
import _bp
import bp
import calls
import oal as oaladapter

import xtuml
from xtuml import navigate_one as one, navigate_many as many
from bridgepoint import oal, prebuild, sourcegen

STUB = 'return 1;'


def environment():
    """the callables every model declares, so that invocations in the corpus resolve"""
    F = lambda params, ptypes, ret='integer': {'params': params, 'ptypes': ptypes, 'ret': ret, 'body': []}
    env = {
        'funcs': {'fact': F(['n'], {'n': 'integer'}), 'tally': F(['n'], {'n': 'integer'}, 'Count'), 'mix': F(['a', 'b', 's', 'f'], {'a': 'integer', 'b': 'integer', 's': 'string', 'f': 'boolean'})},
        'ops': {'A': {'cop': dict(F(['x'], {'x': 'integer'}), inst=False), 'iop': dict(F(['k'], {'k': 'integer'}), inst=True)}},
        'bridges': {'EE1': {'br': F(['s', 'n'], {'s': 'string', 'n': 'integer'})}},
        'derived': {'A': {'Calc': {'ty': 'integer', 'body': []}}},
        'enums': {'Color': ['RED', 'GREEN', 'BLUE']},
        'consts': {'LIMIT': ('integer', '7'), 'GREETING': ('string', 'go'), 'ENABLED': ('boolean', 'true')},
    }
    texts = {'func:fact': STUB, 'func:tally': STUB, 'func:mix': STUB, 'op:A:cop': STUB, 'op:A:iop': STUB, 'bridge:EE1:br': STUB,
             'derived:A:Calc': 'self.Calc = 1;'}
    return env, texts


# (Count is a user-defined data type over integer: a value keeps the declared type, not its base type)
# (vec is an array of integers)
PARAMS = [{'n': 'x', 'ty': 'integer'}, {'n': 'flag', 'ty': 'boolean'}, {'n': 's', 'ty': 'string'}, {'n': 'cnt', 'ty': 'Count'},
          {'n': 'vec', 'ty': 'integer', 'dims': '[4]'}]


PORT_HOMES = {'portop': 'handler', 'portsig': 'notify'}


def with_ports(d, home, text, seed):
    """everything the model declares moves into the component C1; C1 gets the ports Req (requires) and Prov (provides) of the
    interface Iface: the messages the corpus sends (op1, op0, sig1, sig0) and, as action homes, the operation handler and
    the signal notify with the parameters every home has"""
    d['comps'] = ['C1']
    for key in ('enums', 'udts', 'classes', 'rels', 'funcs', 'ees', 'consts'):
        for x in d.get(key, []):
            x['comp'] = 'C1'
    P = lambda n, ty: {'n': n, 'ty': ty}
    d['ifaces'] = [{'n': 'Iface', 'eps': [
        {'n': 'op1', 'k': 'op', 'ret': 'integer', 'params': [P('a', 'integer'), P('b', 'string')]},
        {'n': 'op0', 'k': 'op', 'ret': 'void', 'params': []},
        {'n': 'sig1', 'k': 'sig', 'params': [P('n', 'integer')]},
        {'n': 'sig0', 'k': 'sig', 'params': []},
        {'n': 'handler', 'k': 'op', 'ret': 'integer', 'params': PARAMS},
        {'n': 'notify', 'k': 'sig', 'params': PARAMS}]}]
    side = 'Req' if seed % 2 else 'Prov'
    bodies = {side: {PORT_HOMES[home]: text}} if home in PORT_HOMES else {}
    d['ports'] = [{'n': 'Req', 'k': 'R', 'iface': 'Iface', 'comp': 'C1', 'bodies': bodies.get('Req', {})},
                  {'n': 'Prov', 'k': 'P', 'iface': 'Iface', 'comp': 'C1', 'bodies': bodies.get('Prov', {})}]


def align_port_kinds(src, real):
    """The word send in front of a message across a port is optional; the text generator leaves it out of statements and
    writes it in front of assignments.  Which of the two node classes (port / implicit invocation) the regenerated
    statement parses to is therefore not compared: the invocations across the ports take the kind the source has"""
    def walk(x, out):
        if isinstance(x, dict):
            if x.get('t') == 'icall' and x.get('ns') in ('Req', 'Prov'):
                out.append(x)
            for k in sorted(x):
                walk(x[k], out)
        elif isinstance(x, list):
            for v in x:
                walk(v, out)
        return out
    a, b = walk(src, []), walk(real, [])
    if len(a) == len(b) and all(x['n'] == y['n'] and x['ns'] == y['ns'] for x, y in zip(a, b)):
        for x, y in zip(a, b):
            if {x['kind'], y['kind']} <= {'port', 'implicit'}:
                y['kind'] = x['kind']


def model_with(schema, home, text, seed, incomp=False, other=None):
    env, texts = environment()
    item = {'env': env, 'texts': dict(texts), 'script_texts': []}
    d = calls.diagram(schema, item)
    d['irdt'] = True
    d['udts'].append({'n': 'Count', 'base': 'integer', 'comp': ''})
    # a second constant specification that holds a constant of the same name as the first one (and one of its own)
    d['consts'].append({'n': 'Bounds', 'items': [{'n': 'LIMIT', 'ty': 'integer', 'v': '9'}, {'n': 'FLOOR', 'ty': 'integer', 'v': '1'}]})
    # state machines: the events the event statements of the corpus name (oalgen.Gen.INST_EVENTS / CLASS_EVENTS), and for
    # the home `state` a state of A's instance state machine whose incoming event carries the data items x, flag, s, cnt
    # (what a parameter is to a function, a data item of the received event is to a state action)
    E = lambda numb, mning, *data: {'numb': numb, 'mning': mning, 'data': [{'n': x[0], 'ty': x[1], 'dims': (x[2:] or [''])[0]} for x in data]}
    ca, cb = [c for c in d['classes'] if c['kl'] == 'A'][0], [c for c in d['classes'] if c['kl'] == 'B'][0]
    # an array-valued attribute
    ca['attrs'].append({'n': 'Items', 'k': 'base', 'ty': 'integer', 'dims': '[4]'})
    ca['sms'] = [{'kind': 'inst',
                  'events': [E(1, 'go', ('x', 'integer'), ('flag', 'boolean'), ('s', 'string')), E(2, 'stop now'),
                             E(3, 'set', ('n', 'integer')), E(4, 'work', *[(p['n'], p['ty'], p.get('dims', '')) for p in PARAMS]),
                             dict(E(5, 'poly', ('n', 'integer')), poly=('star' if seed % 2 else 'plain'))],
                  'states': [{'n': 'Idle', 'numb': 1, 'body': ''},
                             dict({'n': 'Working', 'numb': 2, 'via': 4, 'body': text if home == 'state' else '', 'creation': seed % 3 == 0},
                                  **({'tbody': text} if home == 'transition' else {}))]},
                 {'kind': 'class', 'events': [E(1, 'tick', ('n', 'integer')), E(2, 'reset')],
                  'states': [{'n': 'Waiting', 'numb': 1, 'body': ''}]}]
    cb['sms'] = [{'kind': 'inst', 'events': [E(1, 'ping', ('n', 'integer'), ('m', 'integer'))],
                  'states': [{'n': 'Listening', 'numb': 1, 'body': ''}]}]
    if other is not None:
        # a second generated body lives in the same model (a function of its own); the whole model is prebuilt
        d['funcs'].append({'n': 'other_target', 'ret': 'integer', 'body': other, 'params': PARAMS})
    if home == 'func':
        d['funcs'].append({'n': 'target', 'ret': 'integer', 'body': text, 'params': PARAMS})
    elif home == 'bridge':
        d['ees'][0]['bridges'].append({'n': 'target', 'ret': 'integer', 'body': text, 'params': PARAMS})
    elif home == 'op':
        [c for c in d['classes'] if c['kl'] == 'A'][0]['ops'].append({'n': 'target', 'inst': True, 'ret': 'integer', 'body': text,
                                                                      'params': PARAMS})
    elif home == 'derived':
        [a for a in [c for c in d['classes'] if c['kl'] == 'A'][0]['attrs'] if a['n'] == 'Calc'][0]['body'] = text
    if incomp:
        with_ports(d, home, text, seed)
    syn = _bp.Synth(d, seed)
    loader = bp.fresh_loader()
    loader.input(''.join(syn.statements(seed if seed % 2 else None)))
    m = loader.build_metamodel()
    if home in PORT_HOMES:
        kinds = ('SPR_RO', 'SPR_PO') if home == 'portop' else ('SPR_RS', 'SPR_PS')
        inst = [x for kind in kinds for x in m.select_many(kind) if x.Name == PORT_HOMES[home] and x.Action_Semantics_internal == text][0]
        return m, inst
    if home == 'func':
        inst = m.select_any('S_SYNC', xtuml.where_eq(Name='target'))
    elif home == 'bridge':
        inst = m.select_any('S_BRG', xtuml.where_eq(Name='target'))
    elif home == 'op':
        inst = m.select_any('O_TFR', xtuml.where_eq(Name='target'))
    elif home == 'state':
        inst = [a for a in m.select_many('SM_ACT') if (one(a).SM_AH[514].SM_MOAH[513].SM_STATE[511]() or a).Name == 'Working'][0]
    elif home == 'transition':
        inst = [a for a in m.select_many('SM_ACT') if one(a).SM_AH[514].SM_TAH[513]()][0]
    else:
        inst = m.select_any('O_DBATTR')
    return m, inst


def violations(m, home):
    """number of multiplicity and uniqueness violations.  In a state action a read of a data item of the received event is a
    V_EPR instance without property parameter, and the ooaofooa schema makes PP_Id part of the identifier of V_EPR: that
    null identifier is what the schema asks for, it is not counted"""
    n = xtuml.check_association_integrity(m)
    if home not in ('state', 'transition'):
        return n + xtuml.check_uniqueness_constraint(m)
    return n + sum(xtuml.check_uniqueness_constraint(m, kind) for kind in sorted(m.metaclasses) if kind != 'V_EPR')


def population_dump(m):
    """every attribute value (except identifiers and references) of every Body / Value instance, as sorted text rows"""
    rows = []
    for kind, mc in sorted(m.metaclasses.items()):
        if not (kind.startswith('ACT_') or kind.startswith('V_') or kind.startswith('E_')):
            continue
        # (Label holds the source text of the statement: the one thing keyword case may change)
        names = [(n, t) for n, t in mc.attributes
                 if t.upper() != 'UNIQUE_ID' and n not in mc.referential_attributes and n != 'Label']
        for x in mc.select_many():
            rows.append('%s(%s)' % (kind, ', '.join('%s=%r' % (n, getattr(x, n)) for n, _ in names)))
    return sorted(rows)


def one_item(plan, item):
    schema = plan['schema']
    text, tokpos = render(item['toks'], item.get('seed', 0), item.get('case', 'lower'), item.get('layout', 'mixed'), item.get('keep'))
    ev = {'src': item['body'], 'toks': item['toks'], 'err': '', 'errkind': '', 'real': [], 'tokpos': tokpos, 'nodes': [], 'text': text,
          'home': item['home'], 'gen': '', 'idem': 'skip', 'consistent': 'skip',
          'facts': {'stmts': [], 'vals': [], 'vars': [], 'ppairs': [], 'subtype_counts': [], 'rawkw': [], 'nlinks': 0},
          'strict': 'yes' if item.get('strict') else 'no', 'casediff': []}
    other = item.get('other')
    otext = render(other['toks'], other.get('seed', 0), other.get('case', 'lower'), other.get('layout', 'mixed'), other.get('keep'))[0] if other else None
    try:
        with limit(60.0):
            m, inst = model_with(schema, item['home'], text, item.get('seed', 0), item.get('incomp', False), otext)
            before = violations(m, item['home'])
            if other:
                # every action of the model is prebuilt in one go: what one action leaves behind must not show in another
                prebuild.prebuild_model(m)
            else:
                prebuild.prebuild_action(inst)
            after = violations(m, item['home'])
            # the synthesised model is minimal (no system / diagram rows); prebuilding must not add a single violation
            ev['consistent'] = 'yes' if after == before else 'no'
            ev['violations'] = [before, after]
            if item.get('facts'):
                import prebuildfacts
                ev['facts'] = prebuildfacts.collect(m, inst, own_only=bool(other))
            if item.get('strict'):
                # the same tokens at the same positions with every keyword in lower case: the population prebuilt from
                # that text is what keyword case must not change
                low, _ = render(item['toks'], item.get('seed', 0), 'lower', item.get('layout', 'mixed'), item.get('keep'))
                m0, inst0 = model_with(schema, item['home'], low, item.get('seed', 0), item.get('incomp', False))
                prebuild.prebuild_action(inst0)
                d0, d1 = population_dump(m0), population_dump(m)
                diff = [r for r in d1 if r not in d0][:3] + ['lower: ' + r for r in d0 if r not in d1][:3]
                ev['casediff'] = diff
            gen = sourcegen.gen_text_action(inst)
            ev['gen'] = gen
            root = oal.parse(gen)
            ev['real'], _ = oaladapter.convert(root, gen)
            align_port_kinds(ev['src'], ev['real'])
            # translating the generated text again yields the same generated text
            m2, inst2 = model_with(schema, item['home'], gen, item.get('seed', 0), item.get('incomp', False))
            prebuild.prebuild_action(inst2)
            gen2 = sourcegen.gen_text_action(inst2)
            ev['idem'] = 'yes' if gen2 == gen else 'no'
            if other:
                # the second body of the model, prebuilt in the same go: its generated text is judged like the first one's
                ev2 = dict(ev, src=other['body'], toks=other['toks'], text=otext, home='func', real=[], gen='', idem='skip', tokpos=[])
                oinst = m.select_any('S_SYNC', xtuml.where_eq(Name='other_target'))
                ev2['gen'] = sourcegen.gen_text_action(oinst)
                ev2['real'], _ = oaladapter.convert(oal.parse(ev2['gen']), ev2['gen'])
                align_port_kinds(ev2['src'], ev2['real'])
                if item.get('facts'):
                    import prebuildfacts
                    ev2['facts'] = prebuildfacts.collect(m, oinst, own_only=True)
                    ev2['tokpos'] = render(other['toks'], other.get('seed', 0), other.get('case', 'lower'), other.get('layout', 'mixed'), other.get('keep'))[1]
                    ev2['casediff'] = []
                ev['_second'] = ev2
    except CallTimeout:
        ev['err'] = ev['errkind'] = 'Timeout'
    except oal.ParseException as e:
        ev['err'] = 'ParseException of the generated text: %s' % e
        ev['errkind'] = 'ParseException'
    except Exception as e:
        ev['err'] = '%s: %s' % (type(e).__name__, e)
        ev['errkind'] = 'PY:' + type(e).__name__
    return ev


HOMES = {'S_SYNC': 'func', 'S_BRG': 'bridge', 'O_TFR': 'op', 'O_DBATTR': 'derived'}


def real_homes(m):
    out = []
    for kind in ('S_SYNC', 'S_BRG', 'O_TFR', 'O_DBATTR'):
        for k, inst in enumerate(m.select_many(kind)):
            if (inst.Action_Semantics_internal or '').strip():
                out.append((kind, k, inst))
    return out


def _implicit(x, consts=()):
    """the words bridge / transform in front of NS::name(...) and the name of the constant specification in front of a
    constant are optional: the bodies of real models leave them out, the generator writes them; for these bodies the
    invocation kinds they select and the qualifier of a constant are not compared"""
    if isinstance(x, dict):
        if x.get('t') == 'icall' and x.get('kind') in ('bridge', 'class'):
            x = dict(x, kind='implicit')
        if x.get('t') == 'enum' and x.get('n') in consts:
            return {'t': 'var', 'n': x['n']}
        return {k: _implicit(v, consts) for k, v in x.items()}
    if isinstance(x, list):
        return [_implicit(v, consts) for v in x]
    return x


def real_items(plan, item):
    """every action body of a real model (its text is item['model']): the tree the body parses to is what prebuilding
    and generating text must give back; -> one event per body"""
    def load():
        loader = bp.fresh_loader()
        loader.input(item['model'])
        return loader.build_metamodel()
    events = []
    try:
        n = len(real_homes(load()))
    except Exception as e:
        return [{'src': [], 'toks': [], 'notoks': True, 'err': 'cannot load the model: %s: %s' % (type(e).__name__, e), 'errkind': 'PY',
                 'real': [], 'tokpos': [], 'nodes': [], 'text': '', 'home': 'func', 'gen': '', 'idem': 'skip', 'consistent': 'skip',
                 'facts': {}, 'strict': 'no', 'casediff': []}]
    for j in range(n):
        ev = {'src': [], 'toks': [], 'notoks': True, 'err': '', 'errkind': '', 'real': [], 'tokpos': [], 'nodes': [], 'text': '',
              'home': 'func', 'gen': '', 'idem': 'skip', 'consistent': 'skip', 'facts': {}, 'strict': 'no', 'casediff': []}
        try:
            with limit(60.0):
                m = load()
                kind, k, inst = real_homes(m)[j]
                ev['home'] = HOMES[kind]
                text = inst.Action_Semantics_internal
                ev['text'] = text
                consts = set(c.Name for c in m.select_many('CNST_SYC'))
                ev['src'] = _implicit(oaladapter.convert(oal.parse(text), text)[0], consts)
                before = xtuml.check_association_integrity(m) + xtuml.check_uniqueness_constraint(m)
                prebuild.prebuild_action(inst)
                after = xtuml.check_association_integrity(m) + xtuml.check_uniqueness_constraint(m)
                ev['consistent'] = 'yes' if after <= before else 'no'
                gen = sourcegen.gen_text_action(inst)
                ev['gen'] = gen
                ev['real'] = _implicit(oaladapter.convert(oal.parse(gen), gen)[0], consts)
                m2 = load()
                inst2 = real_homes(m2)[j][2]
                inst2.Action_Semantics_internal = gen
                prebuild.prebuild_action(inst2)
                ev['idem'] = 'yes' if sourcegen.gen_text_action(inst2) == gen else 'no'
        except CallTimeout:
            ev['err'] = ev['errkind'] = 'Timeout'
        except oal.ParseException as e:
            ev['err'] = 'ParseException: %s' % e
            ev['errkind'] = 'ParseException'
        except Exception as e:
            ev['err'] = '%s: %s' % (type(e).__name__, e)
            ev['errkind'] = 'PY:' + type(e).__name__
        events.append(ev)
    return events


def main(plan_path, out_path):
    plan = json.load(open(plan_path))
    out = []
    for r in plan['runs']:
        evs = []
        for it in r['items']:
            if 'model' in it:
                evs += real_items(plan, it)
            else:
                ev = one_item(plan, it)
                second = ev.pop('_second', None)
                evs += [ev, second] if second else [ev]
        out.append(evs)
    json.dump(out, open(out_path, 'w'))


if __name__ == '__main__':
    main(sys.argv[1], sys.argv[2])
