"""Facts about a prebuilt action read back from the ooaofooa population (C06)."""
import xtuml
from xtuml import navigate_one as one, navigate_many as many

KIND = {'ACT_AI': 'assign', 'ACT_IF': 'if', 'ACT_WHL': 'while', 'ACT_FOR': 'for', 'ACT_CR': 'create', 'ACT_CNV': 'create_nv',
        'ACT_DEL': 'delete', 'ACT_REL': 'relate', 'ACT_RU': 'relate', 'ACT_UNR': 'unrelate', 'ACT_URU': 'unrelate',
        'ACT_FIO': 'select_from', 'ACT_FIW': 'select_from', 'ACT_SEL': 'select_related', 'ACT_RET': 'return', 'ACT_BRK': 'break',
        'ACT_CON': 'continue', 'ACT_CTL': 'control', 'ACT_FNC': 'call', 'ACT_BRG': 'call', 'ACT_TFM': 'call', 'ACT_EL': 'elif',
        'ACT_E': 'else', 'E_GPR': 'gen_pre', 'ACT_IOP': 'call'}


def subtypes(inst, rel):
    """the instances related to inst across a subtype relationship number"""
    mc = xtuml.get_metaclass(inst)
    out = []
    for (kind, rel_id, phrase), link in mc.links.items():
        if rel_id == rel:
            x = one(inst).nav(kind, rel_id, phrase)()
            if x is not None:
                out.append(xtuml.get_metaclass(x).kind)
    return out


def event_kind(m, s):
    """the kind of an event statement (subtype E_ESS of ACT_SMT), read from the subtype hierarchy below it"""
    ess = one(s).E_ESS[603]()
    if one(ess).E_GES[701].E_GSME[703].E_GEN[705]():
        return 'gen_inst'
    if one(ess).E_GES[701].E_GSME[703].E_GAR[705]() or one(ess).E_GES[701].E_GSME[703].E_GEC[705]():
        return 'gen_class'
    if one(ess).E_CES[701].E_CSME[702].E_CEI[704]():
        return 'create_ev_inst'
    if one(ess).E_CES[701].E_CSME[702].E_CEA[704]() or one(ess).E_CES[701].E_CSME[702].E_CEC[704]():
        return 'create_ev_class'
    return 'E_ESS'


def pos(x):
    return [x.LineNumber, x.StartPosition]


BODY = {'S_SYNC': ('ACT_FNB', 695), 'S_BRG': ('ACT_BRB', 697), 'O_TFR': ('ACT_OPB', 696), 'O_DBATTR': ('ACT_DAB', 693),
        'SPR_RO': ('ACT_ROB', 685), 'SPR_RS': ('ACT_RSB', 684), 'SPR_PO': ('ACT_POB', 687), 'SPR_PS': ('ACT_PSB', 686)}


def action_of(m, inst):
    """the ACT_ACT instance of the action home inst"""
    kind = xtuml.get_metaclass(inst).kind
    if kind == 'SM_ACT':
        return one(inst).ACT_SAB[691].ACT_ACT[698]() or one(inst).ACT_TAB[688].ACT_ACT[698]()
    sub, rel = BODY[kind]
    return one(inst).nav(sub, 'R%d' % rel, '').ACT_ACT[698]()


def collect(m, inst, own_only=False):
    """own_only: the whole model was prebuilt; only what belongs to the action of inst is read (statements, values and
    variables by their block, parameters by their value, navigation steps by their statement) - and everything that
    belongs to it must be there, whatever the other actions of the model left behind"""
    select = m.select_many
    if own_only:
        act = action_of(m, inst)
        blocks = set(b.Block_ID for b in many(act).ACT_BLK[601]())
        own_vals = set(v.Value_ID for v in m.select_many('V_VAL') if v.Block_ID in blocks)
        own_smts = set(x.Statement_ID for x in m.select_many('ACT_SMT') if x.Block_ID in blocks)

        def select(kind):
            xs = m.select_many(kind)
            if kind in ('ACT_SMT', 'V_VAL', 'V_VAR', 'ACT_BLK'):
                return [x for x in xs if x.Block_ID in blocks]
            if kind == 'V_PAR':
                return [x for x in xs if x.Value_ID in own_vals]
            if kind == 'ACT_LNK':
                # (only the first step of a chain names its statement: the steps are those reachable from the own selections)
                by_id = {x.Link_ID: x for x in xs}
                out = []
                for x in xs:
                    if x.Statement_ID in own_smts:
                        while x is not None and x not in out:
                            out.append(x)
                            x = by_id.get(x.Next_Link_ID) if x.Next_Link_ID else None
                return out
            return xs
    smts = list(select('ACT_SMT'))
    by_id = {s.Statement_ID: s for s in smts}
    real = lambda s: not (one(s).ACT_EL[603]() or one(s).ACT_E[603]())
    first_of_block = {}
    for blk in select('ACT_BLK'):
        members = [s for s in many(blk).ACT_SMT[602]() if real(s)]
        if members:
            f = min(members, key=lambda s: (s.LineNumber, s.StartPosition))
            first_of_block[blk.Block_ID] = pos(f)
    stmts, subs, rawkw = [], [], []
    for s in smts:
        st = subtypes(s, 'R603')
        subs.append(len(st))
        if not real(s):
            continue
        prev_id = s.Previous_Statement_ID
        prev = by_id.get(prev_id) if prev_id else None
        blk = one(s).ACT_BLK[602]()
        tag = ''
        if st and st[0] in ('ACT_FIO', 'ACT_FIW', 'ACT_SEL'):
            sub = one(s).nav(st[0], 'R603', '')()
            raw = str(getattr(sub, 'cardinality', ''))
            tag = raw.lower()
            rawkw.append([raw, tag])
        links = []
        if st and st[0] == 'ACT_SEL':
            # the navigation steps, from the one the statement designates along the persisted Next_Link_ID
            by_link = {x.Link_ID: x for x in select('ACT_LNK')}
            lnk = one(one(s).ACT_SEL[603]()).ACT_LNK[637]()
            while lnk is not None and len(links) < 50:
                o, r = one(lnk).O_OBJ[678](), one(lnk).R_REL[681]()
                links.append([o.Key_Lett if o else '', 'R%d' % r.Numb if r else '', lnk.Rel_Phrase or ''])
                lnk = by_link.get(lnk.Next_Link_ID) if lnk.Next_Link_ID else None
        kind = KIND.get(st[0], st[0]) if st else '?'
        if kind == 'E_ESS':
            kind = event_kind(m, s)
        if kind == 'ACT_SGN':
            # a signal across a port: sent to a target (send P::s(..) to x) or not
            kind = 'send_event' if one(s).ACT_SGN[603].V_VAL[630]() else 'call'
        stmts.append({'k': kind, 'tag': tag, 'links': links, 'line': s.LineNumber, 'sc': s.StartPosition, 'ec': s.EndPosition,
                      'prev': pos(prev) if prev is not None else [], 'first': first_of_block.get(blk.Block_ID, []) if blk else []})
    vals = []
    for v in select('V_VAL'):
        st = subtypes(v, 'R801')
        subs.append(len(st))
        dt = one(v).S_DT[820]()
        lit = ''
        if st and st[0] in ('V_BIN', 'V_UNY'):
            raw = str(one(v).nav(st[0], 'R801', '')().Operator)
            lit = raw.lower()
            rawkw.append([raw, lit])
        elif st and st[0] == 'V_LBO':
            raw = str(one(v).V_LBO[801]().Value)
            lit = raw.upper()
            rawkw.append([raw, lit])
        vals.append({'line': v.LineNumber, 'sc': v.StartPosition, 'ec': v.EndPosition, 'ty': dt.Name if dt else '', 'lit': lit})
    vars_ = []
    for v in select('V_VAR'):
        dt = one(v).S_DT[848]()
        blk = one(v).ACT_BLK[823]()
        vars_.append({'n': v.Name, 'ty': dt.Name if dt else '', 'first': first_of_block.get(blk.Block_ID, []) if blk else []})
    by_val = {p.Value_ID: p for p in select('V_PAR')}
    pairs = []
    for p in select('V_PAR'):
        nxt = by_val.get(p.Next_Value_ID) if p.Next_Value_ID else None
        pairs.append([p.Name, nxt.Name if nxt is not None else ''])
    return {'stmts': stmts, 'vals': vals, 'vars': vars_, 'ppairs': pairs, 'subtype_counts': subs, 'rawkw': rawkw,
            'nlinks': len(list(select('ACT_LNK')))}
