"""Helpers shared by the adapters (stdlib only)."""
import contextlib
import signal


class CallTimeout(BaseException):
    """Raised inside the implementation when one call exceeds its time budget."""


@contextlib.contextmanager
def limit(seconds):
    def handler(signum, frame):
        raise CallTimeout()
    # The budget is processor time of this process (ITIMER_PROF), so that a machine busy with other work cannot turn a
    # call that terminates into a timeout; a generous wall-clock limit backs it up (a call that sleeps forever).
    old = signal.signal(signal.SIGALRM, handler)
    oldp = signal.signal(signal.SIGPROF, handler)
    signal.setitimer(signal.ITIMER_PROF, seconds)
    signal.setitimer(signal.ITIMER_REAL, seconds * 20 + 30)
    try:
        yield
    finally:
        signal.setitimer(signal.ITIMER_PROF, 0)
        signal.setitimer(signal.ITIMER_REAL, 0)
        signal.signal(signal.SIGALRM, old)
        signal.signal(signal.SIGPROF, oldp)
