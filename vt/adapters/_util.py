"""Helpers shared by the adapters (stdlib only)."""
import contextlib
import signal


class CallTimeout(BaseException):
    """Raised inside the implementation when one call exceeds its time budget."""


_timeouts = [0]


@contextlib.contextmanager
def limit(seconds):
    # after three calls of this process have run out of their budget the later budgets shrink to a tenth (at least one
    # second): a change that makes many calls loop forever is reported within minutes instead of hours
    if _timeouts[0] >= 3:
        seconds = max(1.0, seconds / 10.0)

    def handler(signum, frame):
        _timeouts[0] += 1
        raise CallTimeout()
    # The budget is user-mode processor time of this process (ITIMER_VIRTUAL), so that a machine busy with other work cannot
    # turn a call that terminates into a timeout - neither by taking the processor away nor by making the kernel work on the
    # process's behalf (a machine short of memory charged seconds of page reclaim to a call of milliseconds: ITIMER_PROF
    # counted them); a generous wall-clock limit backs it up (a call that sleeps forever).
    old = signal.signal(signal.SIGALRM, handler)
    oldp = signal.signal(signal.SIGVTALRM, handler)
    signal.setitimer(signal.ITIMER_VIRTUAL, seconds)
    signal.setitimer(signal.ITIMER_REAL, seconds * 40 + 60)
    try:
        yield
    finally:
        signal.setitimer(signal.ITIMER_VIRTUAL, 0)
        signal.setitimer(signal.ITIMER_REAL, 0)
        signal.signal(signal.SIGALRM, old)
        signal.signal(signal.SIGVTALRM, oldp)
