"""Helpers shared by the adapters (stdlib only)."""
import contextlib
import signal


class CallTimeout(BaseException):
    """Raised inside the implementation when one call exceeds its time budget."""


@contextlib.contextmanager
def limit(seconds):
    def handler(signum, frame):
        raise CallTimeout()
    old = signal.signal(signal.SIGALRM, handler)
    signal.setitimer(signal.ITIMER_REAL, seconds)
    try:
        yield
    finally:
        signal.setitimer(signal.ITIMER_REAL, 0)
        signal.signal(signal.SIGALRM, old)
