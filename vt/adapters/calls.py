"""Invoke the callable elements of a synthesised BridgePoint model (C15).
usage: calls.py plan.json out.json
plan: {"schema": oal schema, "runs": [{"items": [{"env", "texts": {...}, "scripts", "script_texts", "calls", "seed", "shuffle"}]}]}"""
import json
import os
import sys

sys.path.insert(0, os.path.dirname(os.path.abspath(__file__)))
from _util import limit, CallTimeout
import _bp
import bp
import meta
import oalexec

import xtuml
from bridgepoint import ooaofooa


def diagram(schema, item):
    """the class model of the OAL corpus plus the callables of this item"""
    A = lambda n, k, ty='': {'n': n, 'k': k, 'ty': ty}
    tymap = {'UNIQUE_ID': 'unique_id', 'INTEGER': 'integer', 'STRING': 'string', 'BOOLEAN': 'boolean', 'REAL': 'real'}
    refs = {c: set(k for a in schema['assocs'] if a['src'] == c for k in a['skeys']) for c in schema['classes']}
    env, texts = item['env'], item['texts']
    classes = []
    for c in schema['classes']:
        attrs = [A(a['n'], 'ref') if a['n'] in refs[c] else A(a['n'], 'base', tymap[a['t']]) for a in schema['attrs'][c]]
        for n, dv in env['derived'].get(c, {}).items():
            attrs.append({'n': n, 'k': 'derived', 'ty': dv['ty'], 'body': texts['derived:%s:%s' % (c, n)]})
        ops = [{'n': n, 'inst': o['inst'], 'ret': o['ret'], 'body': texts['op:%s:%s' % (c, n)],
                'params': [{'n': p, 'ty': o['ptypes'][p]} for p in o['params']]} for n, o in env['ops'].get(c, {}).items()]
        classes.append({'kl': c, 'name': c, 'comp': '', 'attrs': attrs, 'ids': [u['attrs'] for u in schema['uniques'].get(c, [])],
                        'ops': ops})
    rels = [
        {'k': 'simple', 'num': 1, 'comp': '', 'form': 'B', 'part': 'A', 'fm': 1, 'fc': 1, 'pm': 0, 'pc': 1, 'fph': '', 'pph': '',
         'keys': [['A_Id', 'Id']]},
        {'k': 'simple', 'num': 2, 'comp': '', 'form': 'A', 'part': 'A', 'fm': 0, 'fc': 1, 'pm': 0, 'pc': 1, 'fph': 'precedes',
         'pph': 'succeeds', 'keys': [['Prev_Id', 'Id']]},
        {'k': 'linked', 'num': 3, 'comp': '', 'one': 'A', 'oth': 'B', 'link': 'L', 'om': 0, 'oc': 1, 'oph': '', 'tm': 0, 'tc': 1,
         'tph': '', 'okeys': [['A_Id', 'Id']], 'tkeys': [['B_Id', 'Id']]},
        {'k': 'linked', 'num': 4, 'comp': '', 'one': 'P', 'oth': 'P', 'link': 'M', 'om': 1, 'oc': 1, 'oph': 'one', 'tm': 1, 'tc': 1,
         'tph': 'other', 'okeys': [['One_Id', 'Id']], 'tkeys': [['Other_Id', 'Id']]},
    ]
    funcs = [{'n': n, 'ret': f['ret'], 'body': texts['func:' + n], 'params': [{'n': p, 'ty': f['ptypes'][p]} for p in f['params']]}
             for n, f in env['funcs'].items()]
    for k, t in enumerate(item['script_texts']):
        funcs.append({'n': 'main_%d' % k, 'ret': 'integer', 'body': t, 'params': []})
    ees = [{'n': kl, 'kl': kl, 'bridges': [{'n': n, 'ret': b['ret'], 'body': texts['bridge:%s:%s' % (kl, n)],
                                            'params': [{'n': p, 'ty': b['ptypes'][p]} for p in b['params']]}
                                           for n, b in bs.items()]} for kl, bs in env['bridges'].items()]
    enums = [{'n': n, 'items': items, 'comp': ''} for n, items in env['enums'].items()]
    consts = [{'n': 'Group', 'items': [{'n': n, 'ty': ty, 'v': v} for n, (ty, v) in env['consts'].items()]}]
    return {'comps': [], 'enums': enums, 'udts': [], 'classes': classes, 'rels': rels, 'funcs': funcs, 'ees': ees, 'consts': consts}


def literal(e):
    if e['t'] == 'int':
        return int(e['v'])
    if e['t'] == 'bool':
        return e['v'] == 'true'
    if e['t'] == 'str':
        return e['v'][1:-1]
    raise ValueError(e)


def execute(plan, item, texts):
    """build the model with the given body texts, run the scripts and the Python calls -> (results, projection)"""
    schema = plan['schema']
    item = dict(item, texts=texts, script_texts=[texts['script:%d' % j] for j in range(len(item['scripts']))])
    results = []
    d = diagram(schema, item)
    syn = _bp.Synth(d, item.get('seed', 0))
    stmts = syn.statements(item.get('seed') if item.get('shuffle') else None)
    loader = bp.fresh_loader()
    loader.input(''.join(stmts))
    m = loader.build_metamodel()
    domain = ooaofooa.mk_component(m, None, derived_attributes=False)
    domain.id_generator = xtuml.IntegerGenerator()
    oalexec.install_counter(domain, schema)
    for k in range(len(item['scripts'])):
        results.append(oalexec.tok(domain.find_symbol('main_%d' % k)()))
    for c in item['calls']:
        kw = {p['n']: literal(p['e']) for p in c['ps']}
        if c['k'] == 'func':
            r = domain.find_symbol(c['n'])(**kw)
        elif c['k'] == 'classop':
            r = getattr(domain.find_class(c['ns']), c['n'])(**kw)
        elif c['k'] == 'bridge':
            r = getattr(domain.find_symbol(c['ns']), c['n'])(**kw)
        elif c['k'] == 'enum':
            r = getattr(domain.find_symbol(c['ns']), c['n'])
        else:
            r = domain.find_symbol(c['n'])
        results.append(oalexec.tok(r))
    w = meta.World.__new__(meta.World)
    w.schema, w.plan, w.opt, w.step = schema, plan, {}, 0
    w.refs = {c: set(k for a in schema['assocs'] if a['src'] == c for k in a['skeys']) for c in schema['classes']}
    w.m = domain
    w.h = {c: list(domain._vt_born[c]) for c in schema['classes']}
    p = w.project()
    return results, {'pool': p['pool'], 'nav': p['nav'], 'attr': p['attr']}


def one(plan, item):
    schema = plan['schema']
    ev = {'env': item['env_spec'], 'scripts': item['scripts'], 'calls': item['calls'], 'results': [], 'err': '',
          'pool': {c: [] for c in schema['classes']}, 'nav': [], 'attr': {c: [] for c in schema['classes']}, 'casediff': []}
    try:
        with limit(30.0):
            ev['results'], proj = execute(plan, item, item['texts'])
            ev.update(proj)
        if item.get('texts_lower'):
            # C08: the same tokens at the same positions with lower-case keywords must compute the same
            try:
                with limit(30.0):
                    low = execute(plan, item, item['texts_lower'])
            except Exception as e:
                low = ('%s: %s' % (type(e).__name__, e), None)
            if low[0] != ev['results']:
                ev['casediff'].append('results with lower-case keywords: %r' % (low[0],))
            elif low[1] != proj:
                ev['casediff'].append('final population differs from the one computed with lower-case keywords')
    except CallTimeout:
        ev['err'] = 'Timeout'
    except Exception as e:
        ev['err'] = '%s: %s' % (type(e).__name__, e)
    return ev


def main(plan_path, out_path):
    plan = json.load(open(plan_path))
    json.dump([[one(plan, it) for it in r['items']] for r in plan['runs']], open(out_path, 'w'))


if __name__ == '__main__':
    main(sys.argv[1], sys.argv[2])
