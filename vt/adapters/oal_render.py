"""Rendering of OalSyntax.tla token sequences as OAL text (plain python, shared by
the adapter and by the harness when it needs a valid text to mutate)."""
import random

KEYWORDS = set(['assign', 'assigner', 'break', 'bridge', 'send', 'control', 'stop', 'continue', 'create', 'event', 'instance',
                'of', 'object', 'delete', 'for', 'each', 'in', 'generate', 'if', 'elif', 'else', 'relate', 'to', 'across',
                'using', 'return', 'select', 'one', 'any', 'many', 'transform', 'unrelate', 'from', 'while', 'class',
                'creator', 'related', 'by', 'instances', 'where', 'cardinality', 'empty', 'false', 'not', 'not_empty', 'true',
                'and', 'or', 'param', 'rcvd_evt', 'self', 'selected', 'loop', 'then'])
SEPS = {
    'plain': [' '],
    # (block comments with stars and slashes inside, and with one, two or three stars in front of the closing slash)
    'mixed': [' ', ' ', ' ', '\n', '\n    ', '\t', '  ', ' /* c */ ', ' /* two\n   lines */ ', ' // tail\n', '\n\n',
              ' /***/ ', ' /* n **/ ', ' /** d */ ', ' /* a * b / c */ ', ' /****/ ', ' /* x ***/ '],
    'dense': ['\n', ' /* x */\n', '\t\t', ' // c\n  ', ' /***/\n', ' /* e **/ '],
    # everything on one line, except that the two words of end if / end for / end while are on different lines
    'line': [' ', ' ', ' ', '  ', '\t', ' /* c */ ', ' /***/ ', ' /* n **/ '],
}


def casing(word, mode, rnd):
    if mode == 'lower':
        return word
    if mode == 'upper':
        return word.upper()
    if mode == 'capital':
        return word[:1].upper() + word[1:]
    if mode == 'mixed':
        return ''.join(c.upper() if rnd.random() < 0.5 else c for c in word)
    return word


PUNCT = set(';=()[],:+-*/%<>?|&^.')


def word_of(tok):
    return tok[1:] if tok.startswith('?') else tok


def can_glue(text, word):
    """may `word` follow the text written so far without white space? (only where the lexer still sees two tokens)"""
    a, b = text[-1], word[0]
    if a not in PUNCT and b not in PUNCT:
        return False
    if word.startswith('::') and (a.isalnum() or a == '_'):
        return False                      # `name::` is a namespace
    if a + b in ('==', '!=', '<=', '>=', '->', '::', '//', '/*', '*/'):
        return False
    if a == '.' and not (len(text) > 1 and not text[-2].isdigit() and (b.isalpha() or b in '\'"_')):
        return False                      # `1.` and `.5` are reals; only `x.attr` and `R1.'phrase'` are glued after a dot
    if b == '.':
        if len(word) > 1:
            return a in '+-*%(=,:<>['     # a real such as .5
        return not (a.isdigit() or a == '.')
    return True


def render(toks, seed, case='lower', layout='mixed', keep=None):
    """-> text, tokpos (per canonical token: p, sl, sc, el, ec, so, eo)"""
    rnd = random.Random(seed)
    crnd = random.Random(seed * 7 + 3)      # letter case draws from its own stream: the layout does not depend on the case
    text = ''
    line = 1
    tokpos = []
    drop_instances = None
    for i, tok in enumerate(toks):
        present = True
        word = tok
        if tok.startswith('?'):
            word = tok[1:]
            if word == 'instances':
                drop_instances = rnd.random() < 0.4 if keep is None else not keep
                present = not drop_instances
            elif word == 'of':
                present = not drop_instances
            else:
                present = (rnd.random() < 0.5) if keep is None else keep
        if not present:
            tokpos.append({'p': False, 'sl': 0, 'sc': 0, 'el': 0, 'ec': 0, 'so': 0, 'eo': 0})
            continue
        # separator (none before the very first token half of the time); in the non-plain layouts tokens are also
        # written without anything between them, or with a comment directly attached, where that cannot merge them
        if text or rnd.random() < 0.5:
            s = rnd.choice(SEPS[layout])
            if text and layout != 'plain' and rnd.random() < 0.2:
                tight = rnd.choice(['', '', '', '/* t */', '// t\n', '/**/', '/***/', '/* t **/'])
                if tight == '' and can_glue(text, word_of(tok)):
                    s = ''
                elif tight and text[-1] != '/' and not (layout == 'line' and '\n' in tight):
                    s = tight
            text += s
            line += s.count('\n')
        if word.split(' ')[0] == 'end' and ' ' in word:            # END_IF / END_FOR / END_WHILE: inner whitespace
            inner = ' ' if layout == 'plain' else rnd.choice(['\n', ' \n', '\n\t', '\n\n ']) if layout == 'line' else \
                rnd.choice([' ', ' ', '  ', '\t', '\n'])
            a, b = word.split(' ')
            word = casing(a, case, crnd) + inner + casing(b, case, crnd)
        elif word.lower() in KEYWORDS and word == word.lower():
            word = casing(word, case, crnd)
        so = len(text)
        sl = line
        sc = so - text.rfind('\n', 0, so)
        text += word
        eo = len(text)
        ec = eo - text.rfind('\n', 0, eo) - 1
        tokpos.append({'p': True, 'sl': sl, 'sc': sc, 'el': sl, 'ec': ec, 'so': so, 'eo': eo})
        line += word.count('\n')
    # what follows the last token: nothing, white space, or a comment with or without a final line break
    if layout != 'plain':
        text += rnd.choice(['', '', ' ', '\n', '\t', ' // end', ' // end\n', ' /* end */', '\n\n// end of action  ', ' //'])
    return text, tokpos


