"""Build components / XSD schemas from synthesised BridgePoint models with the real
bridgepoint package and record what was extracted (C14, C20).
usage: bp.py plan.json out.json   plan: {"runs": [{"items": [{"d", "root", "derived", "route", "seed", "xsd"}]}]}"""
import io
import json
import os
import shutil
import sys
import tempfile
import xml.etree.ElementTree as ET
import zipfile

sys.path.insert(0, os.path.dirname(os.path.abspath(__file__)))
from _util import limit, CallTimeout
import _bp

import xtuml
from bridgepoint import ooaofooa, gen_xsd_schema

_BASE = None


def fresh_loader():
    """an ooaofooa loader (schema and globals are parsed once per process)"""
    global _BASE
    if _BASE is None:
        _BASE = ooaofooa.Loader()
    l = ooaofooa.ModelLoader.__new__(ooaofooa.ModelLoader)
    xtuml.ModelLoader.__init__(l)
    l.statements = list(_BASE.statements)
    return l


def feed(loader, stmts, route, tmp):
    if route == 'input':
        loader.input(''.join(stmts))
    elif route == 'inputs':
        k = max(1, len(stmts) // 3)
        for i in range(0, len(stmts), k):
            loader.input(''.join(stmts[i:i + k]))
    elif route == 'file':
        p = os.path.join(tmp, 'model.xtuml')
        open(p, 'w').write(''.join(stmts))
        loader.filename_input(p)
    elif route == 'dir':
        os.makedirs(os.path.join(tmp, 'm', 'a', 'b'))
        k = max(1, len(stmts) // 3)
        parts = [stmts[i:i + k] for i in range(0, len(stmts), k)]
        for i, part in enumerate(parts):
            sub = ['m', os.path.join('m', 'a'), os.path.join('m', 'a', 'b')][i % 3]
            open(os.path.join(tmp, sub, 'p%d.xtuml' % i), 'w').write(''.join(part))
        open(os.path.join(tmp, 'm', 'ignored.txt'), 'w').write('INSERT INTO nonsense')
        loader.filename_input(os.path.join(tmp, 'm'))
    elif route == 'zip':
        p = os.path.join(tmp, 'model.zip')
        k = max(1, len(stmts) // 2)
        with zipfile.ZipFile(p, 'w') as z:
            for i in range(0, len(stmts), k):
                z.writestr('dir%d/part%d.xtuml' % (i % 2, i), ''.join(stmts[i:i + k]))
            z.writestr('readme.md', 'not a model')
        loader.filename_input(p)
    else:
        raise SystemExit('unknown route %r' % route)


def project_component(c):
    classes, uniques = [], []
    for kind in sorted(c.metaclasses):
        mc = c.metaclasses[kind]
        classes.append([mc.kind, [[n, t] for n, t in mc.attributes]])
        uniques.append([mc.kind, sorted([[k, sorted(v)] for k, v in mc.indices.items()])])
    assocs = []
    for a in c.associations:
        assocs.append({'rel': a.rel_id, 'src': a.target_link.from_metaclass.kind, 'tgt': a.source_link.from_metaclass.kind,
                       'pairs': [list(p) for p in zip(a.source_keys, a.target_keys)],
                       'smany': bool(a.source_link.many), 'scond': bool(a.source_link.conditional),
                       'tmany': bool(a.target_link.many), 'tcond': bool(a.target_link.conditional),
                       'sphrase': a.target_link.phrase, 'tphrase': a.source_link.phrase})
    assocs.sort(key=lambda a: json.dumps(a, sort_keys=True))
    return {'classes': classes, 'uniques': uniques, 'assocs': assocs}


def project_xsd(root):
    ns = '{http://www.w3.org/2001/XMLSchema}'
    core, enums, udts, elements, other = [], [], [], [], []
    for t in root.findall('xs:simpleType', {'xs': 'http://www.w3.org/2001/XMLSchema'}) or root.findall(ns + 'simpleType'):
        r = t.find(ns + 'restriction')
        vals = [e.get('value') for e in r.findall(ns + 'enumeration')]
        if vals or r.get('base') == 'xs:string' and t.get('name') not in ('string',):
            enums.append([t.get('name'), vals])
        elif r.get('base', '').startswith('xs:'):
            core.append([t.get('name'), r.get('base')])
        else:
            udts.append([t.get('name'), r.get('base')])
    comp = [e for e in root.findall(ns + 'element')]
    for ce in comp:
        for cls in ce.iter(ns + 'element'):
            if cls is ce:
                continue
            attrs = [[a.get('name'), a.get('type')] for a in cls.iter(ns + 'attribute')]
            elements.append([cls.get('name'), attrs, cls.get('minOccurs'), cls.get('maxOccurs')])
    return {'core': core, 'enums': enums, 'udts': udts, 'elements': elements, 'ncomp': len(comp),
            'compname': comp[0].get('name') if comp else ''}


def one(item):
    d = item['d']
    ev = {'d': d, 'root': item.get('root', ''), 'derived': bool(item.get('derived')), 'err': '', 'sqlrt': 'skip',
          'comp': {'classes': [], 'uniques': [], 'assocs': []}, 'hasxsd': False,
          'xsd': {'core': [], 'enums': [], 'udts': [], 'elements': [], 'ncomp': 0, 'compname': ''}}
    tmp = tempfile.mkdtemp(prefix='vt-bp-')
    try:
        with limit(30.0):
            if item.get('stmts'):
                # the statements of a real model file (the diagram was read from them by the harness), in file order or shuffled
                stmts = list(item['stmts'])
                if item.get('shuffle'):
                    import random
                    random.Random(item.get('seed', 0)).shuffle(stmts)
            else:
                syn = _bp.Synth(d, item.get('seed', 0))
                stmts = syn.statements(item.get('seed') if item.get('shuffle') else None)
            loader = fresh_loader()
            feed(loader, stmts, item.get('route', 'input'), tmp)
            name = item.get('root') or None
            if item.get('via', 'loader') == 'load_component' and not item.get('derived'):
                # the one-call interface: bridgepoint.load_component(resource, name) on the model as files
                import bridgepoint
                os.makedirs(os.path.join(tmp, 'lc'))
                k3 = max(1, len(stmts) // 2)
                paths = []
                for i in range(0, len(stmts), k3):
                    paths.append(os.path.join(tmp, 'lc', 'part%d.xtuml' % i))
                    open(paths[-1], 'w').write(''.join(stmts[i:i + k3]))
                c = bridgepoint.load_component(paths if len(paths) > 1 else paths[0], name)
            elif item.get('via', 'loader') == 'sql_main':
                # the command-line tool: python -m bridgepoint.gen_sql_schema [-c NAME] [-d] -o OUT MODEL...; what it writes is
                # loaded as the component
                from bridgepoint import gen_sql_schema
                mp = os.path.join(tmp, 'model_for_sql.xtuml')
                open(mp, 'w').write(''.join(stmts))
                outp = os.path.join(tmp, 'component.sql')
                argv = ['gen_sql_schema'] + (['-c', name] if name else []) + (['-d'] if item.get('derived') else []) + ['-o', outp, mp]
                old_argv = sys.argv
                try:
                    sys.argv = argv
                    gen_sql_schema.main()
                finally:
                    sys.argv = old_argv
                c = xtuml.load_metamodel(outp)
            elif item.get('via', 'loader') in ('loader', 'load_component'):
                c = loader.build_component(name, bool(item.get('derived')))
            else:
                m = loader.build_metamodel()
                c_c = m.select_any('C_C', xtuml.where_eq(Name=name)) if name else None
                c = ooaofooa.mk_component(m, c_c, bool(item.get('derived')))
                # (extracted again from the same metamodel the component is the same; where it is not, the second one is judged)
                c_again = ooaofooa.mk_component(m, c_c, bool(item.get('derived')))
                if project_component(c_again) != project_component(c):
                    c = c_again
            ev['comp'] = project_component(c)
            # the SQL schema written for the component loads back to the same definitions
            p = os.path.join(tmp, 'schema.sql')
            xtuml.persist_database(c, p)
            c2 = xtuml.load_metamodel(p)
            ev['sqlrt'] = 'same' if project_component(c2) == ev['comp'] else 'differs'
            if item.get('xsd') and name:
                m = loader.build_metamodel()
                c_c = m.select_any('C_C', xtuml.where_eq(Name=name))
                if item.get('xsd') == 'main':
                    mp = os.path.join(tmp, 'model_for_xsd.xtuml')
                    open(mp, 'w').write(''.join(stmts))
                    out = os.path.join(tmp, 'out.xsd')
                    gen_xsd_schema.main(['-c', name, '-o', out, mp])
                    root = ET.parse(out).getroot()            # well-formedness = it parses
                else:
                    tree = gen_xsd_schema.build_schema(m, c_c)
                    root = ET.fromstring(ET.tostring(tree, 'utf-8'))
                ev['xsd'] = project_xsd(root)
                ev['hasxsd'] = True
                if item.get('xsd') != 'main':
                    # the schema is a function of the model: generated again from the same metamodel (a model is edited in
                    # place and generated again) it is the same; where it is not, the second one is judged
                    again = project_xsd(ET.fromstring(ET.tostring(gen_xsd_schema.build_schema(m, c_c), 'utf-8')))
                    if again != ev['xsd']:
                        ev['xsd'] = again
    except CallTimeout:
        ev['err'] = 'Timeout'
    except SystemExit as e:
        ev['err'] = 'SystemExit: %s' % e
    except Exception as e:
        ev['err'] = '%s: %s' % (type(e).__name__, e)
    finally:
        shutil.rmtree(tmp, ignore_errors=True)
    return ev


def main(plan_path, out_path):
    plan = json.load(open(plan_path))
    out = []
    for r in plan['runs']:
        out.append([one(it) for it in r['items']])
    json.dump(out, open(out_path, 'w'))


if __name__ == '__main__':
    main(sys.argv[1], sys.argv[2])
