"""Association shapes used by the Meta specification family.  A schema is plain
data shared by the TLA+ side (constants of Meta.tla) and by the adapter, which
defines the same classes/associations/identifiers through pyxtuml's API."""


def A(rel, src, skeys, scard, tgt, tkeys, tcard, sphrase='', tphrase=''):
    return {'rel': rel, 'src': src, 'skeys': list(skeys), 'smany': 'M' in scard, 'scond': 'C' in scard,
            'sphrase': sphrase, 'tgt': tgt, 'tkeys': list(tkeys), 'tmany': 'M' in tcard,
            'tcond': 'C' in tcard, 'tphrase': tphrase}


def U(name, *attrs):
    return {'name': name, 'attrs': list(attrs)}


def at(n, t):
    return {'n': n, 't': t}


ID = 'UNIQUE_ID'

SCHEMAS = {
    # referring S (many side) -> referred T (one side)
    'one_many': {
        'classes': ['S', 'T'],
        'attrs': {'S': [at('Id', ID), at('T_Id', ID)], 'T': [at('Id', ID)]},
        'assocs': [A('R1', 'S', ['T_Id'], 'MC', 'T', ['Id'], '1')],
        'uniques': {'S': [U('I1', 'Id')], 'T': [U('I1', 'Id')]},
    },
    'one_one': {
        'classes': ['S', 'T'],
        'attrs': {'S': [at('Id', ID), at('T_Id', ID)], 'T': [at('Id', ID)]},
        'assocs': [A('R1', 'S', ['T_Id'], '1C', 'T', ['Id'], '1C')],
        'uniques': {'S': [U('I1', 'Id')], 'T': [U('I1', 'Id')]},
    },
    # many-to-one unconditional on both ends, two-attribute key
    'many_one_2key': {
        'classes': ['T', 'S'],
        'attrs': {'T': [at('K1', 'INTEGER'), at('K2', 'STRING')],
                  'S': [at('Id', ID), at('T_K1', 'INTEGER'), at('T_K2', 'STRING')]},
        'assocs': [A('R7', 'S', ['T_K1', 'T_K2'], 'M', 'T', ['K1', 'K2'], '1')],
        'uniques': {'S': [U('I1', 'Id')], 'T': [U('I1', 'K1', 'K2')]},
    },
    'reflexive_11': {
        'classes': ['C'],
        'attrs': {'C': [at('Id', ID), at('Prev_Id', ID)]},
        'assocs': [A('R2', 'C', ['Prev_Id'], '1C', 'C', ['Id'], '1C', sphrase='succeeds', tphrase='precedes')],
        'uniques': {'C': [U('I1', 'Id')]},
    },
    'reflexive_1m': {
        'classes': ['C'],
        'attrs': {'C': [at('Id', ID), at('Parent_Id', ID)]},
        'assocs': [A('R3', 'C', ['Parent_Id'], 'MC', 'C', ['Id'], '1C', sphrase='child of', tphrase='parent of')],
        'uniques': {'C': [U('I1', 'Id')]},
    },
    # association class with two formalisations under one number
    'assoc_class': {
        'classes': ['L', 'R', 'A'],
        'attrs': {'L': [at('Id', ID)], 'R': [at('Id', ID)], 'A': [at('L_Id', ID), at('R_Id', ID)]},
        'assocs': [A('R4', 'A', ['L_Id'], 'MC', 'L', ['Id'], '1'),
                   A('R4', 'A', ['R_Id'], '1C', 'R', ['Id'], '1')],
        'uniques': {'L': [U('I1', 'Id')], 'R': [U('I1', 'Id')], 'A': [U('I1', 'L_Id', 'R_Id')]},
    },
    # reflexive association class
    'assoc_reflexive': {
        'classes': ['N', 'E'],
        'attrs': {'N': [at('Id', ID)], 'E': [at('From_Id', ID), at('To_Id', ID)]},
        'assocs': [A('R5', 'E', ['From_Id'], 'MC', 'N', ['Id'], '1', sphrase='src', tphrase='out'),
                   A('R5', 'E', ['To_Id'], 'MC', 'N', ['Id'], '1', sphrase='dst', tphrase='in')],
        'uniques': {'N': [U('I1', 'Id')], 'E': [U('I1', 'From_Id', 'To_Id')]},
    },
    # subtype / supertype: both subtypes share the supertype's identifier
    'subsuper': {
        'classes': ['SUP', 'SA', 'SB'],
        'attrs': {'SUP': [at('Id', ID)], 'SA': [at('Id', ID), at('X', 'INTEGER')], 'SB': [at('Id', ID)]},
        'assocs': [A('R6', 'SA', ['Id'], '1C', 'SUP', ['Id'], '1'),
                   A('R6', 'SB', ['Id'], '1C', 'SUP', ['Id'], '1')],
        'uniques': {'SUP': [U('I1', 'Id')], 'SA': [U('I1', 'Id')], 'SB': [U('I1', 'Id')]},
    },
    # one referential attribute formalising two associations
    'shared_ref': {
        'classes': ['T', 'V', 'S'],
        'attrs': {'T': [at('Id', ID)], 'V': [at('Id', ID)], 'S': [at('Id', ID), at('X_Id', ID)]},
        'assocs': [A('R8', 'S', ['X_Id'], 'MC', 'T', ['Id'], '1C'),
                   A('R9', 'S', ['X_Id'], '1C', 'V', ['Id'], '1C')],
        'uniques': {'T': [U('I1', 'Id')], 'V': [U('I1', 'Id')], 'S': [U('I1', 'Id')]},
    },
}


def constants(schema, maxi, genkind='int', userids=()):
    """Constants of Meta.tla for a schema, as python data for tlagen."""
    return {
        'Classes': list(schema['classes']),
        'Attrs': {c: schema['attrs'][c] for c in schema['classes']},
        'Assocs': list(schema['assocs']),
        'Uniques': {c: schema['uniques'].get(c, []) for c in schema['classes']},
        'MaxI': maxi,
        'GenKind': genkind,
        'UserIds': list(userids),
    }
