"""Association shapes used by the Meta specification family.  A schema is plain
data shared by the TLA+ side (constants of Meta.tla) and by the adapter, which
defines the same classes/associations/identifiers through pyxtuml's API."""


from . import tlagen


def A(rel, src, skeys, scard, tgt, tkeys, tcard, sphrase='', tphrase=''):
    return {'rel': rel, 'src': src, 'skeys': list(skeys), 'smany': 'M' in scard, 'scond': 'C' in scard,
            'sphrase': sphrase, 'tgt': tgt, 'tkeys': list(tkeys), 'tmany': 'M' in tcard,
            'tcond': 'C' in tcard, 'tphrase': tphrase}


def U(name, *attrs):
    return {'name': name, 'attrs': list(attrs)}


def at(n, t):
    return {'n': n, 't': t}


ID = 'UNIQUE_ID'

SCHEMAS = {
    # referring S (many side) -> referred T (one side)
    'one_many': {
        'classes': ['S', 'T'],
        'attrs': {'S': [at('Id', ID), at('T_Id', ID)], 'T': [at('Id', ID)]},
        'assocs': [A('R1', 'S', ['T_Id'], 'MC', 'T', ['Id'], '1')],
        'uniques': {'S': [U('I1', 'Id')], 'T': [U('I1', 'Id')]},
    },
    'one_one': {
        'classes': ['S', 'T'],
        'attrs': {'S': [at('Id', ID), at('T_Id', ID)], 'T': [at('Id', ID)]},
        'assocs': [A('R1', 'S', ['T_Id'], '1C', 'T', ['Id'], '1C')],
        'uniques': {'S': [U('I1', 'Id')], 'T': [U('I1', 'Id')]},
    },
    # many-to-one unconditional on both ends, two-attribute key
    'many_one_2key': {
        'classes': ['T', 'S'],
        'attrs': {'T': [at('K1', 'INTEGER'), at('K2', 'STRING')],
                  'S': [at('Id', ID), at('T_K1', 'INTEGER'), at('T_K2', 'STRING')]},
        'assocs': [A('R7', 'S', ['T_K1', 'T_K2'], 'M', 'T', ['K1', 'K2'], '1')],
        'uniques': {'S': [U('I1', 'Id')], 'T': [U('I1', 'K1', 'K2')]},
    },
    'reflexive_11': {
        'classes': ['C'],
        'attrs': {'C': [at('Id', ID), at('Prev_Id', ID)]},
        'assocs': [A('R2', 'C', ['Prev_Id'], '1C', 'C', ['Id'], '1C', sphrase='succeeds', tphrase='precedes')],
        'uniques': {'C': [U('I1', 'Id')]},
    },
    'reflexive_1m': {
        'classes': ['C'],
        'attrs': {'C': [at('Id', ID), at('Parent_Id', ID)]},
        'assocs': [A('R3', 'C', ['Parent_Id'], 'MC', 'C', ['Id'], '1C', sphrase='child of', tphrase='parent of')],
        'uniques': {'C': [U('I1', 'Id')]},
    },
    # association class with two formalisations under one number
    'assoc_class': {
        'classes': ['L', 'R', 'A'],
        'attrs': {'L': [at('Id', ID)], 'R': [at('Id', ID)], 'A': [at('L_Id', ID), at('R_Id', ID)]},
        'assocs': [A('R4', 'A', ['L_Id'], 'MC', 'L', ['Id'], '1'),
                   A('R4', 'A', ['R_Id'], '1C', 'R', ['Id'], '1')],
        'uniques': {'L': [U('I1', 'Id')], 'R': [U('I1', 'Id')], 'A': [U('I1', 'L_Id', 'R_Id')]},
    },
    # reflexive association class
    'assoc_reflexive': {
        'classes': ['N', 'E'],
        'attrs': {'N': [at('Id', ID)], 'E': [at('From_Id', ID), at('To_Id', ID)]},
        'assocs': [A('R5', 'E', ['From_Id'], 'MC', 'N', ['Id'], '1', sphrase='src', tphrase='out'),
                   A('R5', 'E', ['To_Id'], 'MC', 'N', ['Id'], '1', sphrase='dst', tphrase='in')],
        'uniques': {'N': [U('I1', 'Id')], 'E': [U('I1', 'From_Id', 'To_Id')]},
    },
    # subtype / supertype: both subtypes share the supertype's identifier
    'subsuper': {
        'classes': ['SUP', 'SA', 'SB'],
        'attrs': {'SUP': [at('Id', ID)], 'SA': [at('Id', ID), at('X', 'INTEGER')], 'SB': [at('Id', ID)]},
        'assocs': [A('R6', 'SA', ['Id'], '1C', 'SUP', ['Id'], '1'),
                   A('R6', 'SB', ['Id'], '1C', 'SUP', ['Id'], '1')],
        'uniques': {'SUP': [U('I1', 'Id')], 'SA': [U('I1', 'Id')], 'SB': [U('I1', 'Id')]},
    },
    # one referential attribute formalising two associations
    'shared_ref': {
        'classes': ['T', 'V', 'S'],
        'attrs': {'T': [at('Id', ID)], 'V': [at('Id', ID)], 'S': [at('Id', ID), at('X_Id', ID)]},
        'assocs': [A('R8', 'S', ['X_Id'], 'MC', 'T', ['Id'], '1C'),
                   # (the later association is unconditional towards V: an S without a V still reads X_Id through R8)
                   A('R9', 'S', ['X_Id'], '1C', 'V', ['Id'], '1')],
        'uniques': {'T': [U('I1', 'Id')], 'V': [U('I1', 'Id')], 'S': [U('I1', 'Id')]},
    },
    # plain, identifying and referential attributes of every core type
    'valued': {
        'classes': ['Q', 'P'],
        'attrs': {'Q': [at('Id', ID), at('Name', 'STRING')],
                  'P': [at('Id', ID), at('Name', 'STRING'), at('Num', 'INTEGER'), at('Flag', 'BOOLEAN'),
                        at('Q_Id', ID)]},
        'assocs': [A('R1', 'P', ['Q_Id'], 'MC', 'Q', ['Id'], '1C')],
        'uniques': {'Q': [U('I1', 'Id')], 'P': [U('I1', 'Id'), U('I2', 'Name', 'Num')]},
    },
    # C10: one plain, one identifying and one referential attribute with two-letter names
    'spelling': {
        'classes': ['Lk', 'Kx'],
        'attrs': {'Lk': [at('Id', ID)], 'Kx': [at('Id', ID), at('Nm', 'STRING'), at('Lk_Id', ID)]},
        'assocs': [A('R1', 'Kx', ['Lk_Id'], 'MC', 'Lk', ['Id'], '1C')],
        'uniques': {'Lk': [U('I1', 'Id')], 'Kx': [U('I1', 'Id')]},
    },
    # C19: two id slots in one class, plain attributes of other types, a referential attribute
    'gen19': {
        'classes': ['H', 'G'],
        'attrs': {'H': [at('Id', ID), at('Alt', ID)],
                  'G': [at('Id', ID), at('Nm', 'STRING'), at('Nx', 'INTEGER'), at('H_Id', ID)]},
        'assocs': [A('R1', 'G', ['H_Id'], 'MC', 'H', ['Id'], '1C')],
        'uniques': {'H': [U('I1', 'Id')], 'G': [U('I1', 'Id')]},
    },
    # two unrelated classes without identifiers: their CREATE TABLE statements may arrive late or never (inferred classes)
    'plain2': {
        'classes': ['X', 'Y'],
        'attrs': {'X': [at('N', 'INTEGER'), at('S', 'STRING'), at('F', 'BOOLEAN')],
                  'Y': [at('K', ID), at('R', 'REAL'), at('S', 'STRING'), at('N', 'INTEGER')]},
        'assocs': [],
        'uniques': {},
    },
    # C19: a referential attribute in front of the plain ones, so that positional arguments run through it
    'ref_first': {
        'classes': ['T', 'S'],
        'attrs': {'T': [at('Id', ID)],
                  'S': [at('T_Id', ID), at('Nm', 'STRING'), at('Id', ID), at('Cnt', 'INTEGER')]},
        'assocs': [A('R1', 'S', ['T_Id'], 'MC', 'T', ['Id'], '1C')],
        'uniques': {'T': [U('I1', 'Id')], 'S': [U('I1', 'Id')]},
    },
    'ref_middle': {
        'classes': ['T', 'S'],
        'attrs': {'T': [at('Id', ID), at('Nm', 'STRING')],
                  'S': [at('Id', ID), at('T_Id', ID), at('Flag', 'BOOLEAN'), at('W', 'REAL'), at('Alt', ID), at('T_Nm', 'STRING'),
                        at('Cnt', 'INTEGER')]},
        'assocs': [A('R1', 'S', ['T_Id'], 'MC', 'T', ['Id'], '1C'), A('R2', 'S', ['T_Nm'], 'MC', 'T', ['Nm'], '1C')],
        'uniques': {'T': [U('I1', 'Id'), U('I2', 'Nm')], 'S': [U('I1', 'Id')]},
    },
    # identifiers that are also SQL keywords / cardinality words
    'keywords': {
        'classes': ['M', 'Table'],
        'attrs': {'M': [at('To', ID), at('TRUE', 'BOOLEAN'), at('R9', 'INTEGER')],
                  'Table': [at('Index', ID), at('Values', 'INTEGER'), at('Phrase', 'STRING'), at('From', ID)]},
        'assocs': [A('R1', 'Table', ['From'], 'MC', 'M', ['To'], '1', sphrase='create', tphrase='insert into')],
        'uniques': {'M': [U('Unique', 'To'), U('R3', 'R9', 'To')], 'Table': [U('On', 'Index'), U('Rop', 'Values', 'Phrase')]},
    },
    # two associations to one class over the same two-attribute key, listed in different orders;
    # identifier values of one type that may be permuted
    'grid': {
        'classes': ['P', 'C1', 'C2'],
        'attrs': {'P': [at('A', 'INTEGER'), at('B', 'INTEGER')],
                  'C1': [at('Id', ID), at('PA', 'INTEGER'), at('PB', 'INTEGER')],
                  'C2': [at('Id', ID), at('PA', 'INTEGER'), at('PB', 'INTEGER')]},
        'assocs': [A('R1', 'C1', ['PA', 'PB'], 'MC', 'P', ['A', 'B'], '1C'),
                   A('R2', 'C2', ['PB', 'PA'], 'MC', 'P', ['B', 'A'], '1C')],
        'uniques': {'P': [U('I1', 'A', 'B')], 'C1': [U('I1', 'Id')], 'C2': [U('I1', 'Id')]},
    },
    # association numbers that are prefixes of one another (R1, R12, R121): a restriction to one number is exact
    'prefix_rels': {
        'classes': ['P', 'C1', 'C2', 'C3'],
        'attrs': {'P': [at('Id', ID)], 'C1': [at('Id', ID), at('P_Id', ID)], 'C2': [at('Id', ID), at('P_Id', ID)],
                  'C3': [at('Id', ID), at('P_Id', ID)]},
        'assocs': [A('R1', 'C1', ['P_Id'], 'MC', 'P', ['Id'], '1C'),
                   A('R12', 'C2', ['P_Id'], 'M', 'P', ['Id'], '1'),
                   A('R121', 'C3', ['P_Id'], '1C', 'P', ['Id'], '1')],
        'uniques': {'P': [U('I1', 'Id')], 'C1': [U('I1', 'Id')], 'C2': [U('I1', 'Id')], 'C3': [U('I1', 'Id')]},
    },
    # two associations refer to one class through different identifiers, with the same referential attribute name
    'two_identifiers': {
        'classes': ['Part', 'Stock', 'Label'],
        'attrs': {'Part': [at('Id', ID), at('Code', 'STRING')],
                  'Stock': [at('Id', ID), at('Part_Ref', ID)],
                  'Label': [at('Id', ID), at('Part_Ref', 'STRING')]},
        'assocs': [A('R1', 'Stock', ['Part_Ref'], 'MC', 'Part', ['Id'], '1C'),
                   A('R2', 'Label', ['Part_Ref'], 'MC', 'Part', ['Code'], '1C')],
        'uniques': {'Part': [U('I1', 'Id'), U('I2', 'Code')], 'Stock': [U('I1', 'Id')], 'Label': [U('I1', 'Id')]},
    },
    # phrases on one end only of a non-reflexive association
    'phrase_ends': {
        'classes': ['P', 'D'],
        'attrs': {'P': [at('Id', ID)], 'D': [at('Id', ID), at('O_Id', ID), at('W_Id', ID)]},
        'assocs': [A('R1', 'D', ['O_Id'], 'MC', 'P', ['Id'], '1C', tphrase='is owned by'),
                   A('R2', 'D', ['W_Id'], 'MC', 'P', ['Id'], '1C', sphrase='walks')],
        'uniques': {'P': [U('I1', 'Id')], 'D': [U('I1', 'Id')]},
    },
    # homonymous attributes declared in different letter case by different classes
    'mixed_case': {
        'classes': ['Person', 'Pet'],
        'attrs': {'Person': [at('Id', ID), at('Name', 'STRING'), at('age', 'INTEGER')],
                  # (a name may start with an underscore and contain digits)
                  'Pet': [at('id', ID), at('name', 'STRING'), at('Age', 'INTEGER'), at('owner_id', ID), at('_Tag2', 'STRING')]},
        'assocs': [A('R1', 'Pet', ['owner_id'], 'MC', 'Person', ['Id'], '1C')],
        'uniques': {'Person': [U('I1', 'Id')], 'Pet': [U('I1', 'id')]},
    },
    'reals': {
        'classes': ['M'],
        'attrs': {'M': [at('id', ID), at('x', 'REAL'), at('ok', 'BOOLEAN'), at('n', 'INTEGER')]},
        'assocs': [],
        'uniques': {'M': [U('I1', 'id')]},
    },
    'unknown_type': {
        'classes': ['W'],
        'attrs': {'W': [at('Id', ID), at('Odd', 'WEIRD'), at('Late', ID)]},
        'assocs': [],
        'uniques': {},
    },
}
# attribute types that are no core type but look like one (a fragment, a prefix, a plural, the empty name)
NEAR_TYPES = ['INT', 'BOOL', 'STR', 'ID', 'UNIQUE', 'REA', 'INTEGERS', 'STRING_', 'UNIQUE_ID2', 'E', 'Bool', 'int', 'uniqueid', 'NUMBER']
for _k, _t in enumerate(NEAR_TYPES):
    SCHEMAS['unknown_type_%d' % _k] = {
        'classes': ['W'],
        'attrs': {'W': [at('Id', ID), at('Odd', _t), at('Late', ID)] if _k % 2 == 0 else [at('Odd', _t), at('Id', ID)]},
        'assocs': [],
        'uniques': {},
    }
# (the grid schema under a second name: populations whose key values have equal hash values)
SCHEMAS['grid_twins'] = SCHEMAS['grid']
SCHEMAS['subsuper']['supertypes'] = [['SUP', 'R6']]
SCHEMAS['assoc_reflexive']['attrs'] = {'N': [at('Id', ID)], 'E': [at('One_Id', ID), at('Other_Id', ID)]}
SCHEMAS['assoc_reflexive']['assocs'] = [
    A('R5', 'E', ['One_Id'], 'MC', 'N', ['Id'], '1', sphrase='one', tphrase='other'),
    A('R5', 'E', ['Other_Id'], 'MC', 'N', ['Id'], '1', sphrase='other', tphrase='one')]
SCHEMAS['assoc_reflexive']['uniques'] = {'N': [U('I1', 'Id')], 'E': [U('I1', 'One_Id', 'Other_Id')]}


def constants(schema, maxi, genkind='int', userids=()):
    """Constants of Meta.tla for a schema, as python data for tlagen."""
    return {
        'Classes': list(schema['classes']),
        'Attrs': {c: schema['attrs'][c] for c in schema['classes']},
        'Assocs': list(schema['assocs']),
        'Uniques': {c: schema['uniques'].get(c, []) for c in schema['classes']},
        'MaxI': maxi,
        'GenKind': genkind,
        'UserIds': list(userids),
        'Rank': rank_table(schema),
        'Vals': {'INTEGER': {'i:0', 'i:7'}, 'STRING': {'s:a'}, 'BOOLEAN': {'b:1'}, 'UNIQUE_ID': {'u:0', 'u:9'}},
        'Alpha': set(),
        'RealNorm': dict(REALNORM),
        'RowChoices': tlagen.SetOf(),
        'MaxRows': 0,
    }


# value pools used by histories that write attributes (tokens in ascending order per type)
POOLS = {
    'INTEGER': ['i:-3', 'i:0', 'i:1', 'i:2', 'i:7'],
    'STRING': ['s:', 's:A', 's:a', 's:b', 's:bb'],
    'BOOLEAN': ['b:0', 'b:1'],
    'REAL': ['r:-1.5', 'r:-0.5', 'r:-0.25', 'r:0.0', 'r:0.5', 'r:2.25'],
    'UNIQUE_ID': ['u:0'] + ['u:%d' % i for i in range(1, 120)],
}


# reals and the token of what the six-decimal text form reads back as
REALNORM = {'r:-1.5': 'r:-1.5', 'r:0.0': 'r:0.0', 'r:0.5': 'r:0.5', 'r:2.25': 'r:2.25', 'r:-0.5': 'r:-0.5', 'r:-0.25': 'r:-0.25',
            'r:-0.999999': 'r:-0.999999', 'r:-0.0625': 'r:-0.0625',
            'r:0.1234567': 'r:0.123457', 'r:-7.0000004': 'r:-7.0', 'r:1e+20': 'r:1e+20', 'r:12345678.9': 'r:12345678.9'}


def rank_table(schema):
    r = {}
    for ty, toks in POOLS.items():
        for k, t in enumerate(toks):
            r[t] = k
    return r
