"""Shared pipeline of the OAL syntax properties (C07, C13, C08): programs ->
TLC (OalUnparse: canonical tokens, round-trip theorem) -> real parser via the
adapter -> TLC (OalTrace: tree equality, reference parse, token spans)."""
import copy
import os
import random

from . import common, oalgen, replay, tlc, trace

MODS = ['OalSyntax', 'OalUnparse', 'OalTrace', 'TraceBase']


def unparse_stage(progs, tree_depth=0, leaves=1, timeout=1200):
    """-> list of {'body':..., 'toks': [...]} for the TLC-enumerated trees (first) and the given programs"""
    d = tlc.prepare_dir(MODS, {'u.cfg': 'INIT Init\nNEXT Next\n'})
    pf = os.path.join(d, 'progs.json')
    of = os.path.join(d, 'toks.json')
    common.write_json(pf, [{'body': b} for b in progs])
    env = {'PROG_FILE': pf, 'OUT_FILE': of, 'TREE_DEPTH': str(tree_depth), 'TREE_LEAVES': str(leaves)}
    r = tlc.run(d, 'OalUnparse', 'u.cfg', workers=1, timeout=timeout, env=env, heap='8g')
    if r.errors() or not os.path.exists(of):
        i = r.out.find('Error')
        raise common.MachineryError('OalUnparse failed:\n%s' % r.out[max(0, i - 200):i + 3000])
    out = common.read_json(of)
    ntrees = len(out) - len(progs)
    return out, ntrees


def decorate(e, rnd, p=0.3):
    """wrap sub-expressions in redundant parentheses (only where the grammar has `( expression )`)"""
    e = copy.deepcopy(e)

    def walk(x, top=True):
        if not isinstance(x, dict):
            return x
        t = x.get('t')
        if t == 'bin':
            x['l'] = wrap(walk(x['l'], False))
            x['r'] = wrap(walk(x['r'], False))
        elif t == 'un':
            x['e'] = wrap(walk(x['e'], False))
        return x

    def wrap(x):
        if rnd.random() < p:
            return {'t': 'paren', 'e': x}
        return x
    return wrap(walk(e))


NCOVER = 0     # number of form-cover programs at the end of the last corpus


def corpus(tier, seed, syntax_only=True):
    """statement programs from the seeded generator (with redundant parentheses in a third of them)"""
    rnd = random.Random(seed)
    progs = []
    n = 150 if tier == 'quick' else 3000
    for k in range(n):
        g = oalgen.Gen(random.Random(rnd.randint(0, 10 ** 9)), maxdepth=rnd.choice([2, 3, 3, 4]),
                       parens=0.25 if k % 3 == 0 else 0.0, syntax_only=syntax_only)
        progs.append(g.program())
    global NCOVER
    NCOVER = 0
    if syntax_only:
        # every statement form of the grammar at least once (several fillings in the thorough tier)
        for k in range(1 if tier == 'quick' else 12):
            g = oalgen.Gen(random.Random(rnd.randint(0, 10 ** 9)), maxdepth=2, parens=0.0, syntax_only=True)
            cover = g.form_cover()
            NCOVER += len(cover)
            progs += cover
    return progs


def parse_and_validate(items, group=40):
    runs = [{'items': items[i:i + group]} for i in range(0, len(items), group)]
    traces = replay.replay('oal', {}, runs, timeout=3000)
    verdicts, st = trace.validate('OalTrace', '', traces, modules=['OalSyntax', 'OalTrace', 'TraceBase'])
    return runs, traces, verdicts, st
