"""Tracer behind the source hooks of xtuml/meta.py (active only with PYXTUML_VERIF=1).

The hooked functions (relate, unrelate, delete, MetaClass.new) are wrapped: for every
top-level call on a small metamodel the tracer records the projected state in front of
the call (event Adopt), the call with its outcome, and the projected state after it.
Nested calls (new() relating its referential arguments, delete() unrelating) are part
of the top-level call.  Events are appended as JSON lines to $PYXTUML_VERIF_TRACE; they
are validated afterwards by TLC against Meta.tla (MetaTrace.tla, action AdoptState).
The tracer never changes the outcome of a call; any failure inside it is recorded as an
event {"op": "TracerError"} and the call proceeds."""
import functools
import json
import os
import sys

HERE = os.path.dirname(os.path.abspath(__file__))
sys.path.insert(0, os.path.join(os.path.dirname(HERE), 'adapters'))

_depth = [0]
_registries = {}
_out = [None]
CORE = {'BOOLEAN', 'INTEGER', 'REAL', 'STRING', 'UNIQUE_ID'}
MAX_CLASSES, MAX_ASSOCS, MAX_INSTANCES = 8, 10, 24


def emit(ev):
    if _out[0] is None:
        path = os.environ.get('PYXTUML_VERIF_TRACE')
        if not path:
            return
        _out[0] = open(path, 'a')
    _out[0].write(json.dumps(ev) + '\n')
    _out[0].flush()


class Registry(object):
    """what the tracer knows of one metamodel: its schema (fixed at first sight) and the instances in first-seen order"""
    n = 0

    def __init__(self, m):
        import meta as adapter
        Registry.n += 1
        self.mid = '%d.%d' % (os.getpid(), Registry.n)
        self.m = m
        self.schema = self.schema_of(m)
        self.fingerprint = json.dumps(self.schema, sort_keys=True) if self.schema else ''
        self.world = None
        if self.schema:
            w = adapter.World.__new__(adapter.World)
            w.schema = self.schema
            w.plan = {}
            w.types = {c: {a['n']: a['t'] for a in self.schema['attrs'][c]} for c in self.schema['classes']}
            w.genkind = 'uuid'
            w.opt = {}
            w.refs = {c: set(k for a in self.schema['assocs'] if a['src'] == c for k in a['skeys']) for c in self.schema['classes']}
            w.step = 0
            w.m = m
            w.h = {c: [] for c in self.schema['classes']}
            self.world = w

    @staticmethod
    def schema_of(m):
        classes = [mc.kind for mc in m.metaclasses.values()]
        if not classes or len(classes) > MAX_CLASSES or len(m.associations) > MAX_ASSOCS:
            return None
        if len(set(c.upper() for c in classes)) != len(classes):
            return None
        attrs, uniques = {}, {}
        for mc in m.metaclasses.values():
            if any((t or '').upper() not in CORE for _, t in mc.attributes) or not mc.attributes:
                return None
            if len(set(n.upper() for n, _ in mc.attributes)) != len(mc.attributes):
                return None
            attrs[mc.kind] = [{'n': n, 't': t.upper()} for n, t in mc.attributes]
            uniques[mc.kind] = [{'name': k, 'attrs': list(v)} for k, v in sorted(mc.indices.items())]
        assocs = []
        for a in m.associations:
            d = {'rel': a.rel_id, 'src': a.target_link.from_metaclass.kind, 'skeys': list(a.source_keys),
                 'smany': bool(a.source_link.many), 'scond': bool(a.source_link.conditional), 'sphrase': a.target_link.phrase,
                 'tgt': a.source_link.from_metaclass.kind, 'tkeys': list(a.target_keys),
                 'tmany': bool(a.target_link.many), 'tcond': bool(a.target_link.conditional), 'tphrase': a.source_link.phrase}
            names = {c: [x['n'] for x in attrs[c]] for c in attrs}
            if d['src'] not in names or d['tgt'] not in names or len(d['skeys']) != len(d['tkeys']):
                return None
            if any(k not in names[d['src']] for k in d['skeys']) or any(k not in names[d['tgt']] for k in d['tkeys']):
                return None
            assocs.append(d)
        return {'classes': classes, 'attrs': attrs, 'assocs': assocs, 'uniques': uniques}

    def sync(self):
        """register every stored instance not seen before (in storage order)"""
        total = 0
        for c in self.schema['classes']:
            known = self.world.h[c]
            ids = set(id(x) for x in known)
            for x in self.m.find_metaclass(c).storage:
                if id(x) not in ids:
                    known.append(x)
                    ids.add(id(x))
            total += len(known)
        return total <= MAX_INSTANCES

    def handle(self, inst):
        import xtuml
        c = xtuml.get_metaclass(inst).kind
        for k, x in enumerate(self.world.h.get(c, [])):
            if x is inst:
                return [c, k + 1]
        return None

    def state(self):
        p = self.world.project()
        used = sorted(set(v for c in p['attr'] for row in p['attr'][c] for n, v in row.items()
                          if self.world.types[c][n] == 'UNIQUE_ID' and v not in ('unset', 'absent', 'u:0')))
        return {'pool': p['pool'], 'nav': p['nav'], 'attr': p['attr'], 'born': {c: len(self.world.h[c]) for c in self.schema['classes']},
                'used': used}


def registry_for(m):
    r = _registries.get(id(m))
    if r is None or r.m is not m:
        r = Registry(m)
        _registries[id(m)] = r
    elif r.schema and Registry.schema_of(m) != r.schema:
        r = Registry(m)                       # the schema was changed since: a new model as far as the trace goes
        _registries[id(m)] = r
    return r


def stored(inst):
    import xtuml
    return any(inst is s for s in xtuml.get_metaclass(inst).storage)


_loaders = {}


def traced_loader(op, fn):
    """ModelLoader.input / build_metamodel: outcome and number of accumulated statements (LoadIO.tla)"""
    import xtuml

    @functools.wraps(fn)
    def wrapper(self, *args, **kwargs):
        if _depth[0] > 0 or not os.environ.get('PYXTUML_VERIF_TRACE'):
            return fn(self, *args, **kwargs)
        _depth[0] += 1
        res = 'accepted' if op == 'input' else 'built'
        try:
            try:
                return fn(self, *args, **kwargs)
            except xtuml.ParsingException:
                res = 'ParsingException'
                raise
            except xtuml.MetaException:
                res = 'MetaException'
                raise
            except BaseException as e:
                res = 'PY:' + type(e).__name__
                raise
        finally:
            _depth[0] -= 1
            try:
                key = self.__dict__.get('_verif_key')       # (not id(self): addresses are reused)
                if key is None:
                    _loaders['n'] = _loaders.get('n', 0) + 1
                    key = self.__dict__['_verif_key'] = '%d.L%d' % (os.getpid(), _loaders['n'])
                emit({'op': 'Input' if op == 'input' else 'Build', 'loader': key, 'res': res,
                      'n': len(getattr(self, 'statements', [])), 'twin': True})
            except Exception as e:
                emit({'op': 'TracerError', 'where': op, 'err': '%s: %s' % (type(e).__name__, e)})
    return wrapper


def traced(op, fn):
    import xtuml
    if op in ('input', 'build'):
        return traced_loader(op, fn)

    @functools.wraps(fn)
    def wrapper(*args, **kwargs):
        if _depth[0] > 0 or not os.environ.get('PYXTUML_VERIF_TRACE'):
            return fn(*args, **kwargs)
        _depth[0] += 1
        reg = ev = None
        try:
            try:
                reg, ev = before(op, args, kwargs)
            except Exception as e:                          # the tracer must never disturb the call
                emit({'op': 'TracerError', 'where': 'before ' + op, 'err': '%s: %s' % (type(e).__name__, e)})
                reg = ev = None
            try:
                out = fn(*args, **kwargs)
            except BaseException as e:
                if ev is not None:
                    finish(reg, ev, None, e)
                raise
            if ev is not None:
                finish(reg, ev, out, None)
            return out
        finally:
            _depth[0] -= 1

    def before(op, args, kwargs):
        if op == 'new':
            mc = args[0]
            m = mc.metamodel
        elif op == 'delete':
            if not isinstance(args[0], xtuml.Class):
                return None, None
            m = xtuml.get_metaclass(args[0]).metamodel
        else:
            inst = args[0] if args[0] is not None else (args[1] if len(args) > 1 else None)
            if not isinstance(inst, xtuml.Class) or not all(x is None or isinstance(x, xtuml.Class) for x in args[:2]):
                return None, None
            m = xtuml.get_metaclass(inst).metamodel
        if m is None:
            return None, None                   # a metaclass outside any metamodel
        reg = registry_for(m)
        if not reg.schema or not reg.sync():
            return None, None
        ev = {'model': reg.mid}
        if op in ('relate', 'unrelate'):
            a = list(args) + [None] * 4
            x, y = a[0], a[1]
            rel = kwargs.get('rel_id', a[2])
            ph = kwargs.get('phrase', a[3] if len(args) > 3 else '')
            rel = 'R%d' % rel if isinstance(rel, int) else rel
            if x is None or y is None:
                ev.update({'op': 'RelateNone'})
            else:
                hx, hy = reg.handle(x), reg.handle(y)
                if hx is None or hy is None or not stored(x) or not stored(y):
                    return None, None           # a deleted or foreign instance: outside the domain
                ev.update({'op': 'Relate' if op == 'relate' else 'Unrelate', 'x': hx, 'y': hy, 'rel': str(rel), 'ph': ph or ''})
        elif op == 'delete':
            h = reg.handle(args[0])
            if h is None:
                return None, None
            ev.update({'op': 'Delete', 'x': h})
        else:
            mc = args[0]
            c = mc.kind
            names = [n for n, _ in mc.attributes]
            refs = reg.world.refs[c]
            pos = list(args[1:])
            if len(pos) > len(names) or any(names[j] in refs for j in range(len(pos))):
                return None, None               # referential arguments: creation of rows is decided by C03
            upper = {n.upper(): n for n in names}
            kw = {}
            for k, v in kwargs.items():
                n = upper.get(k.upper())
                if n is None or n in refs:
                    return None, None
                kw[n] = v
            import _sql
            types = reg.world.types[c]
            try:
                ev.update({'op': 'New', 'c': c, 'pos': [_sql.encode(v, types[names[j]]) for j, v in enumerate(pos)],
                           'kw': {n: _sql.encode(v, types[n]) for n, v in kw.items()} or {'_': '_'}, 'g': -1})
            except Exception:
                return None, None
            if any(t.startswith('?') for t in ev['pos'] + [v for v in ev['kw'].values()]):
                return None, None               # a value that is not of the declared type
        pre = reg.state()
        emit(dict(pre, op='Adopt', model=reg.mid, fingerprint=reg.fingerprint, res='none'))
        return reg, ev

    def finish(reg, ev, out, exc):
        try:
            if exc is not None:
                ev['res'] = type(exc).__name__ if isinstance(exc, xtuml.MetaException) else 'PY:' + type(exc).__name__
            elif ev['op'] in ('Relate', 'Unrelate', 'RelateNone'):
                ev['res'] = repr(out)
            else:
                ev['res'] = 'none'
            reg.sync()
            if ev['op'] == 'New':
                c = ev['c']
                ev['ids'] = []
                if exc is None:
                    slots = [a['n'] for a in reg.schema['attrs'][c] if a['t'] == 'UNIQUE_ID' and a['n'] not in reg.world.refs[c]]
                    ev['ids'] = [reg.world.read(out, n, 'UNIQUE_ID') for n in slots]
            ev.update(reg.state())
            ev['fingerprint'] = reg.fingerprint
            emit(ev)
        except Exception as e:
            emit({'op': 'TracerError', 'where': 'after ' + str(ev.get('op')), 'err': '%s: %s' % (type(e).__name__, e)})

    return wrapper
