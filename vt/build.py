"""Rebuild pyxtuml from /repo's current working tree into a scratch directory.

The repository's ply parser tables (__*_parsetab.py, __*_lextab.py) are
git-ignored build artefacts that ply (optimize=1) never re-validates against the
grammar text.  A check must judge the *current* grammar, so the scratch copy is
made without them and ply regenerates both from the source.
"""
import os
import shutil

from . import common

_built = {}


def build(repo=None):
    repo = repo or common.REPO
    if repo in _built:
        return _built[repo]
    d = common.scratch('vt-build-')
    for pkg in ('xtuml', 'bridgepoint'):
        shutil.copytree(os.path.join(repo, pkg), os.path.join(d, pkg),
                        ignore=shutil.ignore_patterns('__*tab.py', '__pycache__', '*.pyc', 'parser.out'))
    # The repository is installed in the interpreter as an editable package whose import hook maps
    # `xtuml.*` / `bridgepoint.*` submodules that are missing here (the parser tables!) back to /repo.
    # Remove that hook in every process that runs on the scratch copy.
    with open(os.path.join(d, 'sitecustomize.py'), 'w') as f:
        f.write("import sys\n"
                "sys.meta_path[:] = [f for f in sys.meta_path\n"
                "                    if not str(getattr(f, '__module__', type(f).__module__)).startswith('__editable__')]\n"
                "sys.path[:] = [p for p in sys.path if not p.rstrip('/').endswith(%r)]\n" % repo.rstrip('/'))
    env = {
        'PYTHONPATH': d,
        'PYTHONHASHSEED': '0',
        'PYTHONDONTWRITEBYTECODE': '1',
    }     # (the hook guard PYXTUML_VERIF stays off: only vt/hooktrace.py turns the source hooks on)
    # regenerate the parser tables once, so that parallel workers never race
    code = ('import xtuml, bridgepoint, sys\n'
            'assert xtuml.__file__.startswith(%r), xtuml.__file__\n'
            'xtuml.ModelLoader().input("")\n'
            'import bridgepoint.oal as o\n'
            'o.parse("x = 1;")\n'
            'import os\n'
            'tabs = [m for m in sys.modules if m.endswith("tab")]\n'
            'assert all(sys.modules[m].__file__.startswith(%r) for m in tabs), [sys.modules[m].__file__ for m in tabs]\n'
            % (d, d))
    rc, out = common.run([common.PY, '-c', code], env=env, cwd=d, timeout=300)
    if rc != 0:
        raise common.MachineryError('cannot build/import pyxtuml from %s:\n%s' % (repo, out[-3000:]))
    _built[repo] = (d, env)
    return d, env
