"""Run TLC under a timeout and parse what it reports."""
import os
import re
import shutil
import subprocess
import sys
import tempfile

from . import common

JAR = '/opt/veriftools/tla/tla2tools.jar'
DEPS = '/opt/veriftools/tla/CommunityModules-deps.jar'


class TlcResult(object):
    def __init__(self, rc, out):
        self.rc = rc
        self.out = out
        self.generated = self.distinct = self.depth = 0
        m = re.findall(r'(\d+) states generated, (\d+) distinct states found, (\d+) states left', out)
        if m:
            self.generated, self.distinct = int(m[-1][0]), int(m[-1][1])
        m = re.findall(r'depth of the complete state graph search is (\d+)', out)
        if m:
            self.depth = int(m[-1])
        self.violated = re.findall(r'Error: Invariant (\w+) is violated', out)
        self.violated += re.findall(r'Error: Action property (\w+) is violated', out)
        if re.search(r'Error: Temporal properties were violated', out):
            self.violated.append('<temporal>')
        self.completed = ('Model checking completed' in out) or ('Finished in' in out and not self.errors())
        self.coverage = self._coverage(out)

    def errors(self):
        return [l for l in self.out.splitlines() if l.startswith('Error:')]

    def ok(self):
        return not self.errors() and 'No error has been found' in self.out

    @staticmethod
    def _coverage(out):
        cov = {}
        # "<Add line 30, col 1 to line 33, col 20 of module OrderedSet>: 12:345"
        for m in re.finditer(r'^<(\w+) line \d+, col \d+ to line \d+, col \d+ of module (\w+)>: (\d+):(\d+)', out, re.M):
            cov[m.group(1)] = (int(m.group(3)), int(m.group(4)))
        return cov


def prepare_dir(modules=None, extra=None):
    """Copy spec modules into a scratch dir where generated MC files may be written."""
    d = common.scratch('vt-tlc-')
    for f in os.listdir(common.SPEC):
        if f.endswith('.tla') or f.endswith('.cfg'):
            if modules is None or f.split('.')[0] in modules:
                shutil.copy(os.path.join(common.SPEC, f), d)
    for name, text in (extra or {}).items():
        with open(os.path.join(d, name), 'w') as f:
            f.write(text)
    return d


def run(cwd, module, cfg=None, workers=None, timeout=600, env=None, args=(), heap=None,
        dfs=False):
    workers = workers or common.NCPU
    meta = tempfile.mkdtemp(prefix='meta-%s-' % module, dir=cwd)
    jopts = ['-XX:+UseParallelGC', '-Xss64m']
    # (without a bound a JVM takes a quarter of the machine; several checks side by side then run the machine out of memory)
    jopts.append('-Xmx%s' % (heap or '10g'))
    if dfs:
        jopts.append('-Dtlc2.tool.queue.IStateQueue=StateDeque')
    cmd = ['java'] + jopts + ['-cp', JAR + ':' + DEPS, 'tlc2.TLC',
                              '-workers', str(workers), '-metadir', meta, '-noGenerateSpecTE']
    if cfg:
        cmd += ['-config', cfg]
    cmd += list(args) + [module + '.tla']
    e = dict(os.environ)
    e.pop('JAVA_TOOL_OPTIONS', None)
    if env:
        e.update(env)
    import time
    for attempt in range(3):
        try:
            p = subprocess.run(cmd, cwd=cwd, env=e, timeout=timeout, stdout=subprocess.PIPE,
                               stderr=subprocess.STDOUT, universal_newlines=True, errors='replace')
        except subprocess.TimeoutExpired as ex:
            out = ex.stdout or ''
            if isinstance(out, bytes):
                out = out.decode('utf-8', 'replace')
            shutil.rmtree(meta, ignore_errors=True)
            raise common.MachineryError('TLC timed out after %ss on %s\n%s' % (timeout, module, out[-2000:]))
        shutil.rmtree(meta, ignore_errors=True)
        r = TlcResult(p.returncode, p.stdout)
        # a JVM that died without a verdict (killed under memory pressure, could not start) is run again;
        # every verdict of TLC itself - success or an "Error:" - is final
        if r.completed or r.errors() or 'No error has been found' in r.out:
            return r
        sys.stderr.write('TLC ended without a verdict (exit %s) on %s, attempt %d: %s\n' % (p.returncode, module, attempt + 1,
                                                                                      p.stdout[-300:].replace('\n', ' | ')))
        time.sleep(3 + 5 * attempt)
    return r


def check_model(cwd, module, cfg, must_cover=(), args=(), **kw):
    """Model-check a configuration; any violation of the *design* is a machinery
    failure (the spec is wrong), not a VIOLATION of the implementation."""
    r = run(cwd, module, cfg, args=('-coverage', '1') + tuple(args), **kw)
    if not r.ok():
        i = r.out.find('Error:')
        raise common.MachineryError('TLC rejects the specification %s/%s:\n%s' % (
            module, cfg, r.out[i:i + 4000] if i >= 0 else r.out[-4000:]))
    for a in must_cover:
        if a not in r.coverage or r.coverage[a][1] == 0:
            raise common.MachineryError('vacuous model: action %s never taken in %s/%s' % (a, module, cfg))
    return r
