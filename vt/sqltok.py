"""Tokenizer and single-edit mutations for texts of the SQL dialect (harness side:
it only produces inputs; what the loader does with them is observed)."""
import re

TOKEN = re.compile(r"""
    (?P<comment>--[^\n]*\n?) |
    (?P<string>'(?:''|[^'])*') |
    (?P<guid>"(?:[^\\\n"]|\\.)*") |
    (?P<frac>\d+\.\d+) |
    (?P<num>\d+) |
    (?P<id>[A-Za-z_][\w]*) |
    (?P<punct>[(),;-]) |
    (?P<ws>\s+) |
    (?P<other>.)
""", re.X | re.S)


def tokens(text):
    return [(m.lastgroup, m.group()) for m in TOKEN.finditer(text)]


def join(toks):
    return ''.join(t for _, t in toks)


FLIPS = {
    'string': ["42", '"00000000-0000-0000-0000-000000000007"', 'TRUE', '3.5', "'unterminated"],
    'guid': ["'text'", '17', '"not-a-uuid"', '"unterminated', 'false'],
    'num': ["'7'", '1.5', '"00000000-0000-0000-0000-000000000001"', 'TRUE', '99999999999999999999999999'],
    'frac': ["'x'", '3', 'FALSE', '1.2.3'],
    'id': ['1C', 'M', 'R7', 'TRUE', '42', "'q'", 'CREATE'],
    'punct': [';', '(', ')', ',', '-'],
}


def mutants(text, rnd, limit=None):
    """all single-edit token mutants (delete, duplicate, swap with next, flip lexical class, truncate)"""
    toks = tokens(text)
    sig = [i for i, (k, _) in enumerate(toks) if k not in ('ws', 'comment')]
    out = []
    focus = set()      # edits that put a literal with unusual characters where it does not belong are always kept

    def odd(j):
        return j is not None and toks[j][0] in ('string', 'guid') and not re.match(r'^.[\w\- ]*.$', toks[j][1])
    for n, i in enumerate(sig):
        k, t = toks[i]
        nx = sig[n + 1] if n + 1 < len(sig) else None
        start = len(out)
        if odd(i) or odd(nx):
            focus.update(range(len(out), len(out) + 3))
        out.append(('delete', join(toks[:i] + toks[i + 1:])))
        out.append(('duplicate', join(toks[:i + 1] + [('ws', ' ')] + toks[i:])))
        nxt = [j for j in sig if j > i]
        if nxt:
            j = nxt[0]
            sw = list(toks)
            sw[i], sw[j] = sw[j], sw[i]
            out.append(('swap', join(sw)))
        for f in FLIPS.get(k, []):
            if f != t:
                out.append(('flip', join(toks[:i] + [(k, f)] + toks[i + 1:])))
        out.append(('truncate', join(toks[:i])))
        out.append(('truncate_mid', join(toks[:i]) + t[:max(1, len(t) // 2)]))
        if n and toks[sig[n - 1]][1].upper() in ('FROM', 'TO') and k in ('num', 'id'):
            # the cardinality of an association end is checked by the grammar's actions, not by the grammar: a text
            # that fails there has been parsed up to that point
            focus.update(range(start, len(out)))
    if limit is not None and len(out) > limit:
        keep = [out[j] for j in sorted(focus) if j < len(out)][:limit]
        rest = [m for j, m in enumerate(out) if j not in focus]
        out = keep + rnd.sample(rest, min(len(rest), max(limit - len(keep), limit // 2)))
    return out


VOCAB = ['CREATE', 'TABLE', 'ROP', 'REF_ID', 'FROM', 'TO', 'PHRASE', 'UNIQUE', 'INDEX', 'ON', 'INSERT', 'INTO', 'VALUES',
         'TRUE', 'FALSE', '(', ')', ',', ';', '-', '1', '1C', 'M', 'MC', 'R1', 'R22', 'S', 'T', 'Id', 'T_Id', 'UNIQUE_ID',
         'INTEGER', 'STRING', 'BOOLEAN', 'REAL', '42', '3.25', "'a'", "''", "'it''s'", '"00000000-0000-0000-0000-000000000003"',
         '-- c\n', '\n', 'x9', '_a']


def soup(rnd, n):
    return ' '.join(rnd.choice(VOCAB) for _ in range(n))


def noise(rnd, n):
    alphabet = "abcXYZ019 \t\n'\"();,-.*/\\#$%&?@[]{}|~^=+<>!:\x00\x7få☃"
    return ''.join(rnd.choice(alphabet) for _ in range(n))
