"""Call graphs of functions, class / instance operations, bridges and derived
attributes as syntax trees (C15).  The harness only chooses them."""
from .oalgen import I, V, B, Str, Bin, Un, Field, Ret, If, Assign

P = lambda n: {'t': 'param', 'n': n}
SELF = {'t': 'self'}


def fcall(_name, **kw):
    return {'t': 'fcall', 'n': _name, 'ps': [{'n': k, 'e': v} for k, v in kw.items()]}


def icall(_ns, _name, _kind='implicit', **kw):
    return {'t': 'icall', 'kind': _kind, 'ns': _ns, 'n': _name, 'ps': [{'n': k, 'e': v} for k, v in kw.items()]}


def ocall(_h, _name, **kw):
    return {'t': 'ocall', 'h': _h, 'n': _name, 'ps': [{'n': k, 'e': v} for k, v in kw.items()]}


def Call(inv):
    return {'t': 'call', 'inv': inv}


def While(c, b):
    return {'t': 'while', 'c': c, 'b': b}


def Create(v, k):
    return {'t': 'create', 'v': v, 'k': k}


def SelectFrom(card, v, k, w=None):
    return {'t': 'select_from', 'card': card, 'v': v, 'k': k, 'haswhere': w is not None, 'w': w if w is not None else B(True)}


def ForEach(v, s, b):
    return {'t': 'for', 'v': v, 's': s, 'b': b}


def environment(rnd):
    k1, k2, k3 = rnd.randint(0, 5), rnd.randint(1, 4), rnd.randint(0, 3)
    funcs = {
        # direct recursion with a decreasing parameter; the local x must survive the recursive call
        'fact': {'params': ['n'], 'ret': 'integer', 'ptypes': {'n': 'integer'}, 'body': [
            If(Bin('<=', P('n'), I(0)), [Ret(I(k2))]),
            Assign(V('x'), Bin('*', P('n'), I(2))),
            Assign(V('y'), fcall('fact', n=Bin('-', P('n'), I(1)))),
            Ret(Bin('+', V('x'), V('y')))]},
        # mutual recursion
        'even': {'params': ['n'], 'ret': 'boolean', 'ptypes': {'n': 'integer'}, 'body': [
            If(Bin('==', P('n'), I(0)), [Ret(B(True))]),
            Ret(fcall('odd', n=Bin('-', P('n'), I(1))))]},
        'odd': {'params': ['n'], 'ret': 'boolean', 'ptypes': {'n': 'integer'}, 'body': [
            If(Bin('==', P('n'), I(0)), [Ret(B(False))]),
            Assign(V('r'), fcall('even', n=Bin('-', P('n'), I(1)))),
            Ret(V('r'))]},
        # several parameters bound by name (order of arguments differs at call sites), strings and booleans
        'mix': {'params': ['a', 'b', 's', 'f'], 'ret': 'integer', 'ptypes': {'a': 'integer', 'b': 'integer', 's': 'string', 'f': 'boolean'},
                'body': [
            Assign(V('x'), Bin('-', Bin('*', P('a'), I(10)), P('b'))),
            If(Bin('and', P('f'), Bin('==', P('s'), Str('go'))), [Assign(V('x'), Bin('+', V('x'), I(100)))]),
            Ret(V('x'))]},
        # a callee that assigns the same variable names as its callers
        'clobber': {'params': ['v'], 'ret': 'integer', 'ptypes': {'v': 'integer'}, 'body': [
            Assign(V('x'), I(99)), Assign(V('y'), I(98)), Assign(V('c'), I(0)), Assign(V('i'), I(97)),
            Ret(Bin('+', P('v'), I(k1)))]},
        # no return statement executed on one path, a bare return on another
        'maybe': {'params': ['n'], 'ret': 'void', 'ptypes': {'n': 'integer'}, 'body': [
            If(Bin('>', P('n'), I(k3)), [Ret()]),
            Create('made', 'B'),
            Assign(Field(V('made'), 'N'), P('n'))]},
        # a value on one path, no return statement on the other: an invocation that executes no return delivers nothing,
        # whatever the same function delivered before
        'gate': {'params': ['n'], 'ret': 'integer', 'ptypes': {'n': 'integer'}, 'body': [
            If(Bin('>', P('n'), I(k3)), [Ret(Bin('*', P('n'), I(10)))]),
            Assign(V('x'), P('n'))]},
        # returns through nested control flow
        'search': {'params': ['limit'], 'ret': 'integer', 'ptypes': {'limit': 'integer'}, 'body': [
            Assign(V('c'), I(0)),
            While(Bin('<', V('c'), I(6)), [
                Assign(V('c'), Bin('+', V('c'), I(1))),
                If(Bin('>', fcall('clobber', v=V('c')), P('limit')), [Ret(V('c'))])]),
            Ret(Un('-', I(1)))]},
        # locals named like the parameters (and a parameter named like a constant): separate namespaces
        'shadow': {'params': ['n', 'limit'], 'ret': 'integer', 'ptypes': {'n': 'integer', 'limit': 'integer'}, 'body': [
            Assign(V('n'), Bin('*', P('n'), I(2))),
            Assign(V('limit'), I(0)),
            While(Bin('<', V('limit'), P('limit')), [Assign(V('limit'), Bin('+', V('limit'), I(1)))]),
            If(Bin('>', P('n'), I(k3)), [Assign(V('n'), Bin('+', V('n'), fcall('shadow', n=Bin('-', P('n'), I(2)), limit=I(1))))]),
            Ret(Bin('+', Bin('+', Bin('*', V('n'), I(3)), Bin('*', P('n'), I(2))), V('limit')))]},
        # a function with an effect on the model that yields a boolean: both operands of and / or are evaluated
        'touch': {'params': ['n'], 'ret': 'boolean', 'ptypes': {'n': 'integer'}, 'body': [
            Create('t', 'B'), Assign(Field(V('t'), 'N'), P('n')), Ret(Bin('>', P('n'), I(k3)))]},
        # model elements whose names differ only in letter case (OAL names are case-sensitive): functions limit / zero next
        # to the constants LIMIT / ZERO, a function color next to the enumeration Color
        'limit': {'params': ['n'], 'ret': 'integer', 'ptypes': {'n': 'integer'}, 'body': [Ret(Bin('+', Bin('*', P('n'), I(3)), I(k2)))]},
        'zero': {'params': [], 'ret': 'integer', 'ptypes': {}, 'body': [Ret(I(40 + k1))]},
        'color': {'params': ['n'], 'ret': 'integer', 'ptypes': {'n': 'integer'}, 'body': [Ret(Bin('-', P('n'), I(k3)))]},
        'lim': {'params': ['LIMIT', 's'], 'ret': 'integer', 'ptypes': {'LIMIT': 'integer', 's': 'string'}, 'body': [
            Assign(V('s'), Str('go')),
            If(Bin('==', P('s'), V('s')), [Ret(Bin('+', Bin('*', V('LIMIT'), I(10)), P('LIMIT')))]),
            Ret(Un('-', P('LIMIT')))]},
    }
    ops = {
        'A': {
            'cop': {'inst': False, 'params': ['x'], 'ret': 'integer', 'ptypes': {'x': 'integer'}, 'body': [
                Create('a', 'A'), Assign(Field(V('a'), 'N'), P('x')),
                Ret(Bin('+', fcall('clobber', v=P('x')), I(1)))]},
            'iop': {'inst': True, 'params': ['k'], 'ret': 'integer', 'ptypes': {'k': 'integer'}, 'body': [
                Assign(V('x'), Bin('*', Field(SELF, 'N'), P('k'))),
                Assign(Field(SELF, 'N'), Bin('+', Field(SELF, 'N'), I(1))),
                Ret(Bin('+', V('x'), fcall('fact', n=I(1))))]},
            'sop': {'inst': True, 'params': ['k'], 'ret': 'integer', 'ptypes': {'k': 'integer'}, 'body': [
                Assign(V('k'), Field(SELF, 'N')),
                Assign(Field(SELF, 'N'), P('k')),
                Ret(Bin('+', Bin('*', V('k'), I(10)), P('k')))]},
            'csh': {'inst': False, 'params': ['x'], 'ret': 'integer', 'ptypes': {'x': 'integer'}, 'body': [
                SelectFrom('many', 'x', 'A', Bin('>', Field({'t': 'selected'}, 'N'), P('x'))),
                Ret(Bin('+', Bin('*', Un('cardinality', V('x')), I(10)), P('x')))]},
            'twice': {'inst': True, 'params': [], 'ret': 'integer', 'ptypes': {}, 'body': [
                Ret(Bin('+', ocall(SELF, 'iop', k=I(1)), ocall(SELF, 'iop', k=I(2))))]},
        },
    }
    bridges = {
        'EE1': {'br': {'params': ['s', 'n'], 'ret': 'integer', 'ptypes': {'s': 'string', 'n': 'integer'}, 'body': [
            If(Bin('==', P('s'), Str('double')), [Ret(Bin('*', P('n'), I(2)))]),
            Ret(fcall('clobber', v=P('n')))]},
                'bs': {'params': ['n'], 'ret': 'integer', 'ptypes': {'n': 'integer'}, 'body': [
            Assign(V('n'), Bin('+', P('n'), I(1))),
            Ret(Bin('+', Bin('*', V('n'), I(10)), P('n')))]}},
    }
    # the derived attribute reads the same attribute of ANOTHER instance (its successor): only self.Calc is the value under
    # computation
    derived = {'A': {'Calc': {'ty': 'integer', 'body': [
        Assign(V('x'), Bin('+', Field(SELF, 'N'), I(k1))),
        {'t': 'select_related', 'card': 'one', 'v': 'nxt', 'h': SELF, 'chain': [{'k': 'A', 'rel': 'R2', 'ph': "'precedes'"}],
         'haswhere': False, 'w': B(True)},
        If(Un('not_empty', V('nxt')), [Assign(V('x'), Bin('+', V('x'), Bin('*', Field(V('nxt'), 'Calc'), I(2))))]),
        Assign(Field(SELF, 'Calc'), Bin('+', V('x'), fcall('clobber', v=I(1))))]}}}
    items = ['RED', 'GREEN', 'BLUE', 'BLACK', 'WHITE']
    rnd.shuffle(items)
    enums = {'Color': items[:rnd.randint(2, 5)]}
    consts = {'LIMIT': ('integer', str(rnd.randint(0, 9))), 'GREETING': ('string', 'go'),
              'ENABLED': ('boolean', rnd.choice(['true', 'TRUE', 'True'])),
              # values that a careless conversion gets wrong: false, zero, the empty string
              'DISABLED': ('boolean', rnd.choice(['false', 'FALSE', 'False'])), 'ZERO': ('integer', '0'), 'NOTHING': ('string', ''),
              'FLAG': ('boolean', rnd.choice(['true', 'false']))}
    funcs.update(random_funcs(rnd, rnd.randint(3, 5)))
    return {'funcs': funcs, 'ops': ops, 'bridges': bridges, 'derived': derived, 'enums': enums, 'consts': consts}


def random_funcs(rnd, n=4):
    """a random call graph: functions g0..g(n-1) with a depth parameter d (every call passes d - 1 under `if param.d > 0`,
    so any graph - recursive, mutually recursive, branching - terminates), integer / string / boolean parameters bound by
    name, locals drawn from one small pool of names (the callers' and the parameters' names among them), calls in
    expressions, arguments, loop conditions and where clauses, returns at several depths, paths without return"""
    names = ['g%d' % i for i in range(n)]
    sig = {}
    for g in names:
        extra = rnd.sample([('s', 'string'), ('f', 'boolean'), ('y', 'integer')], rnd.randint(0, 2))
        sig[g] = [('d', 'integer'), ('x', 'integer')] + extra
    pool = ['x', 'y', 'acc', 'i', 'd', 's']

    def call(g, depth_expr, argx):
        kw = {'d': depth_expr, 'x': argx}
        for pn, pt in sig[g][2:]:
            kw[pn] = Str(rnd.choice(['go', 'stop'])) if pt == 'string' else (B(rnd.random() < 0.5) if pt == 'boolean' else I(rnd.randint(0, 3)))
        items = list(kw.items())
        rnd.shuffle(items)
        return fcall(g, **dict(items))
    funcs = {}
    for g in names:
        acc = rnd.choice(['acc', 'x', 'y'])            # may be named like a parameter
        body = [Assign(V(acc), Bin('+', P('x'), I(rnd.randint(0, 3))))]
        down = Bin('-', P('d'), I(1))
        inner = []
        for _ in range(rnd.randint(1, 2)):
            callee = rnd.choice(names)
            form = rnd.randint(0, 3)
            argx = Bin('%', V(acc), I(5))
            if rnd.random() < 0.4:
                # an invocation inside an argument of an invocation with several arguments (the argument lists are
                # shuffled: the nested one is the first, a middle or the last argument)
                nested = call(rnd.choice(names), down, argx)
                argx = nested if rnd.random() < 0.5 else Bin('%', Bin('+', nested, I(1)), I(5))
            c = call(callee, down, argx)
            if form == 0:
                inner.append(Assign(V(acc), Bin('+', V(acc), c)))
            elif form == 1:
                tmp = rnd.choice(pool)
                if tmp == acc:
                    tmp = 'i'
                inner += [Assign(V(tmp), c), Assign(V(acc), Bin('+', V(acc), Bin('%', V(tmp), I(7))))]
            elif form == 2:
                inner.append(If(Bin('>', c, I(rnd.randint(0, 4))), [Assign(V(acc), Bin('+', V(acc), I(1)))],
                                [(Bin('==', P('x'), I(rnd.randint(0, 3))), [Ret(Bin('+', V(acc), I(50)))])], None))
            else:
                cn = 'i' if acc != 'i' else 'y'
                inner += [Assign(V(cn), I(0)),
                          While(Bin('<', Bin('+', V(cn), Bin('%', c, I(2))), I(2)), [Assign(V(cn), Bin('+', V(cn), I(1))),
                                                                                       Assign(V(acc), Bin('+', V(acc), I(2)))])]
        body.append(If(Bin('>', P('d'), I(0)), inner, [], None))
        for pn, pt in sig[g][2:]:
            if pt == 'string':
                body.append(If(Bin('==', P(pn), Str('go')), [Assign(V(acc), Bin('+', V(acc), I(10)))], [], None))
            elif pt == 'boolean':
                body.append(If(P(pn), [Ret(Bin('*', V(acc), I(2)))], [], None))
            else:
                body.append(Assign(V(acc), Bin('+', V(acc), P(pn))))
        if rnd.random() < 0.8:
            body.append(Ret(Bin('+', V(acc), Bin('*', P('d'), I(100)))))
        else:
            body += [If(Bin('>', V(acc), I(3)), [Ret(V(acc))], [], None), Ret(I(0))]
        funcs[g] = {'params': [p for p, _ in sig[g]], 'ret': 'integer', 'ptypes': dict(sig[g]), 'body': body}
    return funcs


def random_scripts(rnd, env):
    gs = sorted(n for n in env['funcs'] if n.startswith('g') and n[1:].isdigit())
    out = []

    def call(g, d):
        f = env['funcs'][g]
        kw = {}
        for pn in f['params']:
            pt = f['ptypes'][pn]
            kw[pn] = I(d) if pn == 'd' else (Str(rnd.choice(['go', 'x'])) if pt == 'string' else (B(rnd.random() < 0.5) if pt == 'boolean' else I(rnd.randint(0, 4))))
        items = list(kw.items())
        rnd.shuffle(items)
        return fcall(g, **dict(items))
    def nested(g, d):
        # the integer argument x of the outer call is itself a call
        c = call(g, d)
        for p in c['ps']:
            if p['n'] == 'x':
                p['e'] = call(rnd.choice(gs), max(d - 1, 0))
        return c
    for g in gs:
        out.append([Assign(V('x'), I(7)), Assign(V('acc'), I(8)), Assign(V('r'), (nested if rnd.random() < 0.5 else call)(g, rnd.randint(0, 3))),
                    Ret(Bin('+', Bin('*', V('r'), I(100)), Bin('+', V('x'), V('acc'))))])
    g1, g2 = rnd.choice(gs), rnd.choice(gs)
    out.append([Create('a1', 'A'), Assign(Field(V('a1'), 'N'), I(rnd.randint(0, 9))), Create('a2', 'A'), Assign(Field(V('a2'), 'N'), I(rnd.randint(0, 30))),
                SelectFrom('many', 'as', 'A', Bin('>=', Field({'t': 'selected'}, 'N'), call(g1, 2))),
                Assign(V('c'), I(0)),
                While(Bin('<', Bin('+', V('c'), call(g2, 1)), I(rnd.randint(3, 12))), [Assign(V('c'), Bin('+', V('c'), I(1)))]),
                Ret(Bin('+', Bin('*', Un('cardinality', V('as')), I(100)), V('c')))])
    return out


def scripts(rnd, env):
    """bodies of an entry function `main` exercising the callables from OAL"""
    e0 = env['enums']['Color']
    out = []
    n = rnd.randint(0, 4)
    out.append([Assign(V('x'), I(5)), Assign(V('y'), I(6)), Assign(V('z'), fcall('fact', n=I(n))),
                Ret(Bin('+', Bin('+', V('x'), V('y')), V('z')))])
    out.append([Assign(V('r'), fcall('even', n=I(rnd.randint(0, 5)))), If(V('r'), [Ret(I(1))]), Ret(I(0))])
    out.append([Ret(fcall('mix', f=B(True), s=Str(rnd.choice(['go', 'stop'])), b=I(rnd.randint(0, 9)), a=I(rnd.randint(0, 5))))])
    out.append([Assign(V('x'), I(1)), Assign(V('i'), I(2)), Assign(V('c'), I(3)),
                Assign(V('t'), fcall('search', limit=I(rnd.randint(0, 8)))),
                Ret(Bin('+', Bin('*', V('t'), I(1000)), Bin('+', Bin('*', V('x'), I(100)), Bin('+', Bin('*', V('i'), I(10)), V('c')))))])
    out.append([Call(fcall('maybe', n=I(rnd.randint(0, 5)))), Call(fcall('maybe', n=I(rnd.randint(0, 5)))),
                SelectFrom('many', 'bs', 'B'), Ret(Un('cardinality', V('bs')))])
    out.append([Assign(V('k'), icall('A', 'cop', 'class', x=I(rnd.randint(0, 5)))), SelectFrom('any', 'a', 'A'),
                Assign(V('v'), ocall(V('a'), 'iop', k=I(3))), Assign(V('w'), ocall(V('a'), 'twice')),
                Ret(Bin('+', Bin('*', V('k'), I(1000)), Bin('+', Bin('*', V('v'), I(10)), V('w'))))])
    out.append([Create('a', 'A'), Assign(Field(V('a'), 'N'), I(rnd.randint(0, 5))), Assign(V('d1'), Field(V('a'), 'Calc')),
                Assign(Field(V('a'), 'N'), I(rnd.randint(6, 9))), Assign(V('d2'), Field(V('a'), 'Calc')),
                Ret(Bin('+', Bin('*', V('d1'), I(100)), V('d2')))])
    out.append([Ret(Bin('+', icall('EE1', 'br', 'bridge', s=Str('double'), n=I(rnd.randint(0, 9))),
                        icall('EE1', 'br', 'bridge', n=I(rnd.randint(0, 9)), s=Str('x'))))])
    out.append([Ret(Bin('+', Bin('*', {'t': 'enum', 'ns': 'Color', 'n': e0[-1]}, I(10)), {'t': 'enum', 'ns': 'Color', 'n': e0[0]}))])
    out.append([If(Bin('and', V('ENABLED'), Bin('==', V('GREETING'), Str('go'))), [Ret(Bin('+', V('LIMIT'), I(1)))]), Ret(I(0))])
    # names that differ only in letter case address different model elements
    out.append([Ret(Bin('+', Bin('*', fcall('limit', n=I(rnd.randint(0, 5))), I(1000)),
                        Bin('+', Bin('*', V('LIMIT'), I(100)), Bin('+', fcall('zero'), V('ZERO')))))])
    out.append([Ret(Bin('+', Bin('*', fcall('color', n=I(rnd.randint(3, 9))), I(10)), {'t': 'enum', 'ns': 'Color', 'n': e0[0]}))])
    # calls inside a where clause, a loop condition and a for each body
    out.append([Create('a1', 'A'), Assign(Field(V('a1'), 'N'), I(1)), Create('a2', 'A'), Assign(Field(V('a2'), 'N'), I(rnd.randint(2, 9))),
                SelectFrom('many', 'as', 'A', Bin('>=', Field({'t': 'selected'}, 'N'), fcall('clobber', v=I(0)))),
                Assign(V('t'), I(0)),
                ForEach('e', 'as', [Assign(V('t'), Bin('+', V('t'), ocall(V('e'), 'iop', k=I(1))))]),
                Assign(V('c'), I(0)),
                While(Bin('<', fcall('clobber', v=V('c')), I(8)), [Assign(V('c'), Bin('+', V('c'), I(1)))]),
                Ret(Bin('+', Bin('*', V('t'), I(100)), V('c')))])
    out.append([Assign(V('n'), I(7)), Assign(V('limit'), I(8)),
                Assign(V('r'), fcall('shadow', limit=I(rnd.randint(0, 4)), n=I(rnd.randint(0, 6)))),
                Ret(Bin('+', Bin('*', V('r'), I(7)), Bin('+', Bin('*', V('n'), I(10)), V('limit'))))])
    out.append([Ret(Bin('+', fcall('lim', LIMIT=I(rnd.randint(1, 5)), s=Str(rnd.choice(['go', 'stop']))),
                        icall('EE1', 'bs', 'bridge', n=I(rnd.randint(0, 9)))))])
    out.append([Create('a', 'A'), Assign(Field(V('a'), 'N'), I(rnd.randint(1, 5))), Create('b', 'A'), Assign(Field(V('b'), 'N'), I(rnd.randint(1, 9))),
                Assign(V('v'), ocall(V('a'), 'sop', k=I(rnd.randint(0, 9)))),
                Assign(V('w'), icall('A', 'csh', 'class', x=I(rnd.randint(0, 6)))),
                Ret(Bin('+', Bin('*', V('v'), I(1000)), Bin('+', Bin('*', V('w'), I(10)), Field(V('a'), 'N'))))])
    # constants of every type in conditions, loop conditions, arguments and comparisons
    out.append([Assign(V('r'), I(0)),
                If(V('DISABLED'), [Assign(V('r'), Bin('+', V('r'), I(1)))]),
                If(Un('not', V('FLAG')), [Assign(V('r'), Bin('+', V('r'), I(10)))]),
                If(Bin('==', V('NOTHING'), Str('')), [Assign(V('r'), Bin('+', V('r'), I(100)))]),
                Assign(V('c'), V('ZERO')),
                While(Bin('and', Un('not', V('DISABLED')), Bin('<', V('c'), I(2))), [Assign(V('c'), Bin('+', V('c'), I(1)))]),
                Ret(Bin('+', Bin('*', V('r'), I(10)), Bin('+', V('c'), fcall('mix', a=V('ZERO'), b=V('LIMIT'), s=V('NOTHING'), f=V('DISABLED')))))])
    ph = rnd.choice(["'precedes'", "'succeeds'"])     # one direction for the whole chain
    rel = lambda a, b: {'t': 'relate', 'a': a, 'b': b, 'rel': 'R2', 'ph': ph, 'using': ''}
    out.append([Create('c1', 'A'), Assign(Field(V('c1'), 'N'), I(rnd.randint(0, 5))), Create('c2', 'A'), Assign(Field(V('c2'), 'N'), I(rnd.randint(0, 5))),
                Create('c3', 'A'), Assign(Field(V('c3'), 'N'), I(rnd.randint(0, 5))), rel('c1', 'c2'), rel('c2', 'c3'),
                Assign(V('d1'), Field(V('c1'), 'Calc')), Assign(V('d3'), Field(V('c3'), 'Calc')),
                SelectFrom('many', 'big', 'A', Bin('>', Field({'t': 'selected'}, 'Calc'), V('d3'))),
                Ret(Bin('+', Bin('+', Bin('*', V('d1'), I(100)), V('d3')), Bin('*', Un('cardinality', V('big')), I(10000))))])
    out.append([Assign(V('p'), Bin('and', V('DISABLED'), fcall('touch', n=I(rnd.randint(0, 5))))),
                Assign(V('q'), Bin('or', V('ENABLED'), fcall('touch', n=I(rnd.randint(0, 5))))),
                If(Bin('or', Bin('and', V('p'), fcall('touch', n=I(7))), Un('not', V('q'))), [Call(fcall('maybe', n=I(0)))]),
                SelectFrom('many', 'bs', 'B'), Ret(Un('cardinality', V('bs')))])
    # operands are evaluated from left to right: an attribute (plain or derived) read as the left operand has the value it
    # had before an operation in the right operand changed it, and the other way round
    n0 = rnd.randint(1, 6)
    out.append([Create('a', 'A'), Assign(Field(V('a'), 'N'), I(n0)),
                Assign(V('r1'), Bin('+', Field(V('a'), 'N'), ocall(V('a'), 'iop', k=I(rnd.randint(1, 3))))),
                Assign(V('r2'), Bin('+', Field(V('a'), 'Calc'), ocall(V('a'), 'iop', k=I(1)))),
                Assign(V('r3'), Bin('-', ocall(V('a'), 'iop', k=I(2)), Field(V('a'), 'N'))),
                Assign(V('r4'), I(0)),
                If(Bin('<', Field(V('a'), 'N'), ocall(V('a'), 'sop', k=I(rnd.randint(0, 9)))), [Assign(V('r4'), I(1))]),
                Ret(Bin('+', Bin('+', Bin('*', V('r1'), I(10000)), Bin('*', V('r2'), I(100))), Bin('+', Bin('*', V('r3'), I(10)), V('r4'))))])
    # an operation with an effect inside a where clause: candidates are tried in order, a selection of one instance stops
    # at the first that satisfies the clause, a selection of many tries them all; what the operation did stays done
    ns = sorted(rnd.sample(range(1, 9), 3))
    thr = rnd.choice([ns[0], ns[1], ns[1] + 1, 9])
    probe = lambda: Bin('>', ocall({'t': 'selected'}, 'iop', k=I(1)), I(thr))
    # (the scripts of one environment share one model: the selection ranges over the instances earlier scripts left, too)
    tot = [Assign(V('t'), Bin('+', Bin('+', Bin('*', Field(V('a1'), 'N'), I(100)), Bin('*', Field(V('a2'), 'N'), I(10))), Field(V('a3'), 'N')))]
    out.append([Create('a1', 'A'), Assign(Field(V('a1'), 'N'), I(ns[0])), Create('a2', 'A'), Assign(Field(V('a2'), 'N'), I(ns[1])),
                Create('a3', 'A'), Assign(Field(V('a3'), 'N'), I(ns[2])),
                SelectFrom('any', 'hit', 'A', probe())] + tot + [Ret(V('t'))])
    out.append([Create('a1', 'A'), Assign(Field(V('a1'), 'N'), I(ns[0])), Create('a2', 'A'), Assign(Field(V('a2'), 'N'), I(ns[1])),
                Create('a3', 'A'), Assign(Field(V('a3'), 'N'), I(ns[2])),
                SelectFrom('many', 'hits', 'A', probe())] + tot + [Ret(Bin('+', Bin('*', V('t'), I(100)), Un('cardinality', V('hits'))))])
    out += random_scripts(rnd, env)
    return out


def python_calls(rnd, env):
    """invocations from Python: [(kind, namespace, name, literal arguments)]"""
    lit = lambda ty: I(rnd.randint(0, 6)) if ty == 'integer' else (Str(rnd.choice(['go', 'double', 'x'])) if ty == 'string' else B(rnd.random() < 0.5))
    calls = []
    for name in ['fact', 'even', 'odd', 'mix', 'clobber', 'maybe', 'search', 'shadow', 'lim', 'touch'] + \
            sorted(n for n in env['funcs'] if n.startswith('g') and n[1:].isdigit()):
        f = env['funcs'][name]
        ps = [(p, I(rnd.randint(0, 3)) if p == 'd' else lit(f['ptypes'][p])) for p in f['params']]
        rnd.shuffle(ps)
        calls.append({'k': 'func', 'ns': '', 'n': name, 'ps': [{'n': p, 'e': e} for p, e in ps]})
    calls.append({'k': 'classop', 'ns': 'A', 'n': 'cop', 'ps': [{'n': 'x', 'e': lit('integer')}]})
    calls.append({'k': 'classop', 'ns': 'A', 'n': 'csh', 'ps': [{'n': 'x', 'e': lit('integer')}]})
    calls.append({'k': 'bridge', 'ns': 'EE1', 'n': 'bs', 'ps': [{'n': 'n', 'e': lit('integer')}]})
    calls.append({'k': 'bridge', 'ns': 'EE1', 'n': 'br', 'ps': [{'n': 'n', 'e': lit('integer')}, {'n': 's', 'e': lit('string')}]})
    for it in env['enums']['Color']:
        calls.append({'k': 'enum', 'ns': 'Color', 'n': it, 'ps': []})
    for c in env['consts']:
        calls.append({'k': 'const', 'ns': '', 'n': c, 'ps': []})
    rnd.shuffle(calls)
    # (in this order: a value, nothing, a value, nothing)
    for n in (9, 0, 7, 0):
        calls.append({'k': 'func', 'ns': '', 'n': 'gate', 'ps': [{'n': 'n', 'e': I(n)}]})
    return calls
