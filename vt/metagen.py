"""Observation batteries (queries, navigation chains, consistency checks, sorting)
evaluated after each step of a history.  The harness only *chooses* what to ask;
the answers are computed by the implementation and judged by TLC (MetaObs.tla)."""
from . import schemas


def steps_of(schema, c):
    """navigation steps available from class c: direct links and two-hop steps
    through an association class: [(kind reached, rel, phrase)]"""
    direct = {}
    for a in schema['assocs']:
        direct.setdefault(a['tgt'], []).append((a['src'], a['rel'], a['tphrase']))
        direct.setdefault(a['src'], []).append((a['tgt'], a['rel'], a['sphrase']))
    out = list(direct.get(c, []))
    for (k1, rel, ph) in direct.get(c, []):
        for (k2, rel2, ph2) in direct.get(k1, []):
            if rel2 == rel and ph2 == ph and (k2, rel, ph) not in out:
                out.append((k2, rel, ph))
    return out


def value_for(schema, c, n, rnd, nids):
    ty = [a['t'] for a in schema['attrs'][c] if a['n'] == n][0]
    if ty == 'UNIQUE_ID':
        return 'u:%d' % rnd.randint(0, max(1, nids))
    return rnd.choice(schemas.POOLS[ty])


def plain_attrs(schema, c):
    refs = set(k for a in schema['assocs'] if a['src'] == c for k in a['skeys'])
    return [a['n'] for a in schema['attrs'][c] if a['n'] not in refs]


def gen_ops(schema, c, rnd, nids, maxops=3, dup=False):
    ops = []
    names = [a['n'] for a in schema['attrs'][c]]
    plain = plain_attrs(schema, c)
    for _ in range(rnd.randint(0, maxops)):
        k = rnd.random()
        if k < 0.4:
            ns = rnd.sample(names, rnd.randint(1, min(2, len(names))))
            kv = [[n, value_for(schema, c, n, rnd, nids)] for n in ns]
            for pair in kv:
                # the identifier values that the id-clash histories give to several instances
                if pair[1].startswith('u:') and rnd.random() < 0.25:
                    pair[1] = 'u:%d' % rnd.choice([201, 202, 203])
            if dup and rnd.random() < 0.3:
                # one attribute named twice (the adapter uses two spellings): both conditions address the one stored value
                n = rnd.choice(ns)
                kv.append([n, value_for(schema, c, n, rnd, nids) if rnd.random() < 0.7 else [v for m, v in kv if m == n][0]])
            ops.append({'k': 'eq', 'kv': kv})
        elif k < 0.65 and plain:
            n = rnd.choice(plain)
            ops.append({'k': 'lam', 'n': n, 'cmp': rnd.choice(['eq', 'ne', 'lt', 'le', 'gt', 'ge']),
                        'v': value_for(schema, c, n, rnd, nids)})
        elif plain:
            ns = rnd.sample(plain, rnd.randint(1, min(2, len(plain))))
            ops.append({'k': 'ord', 'ns': ns, 'rev': rnd.random() < 0.5})
    return ops


def gen_chain(schema, c, rnd, maxlen=4):
    chain = []
    cur = c
    for _ in range(rnd.randint(1, maxlen)):
        st = steps_of(schema, cur)
        if not st:
            break
        if rnd.random() < 0.04:
            chain.append([rnd.choice(schema['classes']), 'R99', ''])      # an unknown link
            break
        kd, rel, ph = rnd.choice(st)
        chain.append([kd, rel, ph])
        cur = kd
    return chain, cur


def born_per_step(schema, acts):
    """number of handles per class after each step, from the calls issued (persisting
    and reloading renumbers the live instances 1..n)"""
    born = {c: 0 for c in schema['classes']}
    live = {c: set() for c in schema['classes']}
    out = []
    for a in acts:
        if a[0] in ('New', 'NewUnknown'):
            born[a[1]] += 1
            live[a[1]].add(born[a[1]])
        elif a[0] == 'NewRow':
            c = a[1]['c']
            born[c] += 1
            live[c].add(born[c])
        elif a[0] == 'Delete':
            live[a[1]].discard(a[2])
        elif a[0] == 'SaveLoad':
            for c in born:
                born[c] = len(live[c])
                live[c] = set(range(1, born[c] + 1))
        elif a[0] == 'LoadBuild':
            for c in born:
                born[c] = sum(1 for r in a[1] if r['c'] == c)
                live[c] = set(range(1, born[c] + 1))
        out.append(dict(born))
    return out


def gen_from(schema, born, rnd, nids):
    cs = [c for c in schema['classes'] if born[c] > 0]
    k = rnd.random()
    if not cs or k < 0.05:
        return {'k': 'none', 'c': rnd.choice(schema['classes'])}
    c = rnd.choice(cs)
    if k < 0.5:
        return {'k': 'inst', 'c': c, 'i': rnd.randint(1, born[c])}
    if k < 0.8:
        return {'k': 'all', 'c': c}
    return {'k': 'sel', 'c': c, 'ops': gen_ops(schema, c, rnd, nids, 2)}


def battery(kinds, per_step=3, dup_eq=False, sticky=0, sticky_ids=0):
    """returns obs(schema, acts, rnd) -> list (per step) of lists of observation records; `sticky` selections are drawn
    once per history and asked again after every step (an equality filter on a referential or other attribute, now and then
    followed by an ordering): the answer to a repeated question follows the model"""
    def obs(schema, acts, rnd):
        out = []
        rels = sorted({a['rel'] for a in schema['assocs']})
        fixed = []
        for _ in range(sticky):
            cs = [c for c in schema['classes'] if any(a['src'] == c for a in schema['assocs'])] * 2 + list(schema['classes'])
            c = rnd.choice(cs)
            refs = [k for a in schema['assocs'] if a['src'] == c for k in a['skeys']]
            n = rnd.choice(refs * 3 + [a['n'] for a in schema['attrs'][c]])
            ty = [a['t'] for a in schema['attrs'][c] if a['n'] == n][0]
            v = 'u:%d' % rnd.choice([1, 2, 3, 201, 202, 203]) if ty == 'UNIQUE_ID' else value_for(schema, c, n, rnd, 4)
            ops = [{'k': 'eq', 'kv': [[n, v]]}]
            plain = plain_attrs(schema, c)
            if plain and rnd.random() < 0.3:
                ops.append({'k': 'ord', 'ns': [rnd.choice(plain)], 'rev': rnd.random() < 0.5})
            fixed.append({'k': 'sel', 'form': rnd.choice(['many', 'many', 'one']), 'c': c, 'ops': ops})
        for _ in range(sticky_ids):
            # a selection of one instance by the value of an identifying attribute, asked again after every step: writes
            # to that attribute (under any spelling), deletions and creations in between decide the answer
            cs = [c for c in schema['classes'] if schema['uniques'].get(c)]
            if not cs:
                break
            c = rnd.choice(cs)
            n = rnd.choice(rnd.choice(schema['uniques'][c])['attrs'])
            ty = [a['t'] for a in schema['attrs'][c] if a['n'] == n][0]
            v = 'u:%d' % rnd.choice([1, 1, 2, 3]) if ty == 'UNIQUE_ID' else value_for(schema, c, n, rnd, 4)
            fixed.append({'k': 'sel', 'form': rnd.choice(['one', 'one', 'many']), 'c': c, 'ops': [{'k': 'eq', 'kv': [[n, v]]}]})
        for born in born_per_step(schema, acts):
            nids = sum(born.values()) * 2 + 2
            qs = [dict(q) for q in fixed]
            for _ in range(per_step):
                kind = rnd.choice(kinds)
                c = rnd.choice(schema['classes'])
                if kind == 'sel':
                    qs.append({'k': 'sel', 'form': rnd.choice(['many', 'many', 'one']), 'c': c,
                               'ops': gen_ops(schema, c, rnd, nids, dup=dup_eq)})
                elif kind == 'nav':
                    f = gen_from(schema, born, rnd, nids)
                    chain, last = gen_chain(schema, f['c'], rnd)
                    if not chain:
                        continue
                    ok = all(st[1] != 'R99' for st in chain)
                    qs.append({'k': 'nav', 'form': rnd.choice(['many', 'many', 'one', 'any']), 'from': f,
                               'chain': chain, 'ops': gen_ops(schema, last, rnd, nids, 2, dup=dup_eq) if ok else []})
                elif kind == 'card':
                    qs.append({'k': 'card', 'from': gen_from(schema, born, rnd, nids)})
                elif kind == 'sub':
                    sups = [x for x in schema.get('supertypes', []) if born[x[0]] > 0]
                    if sups:
                        s, rel = rnd.choice(sups)
                        qs.append({'k': 'sub', 'c': s, 'i': rnd.randint(1, born[s]), 'rel': rel})
                elif kind == 'chk_assoc':
                    qs.append({'k': 'chk_assoc', 'rel': rnd.choice([''] + rels + ['R99'])})
                elif kind == 'chk_id':
                    qs.append({'k': 'chk_id', 'c': rnd.choice([''] + schema['classes'])})
                elif kind == 'consistent':
                    qs.append({'k': 'consistent'})
                elif kind == 'cli':
                    nr = rnd.choice([0, 0, 1, 1, 2])
                    nk = rnd.choice([0, 0, 1, 2])
                    qs.append({'k': 'cli', 'rels': [rnd.choice(rels + ['R99']) for _ in range(nr)] if rels else [],
                               'kinds': [rnd.choice(schema['classes']) for _ in range(nk)], 'proc': rnd.random() < 0.05})
                elif kind == 'chk_sub':
                    sups = schema.get('supertypes', [])
                    if sups:
                        s, rel = rnd.choice(sups)
                        qs.append({'k': 'chk_sub', 'c': s, 'rel': rel})
                elif kind == 'sort':
                    refl = [a for a in schema['assocs'] if a['src'] == a['tgt']]
                    if refl:
                        a = rnd.choice(refl)
                        c = a['src']
                        ph = rnd.choice([a['sphrase'], a['tphrase']])
                        if rnd.random() < 0.03:
                            ph = 'bogus'
                        if born[c] and rnd.random() < 0.3:
                            sub = rnd.sample(range(1, born[c] + 1), rnd.randint(1, born[c]))
                            qs.append({'k': 'sort', 'c': c, 'rel': a['rel'], 'ph': ph, 'all': False, 'sub': sub})
                        else:
                            qs.append({'k': 'sort', 'c': c, 'rel': a['rel'], 'ph': ph, 'all': True, 'sub': []})
            out.append(qs)
        return out
    return obs
