"""Turn TLC's state graph (-dump dot,actionlabels) into transition tours.

A tour is a path from the initial state; together the tours traverse every
edge (state, action with parameters, successor) of the bounded model, or a
seeded sample of them when a step budget is given.  Only the action labels are
used for replay: the implementation is driven by the calls, and the recorded
trace is afterwards validated by TLC, so nothing here predicts a result.
"""
import collections
import random
import re

from . import tlaval

_EDGE = re.compile(r'^(-?\d+) -> (-?\d+) \[label="((?:[^"\\]|\\.)*)"')
_NODE = re.compile(r'^(-?\d+) \[label="((?:[^"\\]|\\.)*)"(.*)$')


def _unesc(s):
    return s.replace('\\"', '"').replace('\\\\', '\\').replace('\\n', '\n')


class Graph(object):
    def __init__(self):
        self.init = []
        self.out = collections.defaultdict(list)   # node -> [(label, dst)]
        self.nodes = set()
        self.nedges = 0
        self.label = {}                         # node -> state text
        self.actions = collections.Counter()   # action name -> number of edges


def parse_dot(path, by_call=True):
    """by_call: edges that differ only in the successor chosen by a nondeterministic
    action are one call for the implementation; keep the first."""
    g = Graph()
    seen = set()
    with open(path, errors='replace') as f:
        for line in f:
            m = _EDGE.match(line)
            if m:
                u, v, lab = m.group(1), m.group(2), m.group(3)
                key = (u, lab) if by_call else (u, lab, v)
                if key in seen:
                    continue
                seen.add(key)
                g.out[u].append((lab, v))
                g.nodes.add(u)
                g.nodes.add(v)
                g.nedges += 1
                g.actions[lab.split('(', 1)[0]] += 1
                continue
            m = _NODE.match(line)
            if m:
                g.nodes.add(m.group(1))
                g.label[m.group(1)] = m.group(2)
                if 'style = filled' in m.group(3):
                    g.init.append(m.group(1))
    return g


_LABEL = re.compile(r'^(\w+)(?:\((.*)\))?$', re.S)


def parse_label(lab):
    """'Add(1)' -> ('Add', [1]);  'PopLast' -> ('PopLast', [])"""
    lab = _unesc(lab)
    m = _LABEL.match(lab)
    if not m:
        raise ValueError('cannot parse action label %r' % lab)
    name, args = m.group(1), m.group(2)
    return name, (tlaval.split_args(args) if args else [])


def tours(g, maxlen=40, budget=None, seed=0, want=None):
    """Greedy edge cover.  Returns (list of tours, covered edges, total edges).
    A tour is a list of raw labels.  `want(label, destination state text)` may
    restrict which edges must be covered (others still serve as connecting steps)."""
    return staged_tours(g, [(want or (lambda lab, dst: True), 1.0)], maxlen, budget, seed)


def staged_tours(g, stages, maxlen=40, budget=None, seed=0):
    """Cover edges in priority stages: stages = [(predicate(label, dst text), share of budget)].
    An edge belongs to the first stage whose predicate accepts it."""
    out = []
    cov = tot = 0
    done = set()
    cache = _prepare(g)
    for k, (pred, share) in enumerate(stages):
        rnd = random.Random(seed * 31 + k)
        unc = {}
        total = 0
        for u, es in g.out.items():
            idx = []
            for i, (lab, v) in enumerate(es):
                if (u, i) in done:
                    continue
                if ((u, i) in pred) if isinstance(pred, (set, frozenset)) else pred(lab, g.label.get(v, '')):
                    idx.append(i)
                    done.add((u, i))
            rnd.shuffle(idx)
            if idx:
                unc[u] = idx
                total += len(idx)
        b = None if budget is None else int(budget * share)
        ts, c = _cover(g, cache, unc, maxlen, b, rnd)
        out += ts
        cov += c
        tot += total
    return out, cov, tot


def _prepare(g):
    succ = {u: sorted(set(v for _, v in es)) for u, es in g.out.items()}
    first_edge = {}
    for u, es in g.out.items():
        d = {}
        for lab, v in es:
            d.setdefault(v, lab)
        first_edge[u] = d
    return succ, first_edge


def _cover(g, cache, unc, maxlen, budget, rnd):
    succ, first_edge = cache
    result = []
    covered = 0
    steps = 0
    inits = list(g.init) or sorted(g.nodes)[:1]
    while unc and (budget is None or steps < budget):
        cur = rnd.choice(inits)
        tour = []
        progressed = False
        while len(tour) < maxlen:
            if cur in unc:
                i = unc[cur].pop()
                if not unc[cur]:
                    del unc[cur]
                lab, v = g.out[cur][i]
                tour.append(lab)
                cur = v
                covered += 1
                progressed = True
                continue
            # breadth-first search for the nearest state with an uncovered edge
            prev = {cur: None}
            q = collections.deque([cur])
            goal = None
            while q:
                x = q.popleft()
                if x in unc:
                    goal = x
                    break
                for y in succ.get(x, ()):
                    if y not in prev:
                        prev[y] = x
                        q.append(y)
            if goal is None:
                break
            path = []
            x = goal
            while prev[x] is not None:
                path.append((prev[x], x))
                x = prev[x]
            path.reverse()
            if len(tour) + len(path) >= maxlen and progressed:
                break
            for a, b in path:
                tour.append(first_edge[a][b])
            cur = goal
        if not tour or not progressed:
            break
        result.append(tour)
        steps += len(tour)
    return result, covered


def bfs_tree_edges(g):
    """one incoming edge per reachable state (a spanning tree from the initial states):
    covering these edges visits every state of the model"""
    seen = set(g.init)
    q = collections.deque(g.init)
    edges = set()
    while q:
        u = q.popleft()
        for i, (lab, v) in enumerate(g.out.get(u, ())):
            if v not in seen:
                seen.add(v)
                edges.add((u, i))
                q.append(v)
    return edges
