"""Random behaviours of a specification via `tlc -simulate`, as action labels."""
import glob
import os
import re
import shutil

from . import common, tlc

_HDR = re.compile(r'^\\\* <(\w+(?:\(.*\))?) line \d+, col \d+ to line \d+, col \d+ of module \w+>\s*$')


def simulate(cwd, module, cfg, num, depth, seed, workers=None, timeout=600):
    workers = workers or min(common.NCPU, 8)
    out = os.path.join(cwd, 'sim-%s-%d' % (module, seed))
    shutil.rmtree(out, ignore_errors=True)
    os.makedirs(out)
    per = max(1, num // workers)
    r = tlc.run(cwd, module, cfg, workers=workers, timeout=timeout,
                args=('-simulate', 'file=%s/tr,num=%d' % (out, per), '-depth', str(depth),
                      '-seed', str(seed)))
    if r.errors():
        raise common.MachineryError('tlc -simulate failed on %s:\n%s' % (module, r.out[-3000:]))
    behaviours = []
    for p in sorted(glob.glob(os.path.join(out, 'tr_*'))):
        labels = []
        with open(p, errors='replace') as f:
            for line in f:
                m = _HDR.match(line)
                if m and not m.group(1).startswith('Init'):
                    labels.append(m.group(1))
        if labels:
            behaviours.append(labels)
    shutil.rmtree(out, ignore_errors=True)
    return behaviours
