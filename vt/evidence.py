"""Evidence files, violation reports and the known-findings matcher."""
import json
import os

from . import common

KNOWN = os.path.join(common.VERIF, 'known_findings.json')


def load_known(pid):
    if not os.path.exists(KNOWN):
        return []
    return [k for k in common.read_json(KNOWN).get('findings', [])
            if k.get('property') == pid and k.get('status') == 'open']


def matches(sig, finding):
    """A finding matches when every key of its 'signature' equals the failure's."""
    want = finding.get('signature', {})
    return all(sig.get(k) == v for k, v in want.items())


_FILES = {}   # pid -> number of replay files written by this process (several pipelines may report under one property)


class Report(object):
    """Collects failures of one check run and produces the verdict lines."""

    def __init__(self, pid):
        self.pid = pid
        self.known = load_known(pid)
        self.failures = []      # (signature, replay path)
        self.known_hits = {}
        self.n = 0
        self.sigs = set()
        if pid not in _FILES:
            import glob
            if not os.environ.get('VERIF_REPLAY'):
                for f in glob.glob(os.path.join(common.FAILDIR, '%s-*.json' % pid)):
                    os.remove(f)
            _FILES[pid] = 0

    def failure(self, sig, replay_obj):
        for k in self.known:
            if matches(sig, k):
                self.known_hits.setdefault(k['what'], 0)
                self.known_hits[k['what']] += 1
                return
        self.n += 1
        path = None
        key = json.dumps(sig, sort_keys=True)
        if key in self.sigs:
            return
        self.sigs.add(key)
        if len(self.failures) < 12:
            os.makedirs(common.FAILDIR, exist_ok=True)
            _FILES[self.pid] += 1
            path = os.path.join(common.FAILDIR, '%s%s-%d.json' % ('replayed-' if os.environ.get('VERIF_REPLAY') else '', self.pid,
                                                                    _FILES[self.pid]))
            replay_obj = dict(replay_obj)
            replay_obj['property'] = self.pid
            replay_obj['signature'] = sig
            common.write_json(path, replay_obj, indent=1)
            self.failures.append((sig, path))

    def finish(self):
        """Print verdict lines; return exit status."""
        for what, n in sorted(self.known_hits.items()):
            print('KNOWN-FINDING: property=%s %s (%d occurrences)' % (self.pid, what, n))
        for sig, path in self.failures:
            print('VIOLATION property=%s replay=%s' % (self.pid, path))
            print('  ' + json.dumps(sig, sort_keys=True)[:600])
        if self.n > len(self.failures):
            print('  (%d failing traces in total; one replay file per distinct signature)' % self.n)
        return 1 if self.n else 0


def write(pid, tier, level, coverage, wall_s, violations, assumptions):
    ev = {
        'property_id': pid,
        'tier': tier,
        'seed': common.seed(),
        'level': level,
        'coverage': coverage,
        'assumptions': assumptions,
        'wall_s': wall_s,
        'violations': violations,
    }
    common.write_json(os.path.join(common.EVIDENCE, pid + '.json'), ev, indent=1)
    return ev
