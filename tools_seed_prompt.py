#!/usr/bin/env python3
"""usage: tools_seed_prompt.py <PID> <worktree>  -- prints the brief given to a sub-agent that writes a seeded change.
The brief holds the property text, the worktree path and the titles of the changes filed earlier for that
property (so that the same idea is not written twice); nothing else from /verif."""
import json, os, sys
pid, wt = sys.argv[1], sys.argv[2]
here = os.path.dirname(os.path.abspath(__file__))
prop = [json.loads(l) for l in open(os.path.join(here, 'properties.jsonl')) if json.loads(l)['id'] == pid][0]
earlier = sorted(d[len(pid) + 1:].replace('-', ' ') for d in os.listdir(os.path.join(here, 'seeded')) if d.startswith(pid + '-'))
print('''You are helping to evaluate a verification harness for the Python library pyxtuml (lwriemen/pyxtuml). Your job: write ONE realistic change to the library that BREAKS the semantic property given below, while the library still imports and its whole existing test suite still passes. You work only in your own scratch git worktree of the repository: %(wt)s  (never touch /repo, never look at or touch /verif).

THE PROPERTY (id %(pid)s):
%(prop)s

What kind of change is wanted
- A plausible change a maintainer might really make (a refactoring, an optimisation, a cache, a "clean-up", a feature, an off-by-one, a changed order of two steps, a shared mutable default, two sites that each look fine alone ...), NOT sabotage that ordinary use would expose at once.
- It must need something SPECIFIC to manifest: a multi-step sequence of operations, an unusual input, a particular order of calls, an unusual schema shape, a particular interaction of two features. Simple one-call happy paths must keep working.
- It must genuinely violate the property as stated (within the property's stated quantifier / domain), not merely change something the property is silent about. Stay inside the domain the property describes: do not rely on ill-formed schemas or inputs the property does not range over.
- Ideas already used in earlier rounds for this property - pick something DIFFERENT in mechanism and in the corner of behaviour it touches: %(earlier)s.
- Only files under xtuml/ and bridgepoint/ may change (not tests/, not setup files). Do not add hooks or environment switches. Keep the diff small (typically 3-40 lines).

Steps
1. cd %(wt)s ; read the anchored code. Run python as /venv/bin/python from inside the worktree directory so that the worktree copy is imported; verify with: cd %(wt)s && /venv/bin/python -c "import xtuml; print(xtuml.__file__)"  (must print a path under %(wt)s).
2. Make the change. CAUTION if you touch a grammar or lexer (bridgepoint/oal.py, xtuml/load.py): ply caches generated tables in __*_parsetab.py / __*_lextab.py and never re-validates the lexer table; a fresh worktree has none, and the interpreter's editable install then silently falls back to the stale tables of another checkout, so your lexer change would have NO effect. After every grammar / lexer edit regenerate the tables inside the worktree: cd %(wt)s && rm -f xtuml/__*tab.py bridgepoint/__*tab.py && /venv/bin/python -c "import sys; sys.meta_path[:] = [f for f in sys.meta_path if not str(getattr(f, '__module__', type(f).__module__)).startswith('__editable__')]; import xtuml, bridgepoint.oal as o; xtuml.ModelLoader().input(''); o.parse('x = 1;'); print([sys.modules[m].__file__ for m in sys.modules if m.endswith('tab')])"   (the printed paths must lie under %(wt)s).
3. Run the whole suite: cd %(wt)s && /venv/bin/python -m pytest -q -p no:cacheprovider --timeout=900   -> must report 244 passed.
4. Write %(wt)s/demo.py : a small self-contained program using only the public API that exits 0 and prints PASS when the property holds on what it tries, and exits 1 printing FAIL (with what went wrong) when it does not. It must exit 1 WITH your change and exit 0 WITHOUT it (check both: git stash / git diff > p; git apply -R p; ...; git apply p). The demo states the property's expectation directly (it must not just compare against the old implementation).
5. Write %(wt)s/meta.json : {"property": "%(pid)s", "name": "<short-kebab-case-name>", "summary": "<what was changed and why it looks plausible>", "needs": "<what exactly is needed for it to manifest, and what stays correct>"}.
6. Leave the change applied (uncommitted) in the worktree together with demo.py and meta.json. Do not commit. Reply with the name, a 3-line summary and the outputs of steps 3 and 4.
''' % {'wt': wt, 'pid': pid, 'prop': json.dumps({k: prop[k] for k in ('title', 'statement', 'quantifier', 'anchors')}, indent=1),
       'earlier': '; '.join(earlier) or '(none)'})
