#!/bin/sh
# re-evaluate every filed seeded change against the current checks (uses a scratch worktree of /repo, not /repo itself)
# usage: tools_seed_all.sh <scratch worktree>     output: one line per seeded change
wt=${1:-/tmp/wtx}
cd "$(dirname "$0")" || exit 2
git -C "$wt" checkout -q --detach main 2>/dev/null
for d in seeded/*/; do
  name=$(basename "$d"); pid=${name%%-*}
  git -C "$wt" checkout -q -- . 
  if git -C "$wt" apply "$PWD/$d/patch.diff" 2>/dev/null; then
    out=$(sh tools_seed_eval_wt.sh "$wt" "$pid" | head -1)
    echo "$name $out"
  else
    echo "$name patch no longer applies to the current tree"
  fi
done
git -C "$wt" checkout -q -- .
