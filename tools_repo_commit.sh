#!/bin/sh
# usage: tools_repo_commit.sh <message-file>   -- commits /repo only if the pinned suite passes with the guard off
set -e
cd /repo
out=$(env -u PYXTUML_VERIF /venv/bin/python -m pytest -q -p no:cacheprovider --timeout=900 2>&1) || { echo "$out" | tail -15; echo "TESTS FAILED - not committing"; exit 1; }
echo "$out" | tail -1
case "$(echo "$out" | tail -1)" in *"244 passed"*) ;; *) echo "unexpected summary - not committing"; exit 1;; esac
git commit -qa -F "$1"
git log --oneline | head -1
