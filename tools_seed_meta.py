#!/usr/bin/env python3
"""usage: tools_seed_meta.py <name> <detection text> [<strengthening text>]
Turns seeded/<name>/meta.agent.json + suite.txt (written by tools_seed_confirm.sh) into seeded/<name>/meta.json."""
import json
import os
import sys

name, detection = sys.argv[1], sys.argv[2]
strengthening = sys.argv[3] if len(sys.argv) > 3 else ''
d = os.path.join(os.path.dirname(os.path.abspath(__file__)), 'seeded', name)
a = json.load(open(os.path.join(d, 'meta.agent.json')))
suite = open(os.path.join(d, 'suite.txt')).read().strip()
pid = a.get('property') or name.split('-')[0]
m = {
    'property': pid,
    'summary': a.get('summary', ''),
    'needs': a.get('needs', ''),
    'source': 'written by an independent sub-agent that saw only the property text and its own worktree',
    'confirmed': {
        'suite': suite,
        'demo_with_change': 'exit 1 (FAIL)',
        'demo_without_change': 'exit 0 (PASS)',
        'commands': ['cd <worktree> && /venv/bin/python -m pytest -q -p no:cacheprovider --timeout=900',
                     'cd <worktree> && /venv/bin/python demo.py   # with the change, then with the patch reversed'],
    },
    'detection': detection,
    'how_to_rerun': 'git -C /repo apply /verif/seeded/%s/patch.diff && (cd /verif && ./check %s --tier quick); '
                    'git -C /repo checkout -- .' % (name, pid),
}
if strengthening:
    m['strengthening'] = strengthening
json.dump(m, open(os.path.join(d, 'meta.json'), 'w'), indent=1)
os.remove(os.path.join(d, 'meta.agent.json'))
os.remove(os.path.join(d, 'suite.txt'))
print('filed', name)
