#!/usr/bin/env python3
"""Regenerates MANIFEST.json from vt/registry.py (single source of truth)."""
import json, os, sys
sys.path.insert(0, os.path.dirname(os.path.abspath(__file__)))
from vt import registry
json.dump(registry.manifest(), open(os.path.join(os.path.dirname(os.path.abspath(__file__)), 'MANIFEST.json'), 'w'), indent=1)
