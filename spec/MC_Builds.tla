---- MODULE MC_Builds ----
EXTENDS Builds
====
