--------------------------- MODULE OrderedSetTrace ---------------------------
(* Validates traces recorded from xtuml.OrderedSet / xtuml.QuerySet against     *)
(* OrderedSet.tla.  Event: [op, args.., res, list, rev, len, mem, first, last]. *)
EXTENDS OrderedSet, TraceBase

TInit == Init /\ TBaseInit

\* the specification's action for an event; nondeterministic actions are bound to
\* the logged result and their admissibility is checked in Conform
Step(e) ==
    CASE e.op = "Add" -> Add(e.x)
      [] e.op = "Discard" -> Discard(e.x)
      [] e.op = "Remove" -> Remove(e.x)
      [] e.op = "PopLast" -> PopLast
      [] e.op = "PopFirst" -> PopFirst
      [] e.op = "Clear" -> Clear
      [] e.op = "Swap" -> Swap
      [] e.op = "IOr" -> IOr(e.q)
      [] e.op = "IAnd" -> IAnd(e.q)
      [] e.op = "ISub" -> ISub(e.q)
      [] e.op = "IXor" -> s' = e.list /\ res' = None /\ r' = r
      [] e.op = "ISelf" -> IF e.o = "xor" THEN s' = e.list /\ res' = None /\ r' = r ELSE ISelf(e.o)
      \* (the result of a pure operator is the other set from now on)
      [] e.op = "Pure" -> s' = s /\ res' = e.res /\ r' = (IF e.res.k = "seq" THEN e.res.q ELSE r)
      [] e.op = "IterRemove" -> IterRemove({x \in Elem : e.f[x]})
      [] e.op = "RevIterRemove" -> RevIterRemove({x \in Elem : e.f[x]})
      [] e.op = "Eq" -> Eq(e.q)
      [] e.op = "Ne" -> Ne(e.q)
      [] e.op = "New" -> New(e.q)

Admissible(e) ==
    CASE e.op = "IXor" -> OrderOK(e.list, XorSet(e.q), s)
      [] e.op = "ISelf" /\ e.o = "xor" -> OrderOK(e.list, XorSet(s), s)
      [] e.op = "Pure" -> /\ e.res.k = "seq"
                          /\ OrderOK(e.res.q, PureSet(e.o, e.q), <<>>)
      [] OTHER -> TRUE

Conform(e) == FirstBad(<<
    <<"observable", e.oerr = "">>,
    <<"admissible", Admissible(e)>>,
    <<"res", res' = e.res>>,
    <<"list", s' = e.list>>,
    \* the other set (the result of the latest pure operator, or the parked set) as it iterates now
    <<"other", r' = e.other>>,
    <<"reversed", Reverse(s') = e.rev>>,
    <<"len", Len(s') = e.len>>,
    <<"member", \A x \in Elem : (x \in Rng(s')) = e.mem[x]>>,
    <<"first", "first" \in DOMAIN e => e.first = (IF s' = <<>> THEN <<>> ELSE <<Head(s')>>)>>,
    <<"last", "last" \in DOMAIN e => e.last = (IF s' = <<>> THEN <<>> ELSE <<Last(s')>>)>>
  >>)

TNext == /\ TEnabled
         /\ Step(Ev)
         /\ Advance(Conform(Ev), <<s', r', res'>>)

TSpec == TInit /\ [][TNext]_<<vars, tvars>>
=============================================================================
