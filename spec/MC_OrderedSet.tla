---- MODULE MC_OrderedSet ----
EXTENDS OrderedSet
====
