-------------------------------- MODULE BpTrace --------------------------------
(* Validates what pyxtuml extracted from a synthesised BridgePoint model against  *)
(* BpModel!Component and BpModel!Xsd.                                             *)
EXTENDS BpModel, TraceBase

VARIABLE dummy
TInit == TBaseInit /\ dummy = 0

CompOf(e) == Component(e.d, e.root, e.derived)
RealClasses(e) == {<<x[1], x[2]>> : x \in Rng(e.comp.classes)}
RealUniques(e) == {<<x[1], {<<u[1], Rng(u[2])>> : u \in Rng(x[2])}>> : x \in Rng(e.comp.uniques)}
RealAssocs(e) == {[a EXCEPT !.pairs = {<<p[1], p[2]>> : p \in Rng(a.pairs)}] : a \in Rng(e.comp.assocs)}

XsdOf(e) == Xsd(e.d, e.root)
\* declarations of the generated schema that belong to the model's own types and classes
\* (the predefined BridgePoint globals other than the five core types are not constrained)
Names(d) == Core \cup {u.n : u \in Rng(d.enums)} \cup {u.n : u \in Rng(d.udts)}
RealElements(e) == {<<x[1], {<<a[1], a[2]>> : a \in Rng(x[2])}>> : x \in Rng(e.xsd.elements)}
RealCore(e) == {<<x[1], x[2]>> : x \in {y \in Rng(e.xsd.core) : y[1] \in Core}}
RealEnums(e) == {<<x[1], x[2]>> : x \in {y \in Rng(e.xsd.enums) : y[1] \in Names(e.d)}}
RealUdts(e) == {<<x[1], x[2]>> : x \in {y \in Rng(e.xsd.udts) : y[1] \in Names(e.d)}}

Conform(e) == FirstBad(<<
    <<"builds", e.err = "">>,
    <<"classes", RealClasses(e) = CompOf(e).classes>>,
    <<"identifiers", RealUniques(e) = CompOf(e).uniques>>,
    <<"associations", RealAssocs(e) = CompOf(e).assocs /\ Len(e.comp.assocs) = Cardinality(CompOf(e).assocs)>>,
    <<"sql_schema_roundtrip", e.sqlrt # "differs">>,
    <<"xsd_elements", ~e.hasxsd \/ (RealElements(e) = XsdOf(e).elements /\ Len(e.xsd.elements) = Cardinality(XsdOf(e).elements))>>,
    <<"xsd_occurs", ~e.hasxsd \/ \A x \in Rng(e.xsd.elements) : x[3] = "0" /\ x[4] = "unbounded">>,
    <<"xsd_core_types", ~e.hasxsd \/ RealCore(e) = XsdOf(e).core>>,
    <<"xsd_enums", ~e.hasxsd \/ RealEnums(e) = XsdOf(e).enums>>,
    <<"xsd_user_types", ~e.hasxsd \/ RealUdts(e) = XsdOf(e).udts>>,
    <<"xsd_component", ~e.hasxsd \/ (e.xsd.ncomp = 1 /\ e.xsd.compname = e.root)>>
  >>)

TNext == /\ TEnabled /\ UNCHANGED dummy
         /\ LET b == Conform(Ev) IN
            Advance(b, IF b \in {"classes", "identifiers", "associations"} THEN CompOf(Ev)
                       ELSE IF b = "" THEN <<>> ELSE XsdOf(Ev))
=============================================================================
