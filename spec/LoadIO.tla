------------------------------- MODULE LoadIO -------------------------------
(* The input side of xtuml.load.ModelLoader (C12): a loader accumulates the      *)
(* statements of accepted texts; a text is either accepted as a whole or         *)
(* rejected with the parsing exception and then leaves nothing behind; a build   *)
(* succeeds or fails with the parsing exception or a metamodel exception.  Which *)
(* texts are accepted is deliberately left open (the property does not say).     *)
(* The accumulated content is a sequence of statements; a statement is whatever   *)
(* the loader holds of it, written out in full (kind, names, value lists, ...):   *)
(* accepting a text appends its statements, nothing else ever changes a statement *)
(* that is already there.                                                         *)
EXTENDS Naturals, Sequences, TLC

CONSTANT MaxStmts          \* bound for model checking only

VARIABLES n,               \* number of accumulated statements
          content,         \* the accumulated statements
          res              \* outcome of the last call

vars == <<n, content, res>>

Init == n = 0 /\ content = <<>> /\ res = "none"

Accept(new) == content' = content \o new /\ n' = n + Len(new) /\ res' = "accepted"
RejectInput == UNCHANGED <<n, content>> /\ res' = "ParsingException"
BuildOutcomes == {"built", "ParsingException", "MetaException"}
Build(out) == out \in BuildOutcomes /\ UNCHANGED <<n, content>> /\ res' = out

Stmts == {"s", "t"}
MCAccept(new) == n + Len(new) <= MaxStmts /\ Accept(new)
Next == \/ \E k \in 0..2 : \E new \in [1..k -> Stmts] : MCAccept(new)
        \/ RejectInput
        \/ \E out \in BuildOutcomes : Build(out)

Spec == Init /\ [][Next]_vars

IsPrefixOf(p, q) == Len(p) <= Len(q) /\ \A i \in 1..Len(p) : p[i] = q[i]
CountOK == n = Len(content)
\* a rejected text leaves the accumulated content as it was
RejectedInputIsStutter == [][res' = "ParsingException" => content' = content]_vars
\* builds never change the accumulated content
BuildIsPure == [][res' \in {"built", "MetaException"} => content' = content]_vars
\* what was accepted stays as it was accepted
AppendOnly == [][IsPrefixOf(content, content')]_vars
=============================================================================
