------------------------------- MODULE LoadIO -------------------------------
(* The input side of xtuml.load.ModelLoader (C12): a loader accumulates the      *)
(* statements of accepted texts; a text is either accepted as a whole or         *)
(* rejected with the parsing exception and then leaves nothing behind; a build   *)
(* succeeds or fails with the parsing exception or a metamodel exception.  Which *)
(* texts are accepted is deliberately left open (the property does not say).     *)
EXTENDS Naturals, Sequences, TLC

CONSTANT MaxStmts          \* bound for model checking only

VARIABLES n,               \* number of accumulated statements
          res              \* outcome of the last call

vars == <<n, res>>

Init == n = 0 /\ res = "none"

Accept(k) == n' = n + k /\ res' = "accepted"
RejectInput == n' = n /\ res' = "ParsingException"
BuildOutcomes == {"built", "ParsingException", "MetaException"}
Build(out) == out \in BuildOutcomes /\ n' = n /\ res' = out

MCAccept(k) == n + k <= MaxStmts /\ Accept(k)
Next == \/ \E k \in 0..MaxStmts : MCAccept(k)
        \/ RejectInput
        \/ \E out \in BuildOutcomes : Build(out)

Spec == Init /\ [][Next]_vars

\* a rejected text leaves the accumulated content as it was
RejectedInputIsStutter == [][res' = "ParsingException" => n' = n]_vars
\* builds never change the accumulated content
BuildIsPure == [][res' \in {"built", "MetaException"} => n' = n]_vars
=============================================================================
