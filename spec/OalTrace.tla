------------------------------- MODULE OalTrace -------------------------------
(* Validates what the real OAL parser returned for texts rendered from the       *)
(* specification's token sequences (C07, C13, C08, C05).                          *)
(* Event: [src |-> syntax tree the text was written for, toks |-> its canonical   *)
(*         tokens, err |-> exception of the parser or "", real |-> the tree the    *)
(*         parser returned (in the specification's vocabulary),                    *)
(*         tokpos |-> per canonical token [p |-> present, sl, sc, el, ec, so, eo], *)
(*         nodes |-> per statement/expression node in pre-order [k, sl, sc, el,    *)
(*                   ec, so, eo, cs |-> character_stream = text[so..eo]]]          *)
EXTENDS OalSyntax, TraceBase

VARIABLE dummy
TInit == TBaseInit /\ dummy = 0

IsExprOnly(e) == Len(e.src) = 1 /\ e.src[1].t = "return" /\ e.src[1].has /\ "simple" \in DOMAIN e

FirstPresent(tp, a, b) == CHOOSE i \in a..b : tp[i].p /\ \A j \in a..(i - 1) : ~tp[j].p
LastPresent(tp, a, b) == CHOOSE i \in a..b : tp[i].p /\ \A j \in (i + 1)..b : ~tp[j].p

SpanOK(tp, r, nd) ==
    LET f == FirstPresent(tp, r.a, r.b)
        z == LastPresent(tp, r.a, r.b)
    IN /\ nd.k = r.k
       /\ nd.sl = tp[f].sl /\ nd.sc = tp[f].sc /\ nd.so = tp[f].so
       /\ nd.el = tp[z].el /\ nd.ec = tp[z].ec /\ nd.eo = tp[z].eo
       /\ nd.cs

SpansOK(e) == LET rs == Ranges(e.src)
              IN /\ Len(rs) = Len(e.nodes)
                 /\ \A i \in DOMAIN rs : SpanOK(e.tokpos, rs[i], e.nodes[i])
FirstBadSpan(e) == LET rs == Ranges(e.src)
                       wrong == {i \in DOMAIN rs : i > Len(e.nodes) \/ ~SpanOK(e.tokpos, rs[i], e.nodes[i])}
                   IN IF Len(rs) # Len(e.nodes) THEN <<"count", Len(rs), Len(e.nodes)>>
                      ELSE IF wrong = {} THEN <<>> ELSE LET i == CHOOSE x \in wrong : \A y \in wrong : x <= y IN <<rs[i], e.nodes[i]>>

\* arbitrary text: a tree or the parse exception, within the time budget
Total(e) == IF e.errkind \in {"", "ParseException"} THEN "" ELSE "total"

Conform(e) == IF "total" \in DOMAIN e THEN Total(e) ELSE FirstBad(<<
    \* (bodies of a real model come as text: their tree is what the parser made of that text, there are no tokens to compare)
    <<"tokens", "notoks" \in DOMAIN e \/ e.toks = Unparse(e.src)>>,
    <<"parses", e.err = "">>,
    <<"tree", e.err # "" \/ e.real = StripB(e.src)>>,
    \* (asked only of a tree that has the shape of the source: whatever else came back is named by the clause before)
    <<"refparse", e.err # "" \/ ~IsExprOnly(e) \/ e.real # StripB(e.src) \/ Strip(RefParse(UE(e.src[1].e))) = e.real[1].e>>,
    <<"spans", e.err # "" \/ e.nodes = <<>> \/ SpansOK(e)>>,
    <<"regenerates_same_text", "idem" \notin DOMAIN e \/ e.idem # "no">>,
    <<"consistent", "consistent" \notin DOMAIN e \/ e.consistent # "no">>
  >>)

TNext == /\ TEnabled /\ UNCHANGED dummy
         /\ LET b == Conform(Ev) IN
            Advance(b, IF b = "spans" THEN FirstBadSpan(Ev) ELSE IF b = "tree" THEN <<StripB(Ev.src)>> ELSE <<>>)
=============================================================================
