---- MODULE MC_OalTypeTrace ----
EXTENDS OalTypeTrace
\* (a referential attribute has the type of the attribute it refers to)
MC_AttrTypes == [A |-> [Id |-> "unique_id", N |-> "integer", S |-> "string", F |-> "boolean", Prev_Id |-> "unique_id", Calc |-> "integer", Items |-> "integer"],
                 B |-> [Id |-> "unique_id", N |-> "integer", A_Id |-> "unique_id"],
                 L |-> [A_Id |-> "unique_id", B_Id |-> "unique_id", W |-> "integer"],
                 P |-> [Id |-> "unique_id", N |-> "integer"],
                 M |-> [One_Id |-> "unique_id", Other_Id |-> "unique_id", W |-> "integer"]]
MC_ParamTypes == [x |-> "integer", flag |-> "boolean", s |-> "string", cnt |-> "Count", vec |-> "integer"]
MC_RetTypes == ("fact" :> "integer" @@ "tally" :> "Count" @@ "mix" :> "integer" @@ "A::cop" :> "integer" @@ "EE1::br" :> "integer" @@ "A.iop" :> "integer"
               @@ "Req::op1" :> "integer" @@ "Prov::op1" :> "integer" @@ "Req::op0" :> "void" @@ "Prov::op0" :> "void"
               @@ "Req::sig1" :> "signal" @@ "Prov::sig1" :> "signal" @@ "Req::sig0" :> "signal" @@ "Prov::sig0" :> "signal")
MC_ConstTypes == ("LIMIT" :> "integer" @@ "GREETING" :> "string" @@ "ENABLED" :> "boolean" @@ "FLOOR" :> "integer")
MC_NavTarget == <<>>
====
