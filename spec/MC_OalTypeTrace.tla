---- MODULE MC_OalTypeTrace ----
EXTENDS OalTypeTrace
MC_AttrTypes == [A |-> [Id |-> "unique_id", N |-> "integer", S |-> "string", F |-> "boolean", Prev_Id |-> "same_as<Base_Attribute>", Calc |-> "integer"],
                 B |-> [Id |-> "unique_id", N |-> "integer", A_Id |-> "same_as<Base_Attribute>"],
                 L |-> [A_Id |-> "same_as<Base_Attribute>", B_Id |-> "same_as<Base_Attribute>", W |-> "integer"],
                 P |-> [Id |-> "unique_id", N |-> "integer"],
                 M |-> [One_Id |-> "same_as<Base_Attribute>", Other_Id |-> "same_as<Base_Attribute>", W |-> "integer"]]
MC_ParamTypes == [x |-> "integer", flag |-> "boolean", s |-> "string"]
MC_RetTypes == ("fact" :> "integer" @@ "mix" :> "integer" @@ "A::cop" :> "integer" @@ "EE1::br" :> "integer" @@ "A.iop" :> "integer")
MC_ConstTypes == ("LIMIT" :> "integer" @@ "GREETING" :> "string" @@ "ENABLED" :> "boolean")
MC_NavTarget == <<>>
====
