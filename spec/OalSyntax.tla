------------------------------ MODULE OalSyntax ------------------------------
(* The syntax of the Object Action Language as pyxtuml parses it (C07, C13):    *)
(* syntax trees as tagged records, the precedence / associativity table, the    *)
(* canonical token sequence of a tree (Unparse: exactly the parentheses the      *)
(* table requires), a reference precedence-climbing parser for expressions       *)
(* (RefParse) and the token span of every statement and expression node.         *)
(*                                                                              *)
(* Tokens are strings; keywords are written in lower case; tokens beginning     *)
(* with "?" are optional words ("?assign", "?then", "?loop", "?instances",       *)
(* "?of") which a text may contain or omit.                                      *)
EXTENDS Naturals, Sequences, FiniteSets, TLC

-----------------------------------------------------------------------------
(* operators and precedence: or < and < comparisons (non-associative) <         *)
(* + - | < * / & ^ < % < unary                                                  *)
CmpOps == {"==", "!=", "<", "<=", ">", ">="}
AddOps == {"+", "-", "|"}
MulOps == {"*", "/", "&", "^"}
BinOps == {"or", "and", "%"} \cup CmpOps \cup AddOps \cup MulOps
UnOps == {"not", "empty", "not_empty", "cardinality", "+", "-"}

BinPrec(op) == CASE op = "or" -> 1 [] op = "and" -> 2 [] op \in CmpOps -> 3
                 [] op \in AddOps -> 4 [] op \in MulOps -> 5 [] op = "%" -> 6
Prec(e) == IF e.t = "bin" THEN BinPrec(e.op) ELSE IF e.t = "un" THEN 7 ELSE 8

Paren(q) == <<"(">> \o q \o <<")">>

RECURSIVE Concat(_)
Concat(qs) == IF qs = <<>> THEN <<>> ELSE Head(qs) \o Concat(Tail(qs))
\* q1 , q2 , q3
RECURSIVE Commas(_)
Commas(qs) == IF qs = <<>> THEN <<>> ELSE IF Len(qs) = 1 THEN qs[1] ELSE qs[1] \o <<",">> \o Commas(Tail(qs))

-----------------------------------------------------------------------------
(* expressions *)
RECURSIVE UE(_)
Params(ps) == Commas([i \in DOMAIN ps |-> <<ps[i].n, ":">> \o UE(ps[i].e)])
UE(e) ==
    CASE e.t = "bin" ->
            LET p == BinPrec(e.op)
                lp == IF p = 3 THEN Prec(e.l) <= 3 ELSE Prec(e.l) < p      \* left-associative; comparisons do not chain
                rp == Prec(e.r) <= p
            IN (IF lp THEN Paren(UE(e.l)) ELSE UE(e.l)) \o <<e.op>> \o (IF rp THEN Paren(UE(e.r)) ELSE UE(e.r))
      [] e.t = "un" -> <<e.op>> \o (IF Prec(e.e) < 7 THEN Paren(UE(e.e)) ELSE UE(e.e))
      [] e.t = "paren" -> Paren(UE(e.e))          \* redundant parentheses: the operand stays one operand
      [] e.t \in {"int", "real", "str", "bool"} -> <<e.v>>
      [] e.t = "var" -> <<e.n>>
      [] e.t = "self" -> <<"self">>
      [] e.t = "selected" -> <<"selected">>
      [] e.t = "param" -> <<"param", ".", e.n>>
      [] e.t = "enum" -> <<e.ns \o "::", e.n>>
      [] e.t = "field" -> UE(e.h) \o <<".", e.n>>
      [] e.t = "index" -> UE(e.h) \o <<"[">> \o UE(e.e) \o <<"]">>
      [] e.t = "fcall" -> <<"::", e.n, "(">> \o Params(e.ps) \o <<")">>
      [] e.t = "icall" -> <<e.ns \o "::", e.n, "(">> \o Params(e.ps) \o <<")">>
      [] e.t = "ocall" -> UE(e.h) \o <<".", e.n, "(">> \o Params(e.ps) \o <<")">>

\* the tree a text denotes when redundant parentheses are ignored
RECURSIVE Strip(_)
Strip(e) ==
    CASE e.t = "paren" -> Strip(e.e)
      [] e.t = "bin" -> [e EXCEPT !.l = Strip(e.l), !.r = Strip(e.r)]
      [] e.t = "un" -> [e EXCEPT !.e = Strip(e.e)]
      [] e.t = "field" -> [e EXCEPT !.h = Strip(e.h)]
      [] e.t = "index" -> [e EXCEPT !.h = Strip(e.h), !.e = Strip(e.e)]
      [] e.t \in {"fcall", "icall"} -> [e EXCEPT !.ps = [i \in DOMAIN e.ps |-> [n |-> e.ps[i].n, e |-> Strip(e.ps[i].e)]]]
      [] e.t = "ocall" -> [e EXCEPT !.h = Strip(e.h), !.ps = [i \in DOMAIN e.ps |-> [n |-> e.ps[i].n, e |-> Strip(e.ps[i].e)]]]
      [] OTHER -> e

-----------------------------------------------------------------------------
(* statements; a block is a sequence of statements, each followed by ";"        *)
Phrase(ph) == IF ph = "" THEN <<>> ELSE <<".", ph>>
NavChain(ch) == Concat([i \in DOMAIN ch |-> <<"->", ch[i].k, "[", ch[i].rel>> \o Phrase(ch[i].ph) \o <<"]">>])
CallWord(inv) == IF inv.t = "icall" /\ inv.kind = "bridge" THEN <<"bridge">>
                 ELSE IF inv.t = "icall" /\ inv.kind = "class" THEN <<"transform">>
                 ELSE IF inv.t = "icall" /\ inv.kind = "port" THEN <<"send">>
                 ELSE <<>>

EventSpec(ev) == <<ev.id>> \o (IF ev.poly THEN <<"*">> ELSE <<>>) \o (IF ev.meaning # "" THEN <<":", ev.meaning>> ELSE <<>>)
                 \o (IF ev.hasdata THEN <<"(">> \o Params(ev.data) \o <<")">> ELSE <<>>)

\* an instance-based operation may be invoked with the word transform in front (statement field tw); the syntax tree
\* does not record the word
CallWordS(s, inv) == IF "tw" \in DOMAIN s THEN <<"?transform">> ELSE CallWord(inv)
RECURSIVE US(_), UB(_)
UB(b) == Concat([i \in DOMAIN b |-> US(b[i]) \o <<";">>])
US(s) ==
    CASE s.t = "assign" -> (IF CallWordS(s, s.e) # <<>> THEN CallWordS(s, s.e) ELSE <<"?assign">>) \o UE(s.lhs) \o <<"=">> \o UE(s.e)
      [] s.t = "call" -> CallWordS(s, s.inv) \o UE(s.inv)
      [] s.t = "empty" -> <<>>                      \* the empty statement: nothing in front of its semicolon
      [] s.t = "break" -> <<"break">>
      [] s.t = "continue" -> <<"continue">>
      [] s.t = "control" -> <<"control", "stop">>
      [] s.t = "return" -> <<"return">> \o (IF s.has THEN UE(s.e) ELSE <<>>)
      [] s.t = "if" -> <<"if">> \o UE(s.c) \o <<"?then">> \o UB(s.b)
                       \o Concat([i \in DOMAIN s.elifs |-> <<"elif">> \o UE(s.elifs[i].c) \o <<"?then">> \o UB(s.elifs[i].b)])
                       \o (IF s.haselse THEN <<"else">> \o UB(s.els) ELSE <<>>) \o <<"end if">>
      [] s.t = "while" -> <<"while">> \o UE(s.c) \o <<"?loop">> \o UB(s.b) \o <<"end while">>
      [] s.t = "for" -> <<"for", "each", s.v, "in", s.s, "?loop">> \o UB(s.b) \o <<"end for">>
      [] s.t = "create" -> <<"create", "object", "instance", s.v, "of", s.k>>
      [] s.t = "create_nv" -> <<"create", "object", "instance", "of", s.k>>
      [] s.t = "delete" -> <<"delete", "object", "instance", s.v>>
      [] s.t = "relate" -> <<"relate", s.a, "to", s.b, "across", s.rel>> \o Phrase(s.ph)
                           \o (IF s.using # "" THEN <<"using", s.using>> ELSE <<>>)
      [] s.t = "unrelate" -> <<"unrelate", s.a, "from", s.b, "across", s.rel>> \o Phrase(s.ph)
                             \o (IF s.using # "" THEN <<"using", s.using>> ELSE <<>>)
      [] s.t = "select_from" -> <<"select", s.card, s.v, "from", "?instances", "?of", s.k>>
                                \o (IF s.haswhere THEN <<"where">> \o UE(s.w) ELSE <<>>)
      [] s.t = "select_related" -> <<"select", s.card, s.v, "related", "by">> \o UE(s.h) \o NavChain(s.chain)
                                   \o (IF s.haswhere THEN <<"where">> \o UE(s.w) ELSE <<>>)
      [] s.t = "gen_class" -> <<"generate">> \o EventSpec(s.ev) \o <<"to", s.k, s.word>>
      [] s.t = "gen_inst" -> <<"generate">> \o EventSpec(s.ev) \o <<"to">> \o UE(s.to)
      [] s.t = "gen_pre" -> <<"generate">> \o UE(s.e)
      [] s.t = "create_ev_class" -> <<"create", "event", "instance", s.v, "of">> \o EventSpec(s.ev) \o <<"to", s.k, s.word>>
      [] s.t = "create_ev_inst" -> <<"create", "event", "instance", s.v, "of">> \o EventSpec(s.ev) \o <<"to">> \o UE(s.to)
      [] s.t = "send_event" -> <<"send", s.port \o "::", s.n, "(">> \o Params(s.ps) \o <<")", "to">> \o UE(s.to)

Unparse(body) == UB(body)

\* statements with redundant parentheses removed from all their expressions
StripPs(ps) == [i \in DOMAIN ps |-> [n |-> ps[i].n, e |-> Strip(ps[i].e)]]
\* What the syntax tree does not record is normalised as well: empty statements leave no node, the word transform in
\* front of an instance-based invocation, the * of a polymorphic event and the word assigner (read as class) are dropped.
\* a phrase may be written as an identifier; the tree holds it in ticks
Tick(ph) == IF ph = "" \/ SubSeq(ph, 1, 1) = "'" THEN ph ELSE "'" \o ph \o "'"
StripEv(ev) == [ev EXCEPT !.poly = FALSE, !.meaning = Tick(ev.meaning), !.data = StripPs(ev.data),
                           !.hasdata = (ev.data # <<>>)]       \* ( ) around no parameter is not recorded
ClassWord(w) == IF w = "assigner" THEN "class" ELSE w
NoWhere == [t |-> "bool", v |-> "true"]
RECURSIVE StripS(_), StripB(_)
StripB(b) == LET q == SelectSeq(b, LAMBDA x : x.t # "empty") IN [i \in DOMAIN q |-> StripS(q[i])]
StripS(s) ==
    CASE s.t = "assign" -> [t |-> "assign", lhs |-> Strip(s.lhs), e |-> Strip(s.e)]
      [] s.t = "call" -> [t |-> "call", inv |-> Strip(s.inv)]
      [] s.t = "return" -> IF s.has THEN [s EXCEPT !.e = Strip(s.e)] ELSE s
      [] s.t = "if" -> [s EXCEPT !.c = Strip(s.c), !.b = StripB(s.b),
                                 !.elifs = [i \in DOMAIN s.elifs |-> [c |-> Strip(s.elifs[i].c), b |-> StripB(s.elifs[i].b)]],
                                 !.els = StripB(s.els)]
      [] s.t = "while" -> [s EXCEPT !.c = Strip(s.c), !.b = StripB(s.b)]
      [] s.t = "for" -> [s EXCEPT !.b = StripB(s.b)]
      \* (without a where clause the field w is a placeholder)
      [] s.t = "select_from" -> IF s.haswhere THEN [s EXCEPT !.w = Strip(s.w)] ELSE [s EXCEPT !.w = NoWhere]
      [] s.t = "select_related" ->
            LET ch == [i \in DOMAIN s.chain |-> [s.chain[i] EXCEPT !.ph = Tick(s.chain[i].ph)]]
            IN IF s.haswhere THEN [s EXCEPT !.h = Strip(s.h), !.w = Strip(s.w), !.chain = ch]
               ELSE [s EXCEPT !.h = Strip(s.h), !.chain = ch, !.w = NoWhere]
      [] s.t \in {"relate", "unrelate"} -> [s EXCEPT !.ph = Tick(s.ph)]
      [] s.t \in {"gen_class", "create_ev_class"} -> [s EXCEPT !.ev = StripEv(s.ev), !.word = ClassWord(s.word)]
      [] s.t \in {"gen_inst", "create_ev_inst"} -> [s EXCEPT !.ev = StripEv(s.ev), !.to = Strip(s.to)]
      [] s.t = "gen_pre" -> [s EXCEPT !.e = Strip(s.e)]
      [] s.t = "send_event" -> [s EXCEPT !.ps = StripPs(s.ps), !.to = Strip(s.to)]
      [] OTHER -> s

-----------------------------------------------------------------------------
(* Token spans (C13).  Ranges(body) lists, in pre-order, every statement and    *)
(* every expression node with the index range [a, b] of its tokens within        *)
(* Unparse(body).  Parentheses that directly enclose an expression belong to it. *)
Rg(k, a, b) == [k |-> k, a |-> a, b |-> b]

RECURSIVE RE(_, _), RW(_, _, _), RPs(_, _)
\* node e whose first own token is at index a: [n |-> number of tokens, rs |-> ranges, e first]
RW(e, a, p) == IF p THEN LET X == RE(e, a + 1)
                         IN [n |-> X.n + 2, rs |-> <<[X.rs[1] EXCEPT !.a = a, !.b = a + X.n + 1]>> \o Tail(X.rs)]
               ELSE RE(e, a)
\* parameters  name : expr , name : expr ...  starting at index a
RPs(ps, a) == IF ps = <<>> THEN [n |-> 0, rs |-> <<>>]
              ELSE LET X == RE(ps[1].e, a + 2)
                       rest == RPs(Tail(ps), a + 2 + X.n + 1)
                   IN IF Len(ps) = 1 THEN [n |-> 2 + X.n, rs |-> X.rs]
                      ELSE [n |-> 2 + X.n + 1 + rest.n, rs |-> X.rs \o rest.rs]
RE(e, a) ==
    CASE e.t = "bin" ->
            LET p == BinPrec(e.op)
                L == RW(e.l, a, IF p = 3 THEN Prec(e.l) <= 3 ELSE Prec(e.l) < p)
                R == RW(e.r, a + L.n + 1, Prec(e.r) <= p)
                n == L.n + 1 + R.n
            IN [n |-> n, rs |-> <<Rg("bin", a, a + n - 1)>> \o L.rs \o R.rs]
      [] e.t = "un" -> LET X == RW(e.e, a + 1, Prec(e.e) < 7)
                       IN [n |-> 1 + X.n, rs |-> <<Rg("un", a, a + X.n)>> \o X.rs]
      [] e.t = "paren" -> RW(e.e, a, TRUE)
      [] e.t = "param" -> [n |-> 3, rs |-> <<Rg("param", a, a + 2)>>]
      [] e.t = "field" -> LET H == RE(e.h, a) IN [n |-> H.n + 2, rs |-> <<Rg("field", a, a + H.n + 1)>> \o H.rs]
      [] e.t = "index" -> LET H == RE(e.h, a)
                              X == RE(e.e, a + H.n + 1)
                              n == H.n + X.n + 2
                          IN [n |-> n, rs |-> <<Rg("index", a, a + n - 1)>> \o H.rs \o X.rs]
      [] e.t = "fcall" -> LET P == RPs(e.ps, a + 3) IN [n |-> 4 + P.n, rs |-> <<Rg("fcall", a, a + 3 + P.n)>> \o P.rs]
      [] e.t = "icall" -> LET P == RPs(e.ps, a + 3) IN [n |-> 4 + P.n, rs |-> <<Rg("icall", a, a + 3 + P.n)>> \o P.rs]
      [] e.t = "ocall" -> LET H == RE(e.h, a)
                              P == RPs(e.ps, a + H.n + 3)
                              n == H.n + 4 + P.n
                          IN [n |-> n, rs |-> <<Rg("ocall", a, a + n - 1)>> \o H.rs \o P.rs]
      [] OTHER -> [n |-> Len(UE(e)), rs |-> <<Rg(e.t, a, a + Len(UE(e)) - 1)>>]

\* the parameters of an event specification whose first token is at index a
EvData(ev, a) == IF ev.hasdata THEN RPs(ev.data, a + 1 + (IF ev.poly THEN 1 ELSE 0) + (IF ev.meaning # "" THEN 2 ELSE 0) + 1)
                 ELSE [n |-> 0, rs |-> <<>>]

RECURSIVE RS(_, _), RB(_, _), RElifs(_, _)
\* a block whose first token is at index a
RB(b, a) == IF b = <<>> THEN [n |-> 0, rs |-> <<>>]
            ELSE IF b[1].t = "empty" THEN LET rest == RB(Tail(b), a + 1) IN [n |-> 1 + rest.n, rs |-> rest.rs]
            ELSE LET X == RS(b[1], a)
                     rest == RB(Tail(b), a + X.n + 1)
                 IN [n |-> X.n + 1 + rest.n, rs |-> X.rs \o rest.rs]
RElifs(es, a) == IF es = <<>> THEN [n |-> 0, rs |-> <<>>]
                 ELSE LET C == RE(es[1].c, a + 1)
                          B == RB(es[1].b, a + 1 + C.n + 1)
                          rest == RElifs(Tail(es), a + 1 + C.n + 1 + B.n)
                      IN [n |-> 1 + C.n + 1 + B.n + rest.n, rs |-> C.rs \o B.rs \o rest.rs]
RS(s, a) ==
    LET n == Len(US(s))
        own == Rg(s.t, a, a + n - 1)
    IN CASE s.t = "assign" -> LET L == RE(s.lhs, a + 1)
                                  R == RE(s.e, a + 1 + L.n + 1)
                              IN [n |-> n, rs |-> <<own>> \o L.rs \o R.rs]
         [] s.t = "call" -> [n |-> n, rs |-> <<own>> \o RE(s.inv, a + Len(CallWordS(s, s.inv))).rs]
         [] s.t = "return" -> [n |-> n, rs |-> <<own>> \o (IF s.has THEN RE(s.e, a + 1).rs ELSE <<>>)]
         [] s.t = "if" -> LET C == RE(s.c, a + 1)
                              B == RB(s.b, a + 1 + C.n + 1)
                              E == RElifs(s.elifs, a + 1 + C.n + 1 + B.n)
                              L == IF s.haselse THEN RB(s.els, a + 1 + C.n + 1 + B.n + E.n + 1) ELSE [n |-> 0, rs |-> <<>>]
                          IN [n |-> n, rs |-> <<own>> \o C.rs \o B.rs \o E.rs \o L.rs]
         [] s.t = "while" -> LET C == RE(s.c, a + 1)
                                 B == RB(s.b, a + 1 + C.n + 1)
                             IN [n |-> n, rs |-> <<own>> \o C.rs \o B.rs]
         [] s.t = "for" -> [n |-> n, rs |-> <<own>> \o RB(s.b, a + 6).rs]
         [] s.t = "select_from" -> [n |-> n, rs |-> <<own>> \o (IF s.haswhere THEN RE(s.w, a + 8).rs ELSE <<>>)]
         [] s.t = "select_related" ->
                LET H == RE(s.h, a + 5)
                    cl == Len(NavChain(s.chain))
                IN [n |-> n, rs |-> <<own>> \o H.rs \o (IF s.haswhere THEN RE(s.w, a + 5 + H.n + cl + 1).rs ELSE <<>>)]
         \* event statements: the expressions of the event data (and the target) are nodes too
         [] s.t \in {"gen_class", "gen_inst"} ->
                LET P == EvData(s.ev, a + 1)
                IN [n |-> n, rs |-> <<own>> \o P.rs \o (IF s.t = "gen_inst" THEN RE(s.to, a + 1 + Len(EventSpec(s.ev)) + 1).rs ELSE <<>>)]
         [] s.t \in {"create_ev_class", "create_ev_inst"} ->
                LET P == EvData(s.ev, a + 5)
                IN [n |-> n, rs |-> <<own>> \o P.rs \o (IF s.t = "create_ev_inst" THEN RE(s.to, a + 5 + Len(EventSpec(s.ev)) + 1).rs ELSE <<>>)]
         [] s.t = "gen_pre" -> [n |-> n, rs |-> <<own>> \o RE(s.e, a + 1).rs]
         [] s.t = "send_event" -> LET P == RPs(s.ps, a + 4)
                                  IN [n |-> n, rs |-> <<own>> \o P.rs \o RE(s.to, a + 4 + P.n + 2).rs]
         [] OTHER -> [n |-> n, rs |-> <<own>>]

Ranges(body) == RB(body, 1).rs

-----------------------------------------------------------------------------
(* reference parser for expressions over atoms, operators and parentheses:     *)
(* precedence climbing.  Result [e |-> tree, i |-> index of the next token].     *)
IsAtomTok(tok) == tok \notin BinOps \cup UnOps \cup {"(", ")"}
Atom(tok) == IF tok \in {"true", "false"} THEN [t |-> "bool", v |-> tok]
             ELSE IF tok \in {"0", "1", "2", "3", "4", "5", "6", "7", "8", "9"} THEN [t |-> "int", v |-> tok]
             ELSE [t |-> "var", n |-> tok]

RECURSIVE PExpr(_, _, _), PUnary(_, _), PLoop(_, _, _, _)
\* unary operators bind tightest: their operand is a unary expression or a primary
PUnary(toks, i) ==
    IF toks[i] \in UnOps THEN LET r == PUnary(toks, i + 1) IN [e |-> [t |-> "un", op |-> toks[i], e |-> r.e], i |-> r.i]
    ELSE IF toks[i] = "(" THEN LET r == PExpr(toks, i + 1, 1) IN [e |-> [t |-> "paren", e |-> r.e], i |-> r.i + 1]
    ELSE [e |-> Atom(toks[i]), i |-> i + 1]
\* continue a left operand with binary operators of precedence >= min
PLoop(toks, left, i, min) ==
    IF i > Len(toks) \/ toks[i] \notin BinOps \/ BinPrec(toks[i]) < min THEN [e |-> left, i |-> i]
    ELSE LET op == toks[i]
             p == BinPrec(op)
             r == PExpr(toks, i + 1, p + 1)
             node == [t |-> "bin", op |-> op, l |-> left, r |-> r.e]
         IN \* comparisons do not chain: after one, only weaker operators may follow
            PLoop(toks, node, r.i, IF p = 3 THEN min ELSE min)
PExpr(toks, i, min) == LET u == PUnary(toks, i) IN PLoop(toks, u.e, u.i, min)

RefParse(toks) == PExpr(toks, 1, 1).e

-----------------------------------------------------------------------------
(* all expression trees up to a depth over the given leaves (model checking)    *)
RECURSIVE Trees(_, _)
Trees(d, leaves) ==
    IF d = 0 THEN leaves
    ELSE LET sub == Trees(d - 1, leaves)
         IN sub \cup {[t |-> "un", op |-> op, e |-> e] : op \in UnOps, e \in sub}
                \cup {[t |-> "bin", op |-> op, l |-> l, r |-> r] : op \in BinOps, l \in sub, r \in sub}

\* the design theorem checked by TLC: parsing the canonical text of a tree gives the tree back
RoundTrip(t) == Strip(RefParse(UE(t))) = t
=============================================================================
