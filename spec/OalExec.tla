------------------------------- MODULE OalExec -------------------------------
(* What an OAL body computes (C04, C15, C08): a big-step evaluator of the syntax *)
(* trees of OalSyntax.tla over a plain relational model (pools, attribute        *)
(* values, the two directed link maps of every association).  It is a pure       *)
(* function Run(body): no pyxtuml notion (symbol tables, walkers, properties)     *)
(* appears in it.  Situations outside the property's domain (error programs,      *)
(* division, negative modulo, numbers beyond 10^6, use of a deleted instance,     *)
(* access through an empty handle, a rejected relate/unrelate) yield "ood".       *)
EXTENDS Integers, Sequences, FiniteSets, TLC

CONSTANTS Classes, Attrs, Assocs, MaxI, Fuel

(* The callable elements of the model (C15) travel in the state as S.env:          *)
(*   funcs   [name |-> [params, body]]            functions                        *)
(*   ops     [key letters |-> [name |-> [inst, params, body]]]  class / instance operations *)
(*   bridges [key letters |-> [name |-> [params, body]]]         bridges of external entities *)
(*   derived [key letters |-> [attribute |-> body]]              derived attributes *)
(*   enums   [name |-> sequence of enumerators]   consts [name |-> value]           *)
NoEnv == [funcs |-> <<>>, ops |-> <<>>, bridges |-> <<>>, derived |-> <<>>, enums |-> <<>>, consts |-> <<>>]

-----------------------------------------------------------------------------
Rng(q) == {q[i] : i \in DOMAIN q}
InSeq(x, q) == \E i \in DOMAIN q : q[i] = x
Drop(q, x) == SelectSeq(q, LAMBDA e : e # x)
Min(S) == CHOOSE x \in S : \A y \in S : x <= y
ClassSet == Rng(Classes)
NA == Len(Assocs)
AIdx == 1..NA
Ord == 1..MaxI
Src(a) == Assocs[a].src
Tgt(a) == Assocs[a].tgt
AttrNames(c) == [i \in DOMAIN Attrs[c] |-> Attrs[c][i].n]
AttrType(c, n) == LET i == CHOOSE j \in DOMAIN Attrs[c] : Attrs[c][j].n = n IN Attrs[c][i].t
RefAttrs(c) == UNION {Rng(Assocs[a].skeys) : a \in {b \in AIdx : Src(b) = c}}
NonRef(c) == SelectSeq(AttrNames(c), LAMBDA n : n \notin RefAttrs(c))
Index(q, x) == CHOOSE i \in DOMAIN q : q[i] = x
RECURSIVE Concat(_)
Concat(qs) == IF qs = <<>> THEN <<>> ELSE Head(qs) \o Concat(Tail(qs))
Dedup(q) == LET RECURSIVE D(_, _)
                D(r, acc) == IF r = <<>> THEN acc ELSE D(Tail(r), IF InSeq(Head(r), acc) THEN acc ELSE Append(acc, Head(r)))
            IN D(q, <<>>)

\* runtime values
VInt(n) == [k |-> "int", v |-> n]
VBool(b) == [k |-> "bool", v |-> b]
VStr(s) == [k |-> "str", v |-> s]
VId(n) == [k |-> "id", v |-> n]
VInst(c, i) == [k |-> "inst", c |-> c, i |-> i]
VEmpty(c) == [k |-> "empty", c |-> c]
VSet(c, q) == [k |-> "set", c |-> c, q |-> q]
OOD == [k |-> "ood"]
NoVal == [k |-> "none"]

DigitStr == <<"0", "1", "2", "3", "4", "5", "6", "7", "8", "9">>
RECURSIVE NatStr(_)
NatStr(n) == IF n < 10 THEN DigitStr[n + 1] ELSE NatStr(n \div 10) \o DigitStr[(n % 10) + 1]
IntStr(n) == IF n < 0 THEN "-" \o NatStr(0 - n) ELSE NatStr(n)
RECURSIVE StrNat(_, _)
StrNat(s, acc) == IF s = "" THEN acc
                  ELSE StrNat(Tail(s), acc * 10 + (CHOOSE d \in 0..9 : DigitStr[d + 1] = SubSeq(s, 1, 1)))
Unquote(s) == SubSeq(s, 2, Len(s) - 1)

\* value -> token of the trace vocabulary
Tok(v) == CASE v.k = "int" -> "i:" \o IntStr(v.v)
            [] v.k = "bool" -> IF v.v THEN "b:1" ELSE "b:0"
            [] v.k = "str" -> "s:" \o v.v
            [] v.k = "id" -> "u:" \o IntStr(v.v)
            [] v.k = "none" -> "none"
            [] OTHER -> "?:" \o v.k

-----------------------------------------------------------------------------
(* the relational model *)
EmptyModel ==
    [pool |-> [c \in ClassSet |-> <<>>], born |-> [c \in ClassSet |-> 0],
     val |-> [c \in ClassSet |-> [i \in Ord |-> <<>>]],
     fwd |-> [a \in AIdx |-> [i \in Ord |-> <<>>]], bwd |-> [a \in AIdx |-> [i \in Ord |-> <<>>]],
     gen |-> 0]

Live(M, c, i) == InSeq(i, M.pool[c])
DefaultOf(t) == CASE t = "BOOLEAN" -> VBool(FALSE) [] t = "INTEGER" -> VInt(0) [] t = "STRING" -> VStr("") [] OTHER -> VInt(0)

MNew(M, c) ==
    LET i == M.born[c] + 1
        nr == NonRef(c)
        slots == SelectSeq(nr, LAMBDA n : AttrType(c, n) = "UNIQUE_ID")
        row == [n \in Rng(nr) |-> IF AttrType(c, n) = "UNIQUE_ID" THEN VId(M.gen + Index(slots, n)) ELSE DefaultOf(AttrType(c, n))]
    IN [M EXCEPT !.born[c] = i, !.pool[c] = Append(@, i), !.val[c][i] = row, !.gen = @ + Len(slots)]

MDelete(M, c, i) ==
    [M EXCEPT !.pool[c] = Drop(@, i),
              !.fwd = [a \in AIdx |-> [k \in Ord |-> IF Tgt(a) = c /\ k = i THEN <<>>
                                                    ELSE IF Src(a) = c THEN Drop(M.fwd[a][k], i) ELSE M.fwd[a][k]]],
              !.bwd = [a \in AIdx |-> [k \in Ord |-> IF Src(a) = c /\ k = i THEN <<>>
                                                    ELSE IF Tgt(a) = c THEN Drop(M.bwd[a][k], i) ELSE M.bwd[a][k]]]]

MatchXY(a, cx, cy, ph) == Tgt(a) = cx /\ Src(a) = cy /\ Assocs[a].tphrase = ph
MatchYX(a, cx, cy, ph) == Src(a) = cx /\ Tgt(a) = cy /\ Assocs[a].sphrase = ph
FindLink(cx, ix, cy, iy, rel, ph) ==
    LET cand == {a \in AIdx : Assocs[a].rel = rel /\ (MatchXY(a, cx, cy, ph) \/ MatchYX(a, cx, cy, ph))}
    IN IF cand = {} THEN <<0, 0, 0>>
       ELSE LET a == Min(cand) IN IF MatchXY(a, cx, cy, ph) THEN <<a, ix, iy>> ELSE <<a, iy, ix>>

\* relate x to y: the new model, or <<>> when the call would be rejected
MRelate(M, cx, ix, cy, iy, rel, ph) ==
    LET f == FindLink(cx, ix, cy, iy, rel, ph)
        a == f[1]  t == f[2]  s == f[3]
    IN IF a = 0 THEN <<>>
       ELSE IF InSeq(s, M.fwd[a][t]) THEN <<M>>
       ELSE IF (M.fwd[a][t] # <<>> /\ ~Assocs[a].smany) \/ (M.bwd[a][s] # <<>> /\ ~Assocs[a].tmany) THEN <<>>
       ELSE <<[M EXCEPT !.fwd[a][t] = Append(@, s), !.bwd[a][s] = Append(@, t)]>>
MUnrelate(M, cx, ix, cy, iy, rel, ph) ==
    LET f == FindLink(cx, ix, cy, iy, rel, ph)
        a == f[1]  t == f[2]  s == f[3]
    IN IF a = 0 \/ ~InSeq(s, M.fwd[a][t]) THEN <<>>
       ELSE <<[M EXCEPT !.fwd[a][t] = Drop(@, s), !.bwd[a][s] = Drop(@, t)]>>

\* navigation (as MetaObs.tla, over an explicit model)
LinksOf(c) ==
    LET RECURSIVE L(_)
        L(a) == IF a > NA THEN <<>>
                ELSE (IF Tgt(a) = c THEN <<[kind |-> Src(a), rel |-> Assocs[a].rel, ph |-> Assocs[a].tphrase, a |-> a, d |-> "fwd"]>> ELSE <<>>)
                  \o (IF Src(a) = c THEN <<[kind |-> Tgt(a), rel |-> Assocs[a].rel, ph |-> Assocs[a].sphrase, a |-> a, d |-> "bwd"]>> ELSE <<>>)
                  \o L(a + 1)
    IN L(1)
Across(M, lk, i) == IF lk.d = "fwd" THEN M.fwd[lk.a][i] ELSE M.bwd[lk.a][i]
Direct(c, kind, rel, ph) ==
    LET ls == LinksOf(c)
        m == {j \in DOMAIN ls : ls[j].kind = kind /\ ls[j].rel = rel /\ ls[j].ph = ph}
    IN IF m = {} THEN <<>> ELSE <<ls[CHOOSE j \in m : \A k \in m : k <= j]>>
HopCands(c, kind, rel, ph) ==
    LET ls == LinksOf(c) IN {j \in DOMAIN ls : ls[j].rel = rel /\ ls[j].ph = ph /\ Direct(ls[j].kind, kind, rel, ph) # <<>>}
NavKnown(c, kind, rel, ph) == Direct(c, kind, rel, ph) # <<>> \/ Cardinality(HopCands(c, kind, rel, ph)) = 1
NavFrom(M, c, i, kind, rel, ph) ==
    IF Direct(c, kind, rel, ph) # <<>> THEN Across(M, Direct(c, kind, rel, ph)[1], i)
    ELSE LET ls == LinksOf(c)
             j == CHOOSE x \in HopCands(c, kind, rel, ph) : TRUE
             mid == Across(M, ls[j], i)
             l2 == Direct(ls[j].kind, kind, rel, ph)[1]
         IN Dedup(Concat([k \in DOMAIN mid |-> Across(M, l2, mid[k])]))

\* attribute read: stored value, or for a referential attribute the identifying value of the partner
RECURSIVE MRead(_, _, _, _)
MRead(M, c, i, n) ==
    IF n \in RefAttrs(c) THEN
        LET cand == {a \in AIdx : Src(a) = c /\ InSeq(n, Assocs[a].skeys) /\ M.bwd[a][i] # <<>>}
        IN IF cand = {} THEN NoVal
           ELSE LET a == CHOOSE x \in cand : \A y \in cand : y <= x
                IN MRead(M, Tgt(a), M.bwd[a][i][1], Assocs[a].tkeys[Index(Assocs[a].skeys, n)])
    ELSE M.val[c][i][n]

-----------------------------------------------------------------------------
(* evaluation; a state is [vars, m, ret, ctl, fuel, kw (parameters), self]         *)
Lit(s) == StrNat(s, 0)
Bound == 1000000
ChkInt(n) == IF n > Bound \/ n < 0 - Bound THEN OOD ELSE VInt(n)
IsOOD(v) == v.k = "ood"
StripTicks(ph) == IF ph = "" THEN "" ELSE Unquote(ph)

RECURSIVE EvalE(_, _), ExecS(_, _), ExecB(_, _), While(_, _), ForEach(_, _, _, _), Elifs(_, _, _), Call(_, _, _, _), Args(_, _, _), Derived(_, _, _, _)

\* evaluation of an expression also threads the model (an invoked function may change it): [v, s]
EV(v, S) == [v |-> v, s |-> S]

\* (TLC integers are 32 bits wide: a product is only computed when it stays within the bound)
Abs(n) == IF n < 0 THEN 0 - n ELSE n
MulVal(a, b) == IF a = 0 \/ b = 0 THEN VInt(0)
                ELSE IF Abs(a) > Bound \div Abs(b) THEN OOD ELSE ChkInt(a * b)
BinVal(op, l, r) ==
    CASE op = "*" /\ l.k = "int" /\ r.k = "int" -> MulVal(l.v, r.v)
      [] op \in {"+", "-"} /\ l.k = "int" /\ r.k = "int" ->
            ChkInt(CASE op = "+" -> l.v + r.v [] op = "-" -> l.v - r.v)
      [] op = "+" /\ l.k = "str" /\ r.k = "str" -> VStr(l.v \o r.v)
      [] op = "%" /\ l.k = "int" /\ r.k = "int" -> IF r.v > 0 /\ l.v >= 0 THEN VInt(l.v % r.v) ELSE OOD
      [] op \in {"<", "<=", ">", ">="} /\ l.k = "int" /\ r.k = "int" ->
            VBool(CASE op = "<" -> l.v < r.v [] op = "<=" -> l.v <= r.v [] op = ">" -> l.v > r.v [] op = ">=" -> l.v >= r.v)
      [] op \in {"==", "!="} /\ l.k = r.k /\ l.k \in {"int", "str", "bool", "id"} -> VBool(IF op = "==" THEN l.v = r.v ELSE l.v # r.v)
      [] op \in {"and", "or"} /\ l.k = "bool" /\ r.k = "bool" -> VBool(IF op = "and" THEN l.v /\ r.v ELSE l.v \/ r.v)
      [] OTHER -> OOD

UnVal(M, op, x) ==
    CASE op = "not" /\ x.k = "bool" -> VBool(~x.v)
      [] op = "-" /\ x.k = "int" -> VInt(0 - x.v)
      [] op = "+" /\ x.k = "int" -> x
      [] op \in {"empty", "not_empty", "cardinality"} /\ x.k \in {"inst", "empty", "set"} ->
            LET n == IF x.k = "empty" THEN 0 ELSE IF x.k = "inst" THEN 1 ELSE Len(x.q)
            IN IF op = "cardinality" THEN VInt(n) ELSE VBool(IF op = "empty" THEN n = 0 ELSE n # 0)
      [] OTHER -> OOD

EvalE(e, S) ==
    CASE e.t = "int" -> EV(VInt(Lit(e.v)), S)
      [] e.t = "bool" -> EV(VBool(e.v = "true"), S)
      [] e.t = "str" -> EV(VStr(Unquote(e.v)), S)
      [] e.t = "paren" -> EvalE(e.e, S)
      [] e.t = "var" -> EV(IF e.n \in DOMAIN S.vars THEN S.vars[e.n]
                           ELSE IF e.n \in DOMAIN S.env.consts THEN S.env.consts[e.n] ELSE OOD, S)
      [] e.t = "enum" -> EV(IF e.ns \in DOMAIN S.env.enums /\ \E i \in DOMAIN S.env.enums[e.ns] : S.env.enums[e.ns][i] = e.n
                            THEN VInt((CHOOSE i \in DOMAIN S.env.enums[e.ns] : S.env.enums[e.ns][i] = e.n) - 1) ELSE OOD, S)
      [] e.t = "selected" -> EV(IF "selected" \in DOMAIN S.vars THEN S.vars["selected"] ELSE OOD, S)
      [] e.t = "self" -> EV(S.self, S)
      [] e.t = "param" -> EV(IF e.n \in DOMAIN S.kw THEN S.kw[e.n] ELSE OOD, S)
      [] e.t = "field" ->
            LET h == EvalE(e.h, S) IN
            IF h.v.k = "inst" /\ Live(h.s.m, h.v.c, h.v.i) /\ h.v.c \in DOMAIN S.env.derived /\ e.n \in DOMAIN S.env.derived[h.v.c]
            THEN Derived(S.env.derived[h.v.c][e.n], e.n, h.s, h.v)
            ELSE IF h.v.k = "inst" /\ Live(h.s.m, h.v.c, h.v.i) /\ InSeq(e.n, AttrNames(h.v.c))
            THEN EV(MRead(h.s.m, h.v.c, h.v.i, e.n), h.s) ELSE EV(OOD, h.s)
      [] e.t = "un" -> LET x == EvalE(e.e, S) IN EV(IF IsOOD(x.v) THEN OOD ELSE UnVal(x.s.m, e.op, x.v), x.s)
      [] e.t = "bin" -> LET l == EvalE(e.l, S)
                            r == EvalE(e.r, l.s)         \* both operands are always evaluated, left first
                        IN EV(IF IsOOD(l.v) \/ IsOOD(r.v) THEN OOD ELSE BinVal(e.op, l.v, r.v), r.s)
      [] e.t = "fcall" -> IF e.n \in DOMAIN S.env.funcs THEN Call(S.env.funcs[e.n], e.ps, S, NoVal) ELSE EV(OOD, S)
      [] e.t = "icall" ->
            \* KL::op(..) is a class operation, EE::bridge(..) a bridge
            IF e.ns \in DOMAIN S.env.ops /\ e.n \in DOMAIN S.env.ops[e.ns] /\ ~S.env.ops[e.ns][e.n].inst
            THEN Call(S.env.ops[e.ns][e.n], e.ps, S, NoVal)
            ELSE IF e.ns \in DOMAIN S.env.bridges /\ e.n \in DOMAIN S.env.bridges[e.ns]
            THEN Call(S.env.bridges[e.ns][e.n], e.ps, S, NoVal)
            ELSE EV(OOD, S)
      [] e.t = "ocall" ->
            LET h == EvalE(e.h, S) IN
            IF h.v.k = "inst" /\ Live(h.s.m, h.v.c, h.v.i) /\ h.v.c \in DOMAIN S.env.ops /\ e.n \in DOMAIN S.env.ops[h.v.c]
               /\ S.env.ops[h.v.c][e.n].inst
            THEN Call(S.env.ops[h.v.c][e.n], e.ps, h.s, h.v) ELSE EV(OOD, h.s)
      [] OTHER -> EV(OOD, S)

\* evaluate named arguments left to right: [kw, s] (kw = <<>> marks ood)
Args(ps, S, acc) ==
    IF ps = <<>> THEN [kw |-> acc, s |-> S, ok |-> TRUE]
    ELSE LET x == EvalE(ps[1].e, S)
         IN IF IsOOD(x.v) THEN [kw |-> acc, s |-> x.s, ok |-> FALSE]
            ELSE Args(Tail(ps), x.s, [n \in (DOMAIN acc) \cup {ps[1].n} |-> IF n = ps[1].n THEN x.v ELSE acc[n]])

\* an invocation: own variables, parameters by name, self; the model is shared; the
\* value is that of the return statement executed (none when none was)
Call(f, ps, S, self) ==
    LET A == Args(ps, S, <<>>)
    IN IF ~A.ok \/ DOMAIN A.kw # Rng(f.params) \/ A.s.fuel = 0 THEN EV(OOD, A.s)
       ELSE LET inner == [vars |-> <<>>, m |-> A.s.m, ret |-> NoVal, ctl |-> "run", fuel |-> A.s.fuel - 1, kw |-> A.kw, self |-> self,
                          env |-> S.env, dattr |-> ""]
                R == ExecB(f.body, inner)
            IN IF R.ctl = "ood" THEN EV(OOD, [A.s EXCEPT !.m = R.m, !.fuel = R.fuel])
               ELSE IF R.ctl = "stop" THEN EV(R.ret, [A.s EXCEPT !.m = R.m, !.fuel = R.fuel])
               ELSE EV(R.ret, [A.s EXCEPT !.m = R.m, !.fuel = R.fuel])

\* reading a derived attribute runs its body with self bound to the instance; the value is
\* whatever the body assigns to self.<attribute> (recomputed on every read)
Derived(body, n, S, inst) ==
    IF S.fuel = 0 THEN EV(OOD, S)
    ELSE LET inner == [vars |-> <<>>, m |-> S.m, ret |-> NoVal, ctl |-> "run", fuel |-> S.fuel - 1, kw |-> <<>>, self |-> inst,
                       env |-> S.env, dattr |-> n]
             R == ExecB(body, inner)
         IN IF R.ctl = "ood" THEN EV(OOD, [S EXCEPT !.m = R.m, !.fuel = R.fuel])
            ELSE EV(R.ret, [S EXCEPT !.m = R.m, !.fuel = R.fuel])

SetVar(S, n, v) == [S EXCEPT !.vars = [x \in (DOMAIN S.vars) \cup {n} |-> IF x = n THEN v ELSE S.vars[x]]]
Fail(S) == [S EXCEPT !.ctl = "ood"]

\* the instances of q (class c, in the given order) that satisfy the where clause: [q, ok, s].  The clause is evaluated
\* for one candidate after the other and what an invocation inside it does to the model stays done; a selection of a
\* single instance (any / one) stops at the first candidate that satisfies the clause.
RECURSIVE FilterT(_, _, _, _, _)
FilterT(S, c, q, w, lazy) ==
    IF q = <<>> THEN [q |-> <<>>, ok |-> TRUE, s |-> S]
    ELSE LET r == EvalE(w, SetVar(S, "selected", VInst(c, q[1])))
             S2 == [r.s EXCEPT !.vars = S.vars]
         IN IF r.v.k # "bool" THEN [q |-> <<>>, ok |-> FALSE, s |-> S2]
            ELSE IF r.v.v /\ lazy THEN [q |-> <<q[1]>>, ok |-> TRUE, s |-> S2]
            ELSE LET R == FilterT(S2, c, Tail(q), w, lazy)
                 IN [q |-> (IF r.v.v THEN <<q[1]>> ELSE <<>>) \o R.q, ok |-> R.ok, s |-> R.s]
Filter(S, c, q, haswhere, w, lazy) ==
    IF ~haswhere THEN [q |-> q, ok |-> TRUE, s |-> S] ELSE FilterT(S, c, q, w, lazy)

RECURSIVE NavSeq(_, _, _, _)
\* [c, q, ok]
NavSeq(M, c, q, chain) ==
    IF chain = <<>> THEN [c |-> c, q |-> q, ok |-> TRUE]
    ELSE LET st == chain[1]
             ph == StripTicks(st.ph)
         IN IF ~NavKnown(c, st.k, st.rel, ph) THEN [c |-> c, q |-> <<>>, ok |-> FALSE]
            ELSE NavSeq(M, st.k, Concat([k \in DOMAIN q |-> NavFrom(M, c, q[k], st.k, st.rel, ph)]), Tail(chain))

Elifs(es, S, k) ==
    IF k > Len(es) THEN [s |-> S, taken |-> FALSE]
    ELSE LET c == EvalE(es[k].c, S)
         IN IF c.v.k # "bool" THEN [s |-> Fail(c.s), taken |-> TRUE]
            ELSE IF c.v.v THEN [s |-> ExecB(es[k].b, c.s), taken |-> TRUE]
            ELSE Elifs(es, c.s, k + 1)

While(s, S) ==
    IF S.fuel = 0 THEN Fail(S)
    ELSE LET c == EvalE(s.c, S)
         IN IF c.v.k # "bool" THEN Fail(c.s)
            ELSE IF ~c.v.v THEN c.s
            ELSE LET R == ExecB(s.b, [c.s EXCEPT !.fuel = @ - 1])
                 IN IF R.ctl = "break" THEN [R EXCEPT !.ctl = "run"]
                    ELSE IF R.ctl \in {"run", "continue"} THEN While(s, [R EXCEPT !.ctl = "run"])
                    ELSE R

ForEach(s, S, c, q) ==
    IF q = <<>> THEN S
    ELSE LET R == ExecB(s.b, SetVar(S, s.v, VInst(c, q[1])))
         IN IF R.ctl = "break" THEN [R EXCEPT !.ctl = "run"]
            ELSE IF R.ctl \in {"run", "continue"} THEN ForEach(s, [R EXCEPT !.ctl = "run"], c, Tail(q))
            ELSE R

InstOf(S, n) == IF n \in DOMAIN S.vars /\ S.vars[n].k = "inst" /\ Live(S.m, S.vars[n].c, S.vars[n].i) THEN <<S.vars[n]>> ELSE <<>>

ExecS(s, S) ==
    CASE s.t = "assign" ->
            LET x == EvalE(s.e, S) IN
            IF IsOOD(x.v) \/ x.v.k = "none" THEN Fail(x.s)
            ELSE IF s.lhs.t = "var" THEN SetVar(x.s, s.lhs.n, x.v)
            ELSE IF s.lhs.t = "field" /\ S.dattr # "" /\ s.lhs.n = S.dattr /\ s.lhs.h.t = "self" THEN [x.s EXCEPT !.ret = x.v]
            ELSE IF s.lhs.t = "field" THEN
                LET h == EvalE(s.lhs.h, x.s) IN
                IF h.v.k = "inst" /\ Live(h.s.m, h.v.c, h.v.i) /\ InSeq(s.lhs.n, NonRef(h.v.c))
                THEN [h.s EXCEPT !.m.val[h.v.c][h.v.i][s.lhs.n] = x.v] ELSE Fail(h.s)
            ELSE Fail(x.s)
      [] s.t = "call" -> LET x == EvalE(s.inv, S) IN IF IsOOD(x.v) THEN Fail(x.s) ELSE x.s
      [] s.t = "return" -> IF ~s.has THEN [S EXCEPT !.ret = NoVal, !.ctl = "return"]
                           ELSE LET x == EvalE(s.e, S) IN
                                IF IsOOD(x.v) THEN Fail(x.s) ELSE [x.s EXCEPT !.ret = x.v, !.ctl = "return"]
      [] s.t = "break" -> [S EXCEPT !.ctl = "break"]
      [] s.t = "continue" -> [S EXCEPT !.ctl = "continue"]
      [] s.t = "control" -> [S EXCEPT !.ctl = "stop"]
      [] s.t = "if" -> LET c == EvalE(s.c, S) IN
                       IF c.v.k # "bool" THEN Fail(c.s)
                       ELSE IF c.v.v THEN ExecB(s.b, c.s)
                       ELSE LET E == Elifs(s.elifs, c.s, 1) IN
                            IF E.taken THEN E.s ELSE IF s.haselse THEN ExecB(s.els, E.s) ELSE E.s
      [] s.t = "while" -> While(s, S)
      [] s.t = "for" -> IF s.s \in DOMAIN S.vars /\ S.vars[s.s].k = "set"
                        THEN ForEach(s, S, S.vars[s.s].c, S.vars[s.s].q) ELSE Fail(S)
      [] s.t = "create" -> IF S.m.born[s.k] >= MaxI THEN Fail(S)
                           ELSE LET M2 == MNew(S.m, s.k) IN SetVar([S EXCEPT !.m = M2], s.v, VInst(s.k, M2.born[s.k]))
      [] s.t = "create_nv" -> IF S.m.born[s.k] >= MaxI THEN Fail(S) ELSE [S EXCEPT !.m = MNew(S.m, s.k)]
      [] s.t = "delete" -> LET x == InstOf(S, s.v) IN
                           IF x = <<>> THEN Fail(S) ELSE [S EXCEPT !.m = MDelete(S.m, x[1].c, x[1].i)]
      [] s.t \in {"relate", "unrelate"} ->
            LET x == InstOf(S, s.a)
                y == InstOf(S, s.b)
                u == IF s.using = "" THEN <<>> ELSE InstOf(S, s.using)
                ph == StripTicks(s.ph)
                Op(M, p, q) == IF s.t = "relate" THEN MRelate(M, p.c, p.i, q.c, q.i, s.rel, ph)
                                                 ELSE MUnrelate(M, p.c, p.i, q.c, q.i, s.rel, ph)
            IN IF x = <<>> \/ y = <<>> \/ (s.using # "" /\ u = <<>>) THEN Fail(S)
               ELSE IF s.using = "" THEN (LET R == Op(S.m, x[1], y[1]) IN IF R = <<>> THEN Fail(S) ELSE [S EXCEPT !.m = R[1]])
               \* with a link instance: first the one side with the link instance, then the link instance with the other side
               ELSE LET R1 == Op(S.m, x[1], u[1])
                    IN IF R1 = <<>> THEN Fail(S)
                       ELSE LET R2 == Op(R1[1], u[1], y[1]) IN IF R2 = <<>> THEN Fail(S) ELSE [S EXCEPT !.m = R2[1]]
      [] s.t = "select_from" ->
            LET F == Filter(S, s.k, S.m.pool[s.k], s.haswhere, s.w, s.card # "many")
            IN IF ~F.ok THEN Fail(F.s)
               ELSE IF s.card = "many" THEN SetVar(F.s, s.v, VSet(s.k, F.q))
               ELSE SetVar(F.s, s.v, IF F.q = <<>> THEN VEmpty(s.k) ELSE VInst(s.k, F.q[1]))
      [] s.t = "select_related" ->
            LET h == EvalE(s.h, S).v
                start == CASE h.k = "inst" -> IF Live(S.m, h.c, h.i) THEN <<h.i>> ELSE <<0>>
                           [] h.k = "set" -> h.q
                           [] h.k = "empty" -> <<>>
                           [] OTHER -> <<0>>
            IN IF start = <<0>> \/ (h.k = "set" /\ \E j \in DOMAIN h.q : ~Live(S.m, h.c, h.q[j])) THEN Fail(S)
               ELSE LET N == NavSeq(S.m, h.c, start, s.chain)
                        D == Dedup(N.q)
                        F == IF N.ok THEN Filter(S, N.c, D, s.haswhere, s.w, s.card # "many") ELSE [q |-> <<>>, ok |-> FALSE, s |-> S]
                    IN IF ~N.ok \/ ~F.ok THEN Fail(F.s)
                       ELSE IF s.card = "many" THEN SetVar(F.s, s.v, VSet(N.c, F.q))
                       ELSE SetVar(F.s, s.v, IF F.q = <<>> THEN VEmpty(N.c) ELSE VInst(N.c, F.q[1]))
      [] OTHER -> Fail(S)

ExecB(b, S) == IF b = <<>> \/ S.ctl # "run" THEN S
               ELSE IF S.fuel = 0 THEN Fail(S)
               ELSE ExecB(Tail(b), ExecS(b[1], [S EXCEPT !.fuel = @ - 1]))

Run(body, kw, self) ==
    ExecB(body, [vars |-> <<>>, m |-> EmptyModel, ret |-> NoVal, ctl |-> "run", fuel |-> Fuel, kw |-> kw, self |-> self,
                 env |-> NoEnv, dattr |-> ""])
RunIn(body, kw, self, env, M) ==
    ExecB(body, [vars |-> <<>>, m |-> M, ret |-> NoVal, ctl |-> "run", fuel |-> Fuel, kw |-> kw, self |-> self, env |-> env, dattr |-> ""])

-----------------------------------------------------------------------------
(* projection of a model in the vocabulary of the recorded traces *)
ProjPool(M) == M.pool
ProjNav(M) == [a \in AIdx |-> [fwd |-> [k \in 1..M.born[Tgt(a)] |-> M.fwd[a][k]],
                               bwd |-> [k \in 1..M.born[Src(a)] |-> M.bwd[a][k]]]]
ProjAttr(M) == [c \in ClassSet |-> [k \in 1..Len(M.pool[c]) |->
                   [n \in Rng(AttrNames(c)) |-> LET v == MRead(M, c, M.pool[c][k], n) IN IF v.k = "none" THEN "unset" ELSE Tok(v)]]]
=============================================================================
