CONSTANTS
  Elem = {1, 2, 3}
  MaxArg = 3
SPECIFICATION Spec
INVARIANT TypeOK
INVARIANT NoDuplicates
PROPERTY SurvivorsKeepOrder
PROPERTY Frame
PROPERTY PopsAreEnds
CHECK_DEADLOCK FALSE
