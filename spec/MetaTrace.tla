------------------------------ MODULE MetaTrace ------------------------------
(* Validates traces recorded from a real xtuml.MetaModel against Meta.tla.     *)
EXTENDS Meta, TraceBase

TInit == Init /\ TBaseInit

KwOf(e) == [n \in (DOMAIN e.kw) \ {"_"} |-> e.kw[n]]

Step(e) ==
    CASE e.op = "New" -> New(e.c, e.pos, KwOf(e))
      [] e.op = "Relate" -> Relate(e.x[1], e.x[2], e.y[1], e.y[2], e.rel, e.ph)
      [] e.op = "Unrelate" -> Unrelate(e.x[1], e.x[2], e.y[1], e.y[2], e.rel, e.ph)
      [] e.op = "RelateNone" -> RelateNone
      [] e.op = "Delete" -> Delete(e.x[1], e.x[2])

\* the abstract state as the adapter projects it through the public API
ProjPool == pool
ProjNav == [a \in AIdx |-> [fwd |-> [k \in 1..born[Tgt(a)] |-> fwd[a][k]],
                            bwd |-> [k \in 1..born[Src(a)] |-> bwd[a][k]]]]
ProjAttr == [c \in ClassSet |-> [k \in 1..Len(pool[c]) |->
                [n \in Rng(AttrNames(c)) |-> Read(c, pool[c][k], n)]]]

Conform(e) == FirstBad(<<
    <<"res", res' = e.res>>,
    <<"observable", e.oerr = "">>,
    <<"pool", ProjPool' = e.pool>>,
    <<"nav", ProjNav' = e.nav>>,
    <<"attr", ProjAttr' = e.attr>>
  >>)

TNext == /\ TEnabled
         /\ Step(Ev)
         /\ Advance(Conform(Ev), <<res', ProjPool', ProjNav'>>)
=============================================================================
