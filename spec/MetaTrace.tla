------------------------------ MODULE MetaTrace ------------------------------
(* Validates traces recorded from a real xtuml.MetaModel against Meta.tla and   *)
(* the observation operators of MetaObs.tla.                                    *)
EXTENDS MetaObs, TraceBase

VARIABLES ph,    \* 0: apply the next event's action; 1: compare the state reached with the event
          stmts, \* rows the loader has accepted so far (C18: one loader, several builds)
          lastpeek  \* what peek() of the metamodel's id generator showed after the previous event ("" = not recorded)
TInit == Init /\ TBaseInit /\ ph = 0 /\ stmts = <<>> /\ lastpeek = ""

KwOf(e) == [n \in (DOMAIN e.kw) \ {"_"} |-> e.kw[n]]
G2(e) == IF e.g >= 0 THEN e.g ELSE gen + Len(IdSlots(e.c))

\* Traces recorded through the source hooks (the repository's own tests running on the hooked library) give the projected
\* state in front of every top-level call, because calls that are not hooked (attribute writes, loading) happen in
\* between: the specification adopts that state and the hooked call that follows is then an ordinary action.
PoolIndex(q, i) == CHOOSE k \in DOMAIN q : q[k] = i
AdoptState(e) ==
    /\ born' = [c \in ClassSet |-> e.born[c]]
    /\ pool' = [c \in ClassSet |-> e.pool[c]]
    /\ val' = [c \in ClassSet |-> [i \in Ord |->
                 IF InSeq(i, e.pool[c]) THEN [n \in Rng(NonRef(c)) |-> e.attr[c][PoolIndex(e.pool[c], i)][n]]
                 ELSE [n \in Rng(NonRef(c)) |-> "unset"]]]
    /\ fwd' = [a \in AIdx |-> [t \in Ord |-> IF t <= Len(e.nav[a].fwd) THEN e.nav[a].fwd[t] ELSE <<>>]]
    /\ bwd' = [a \in AIdx |-> [s \in Ord |-> IF s <= Len(e.nav[a].bwd) THEN e.nav[a].bwd[s] ELSE <<>>]]
    /\ gen' = 0 /\ used' = {e.used[j] : j \in DOMAIN e.used} /\ pk' = "" /\ res' = "none"

Step(e) ==
    CASE e.op = "Adopt" -> AdoptState(e)
      [] e.op = "New" -> IF Len(e.ids) = Len(IdSlots(e.c)) THEN NewCall(e.c, e.pos, KwOf(e), e.ids, G2(e))
                         ELSE NewC(e.c, e.pos, KwOf(e))
      [] e.op = "NewUnknown" -> NewUnknown(e.c) /\ UNCHANGED mvars
      [] e.op = "Relate" -> Relate(e.x[1], e.x[2], e.y[1], e.y[2], e.rel, e.ph)
      [] e.op = "Unrelate" -> Unrelate(e.x[1], e.x[2], e.y[1], e.y[2], e.rel, e.ph)
      [] e.op = "RelateNone" -> RelateNone
      [] e.op = "Delete" -> Delete(e.x[1], e.x[2])
      [] e.op = "LoadBuild" -> LoadBuild(e.rows, IF e.g >= 0 THEN e.g ELSE gen)
      [] e.op = "NewRow" -> NewRow(e.row, IF e.g >= 0 THEN e.g ELSE gen)
      [] e.op = "BatchRelate" -> BatchRelate(e.a)
      [] e.op = "LoadInto" -> LoadInto(e.rows, IF e.g >= 0 THEN e.g ELSE gen)
      [] e.op = "Input" -> UNCHANGED mvars /\ res' = "none"          \* the loader accumulates; built models do not change
      [] e.op = "BuildFocus" -> LoadBuild(stmts, IF e.g >= 0 THEN e.g ELSE gen)
      [] e.op = "Foreign" -> UNCHANGED mvars /\ res' = e.res           \* a call on another metamodel of the same loader
      [] e.op = "SaveLoad" -> SaveLoad(IF e.g >= 0 THEN e.g ELSE gen)
      [] e.op = "SetAttr" -> SetAttr(e.x[1], e.x[2], e.n, e.v)
      [] e.op = "DelAttr" -> IF Stored(e.x[1], e.x[2], e.n) THEN DelAttr(e.x[1], e.x[2], e.n)
                             ELSE UNCHANGED mvars /\ res' = e.res
      [] e.op = "GenNext" -> IF GenKind = "uuid" THEN /\ gen' = gen + 1 /\ used' = used \cup {e.id}
                                                      /\ pk' = "" /\ res' = e.id
                                                      /\ UNCHANGED <<pool, born, val, fwd, bwd>>
                             ELSE GenNext(GenId(gen + 1))
      [] e.op = "GenPeek" -> IF GenKind = "uuid" THEN /\ pk' = e.id /\ res' = e.id
                                                      /\ UNCHANGED <<pool, born, val, fwd, bwd, gen, used>>
                             ELSE GenPeek(GenId(gen + 1))

\* nondeterministic actions are bound to the logged choice, which must be admissible
Admissible(e) ==
    CASE e.op = "New" /\ Len(e.ids) = Len(IdSlots(e.c)) -> IdsOK(e.c, e.pos, KwOf(e), e.ids, G2(e))
      [] e.op = "DelAttr" /\ ~Stored(e.x[1], e.x[2], e.n) -> TRUE
      [] e.op \in {"GenNext", "GenPeek"} /\ GenKind = "uuid" ->
            e.id # "u:0" /\ e.id \notin used /\ (pk # "" => e.id = pk)
      [] OTHER -> TRUE

\* the abstract state as the adapter projects it through the public API
ProjPool == pool
ProjNav == [a \in AIdx |-> [fwd |-> [k \in 1..born[Tgt(a)] |-> fwd[a][k]],
                            bwd |-> [k \in 1..born[Src(a)] |-> bwd[a][k]]]]
ProjAttr == [c \in ClassSet |-> [k \in 1..Len(pool[c]) |->
                [n \in Rng(AttrNames(c)) |-> Read(c, pool[c][k], n)]]]

\* reads under other spellings, and the serialised values, all address the one stored value
SpellOK(e) == \A c \in ClassSet : \A k \in DOMAIN e.spell[c] : \A n \in Rng(AttrNames(c)) :
                 \A j \in DOMAIN e.spell[c][k][n] : e.spell[c][k][n][j] = Read(c, pool[c][k], n)

\* reflexive sorting is judged by what the property fixes: every member once, every
\* member followed by its successor, a lone ring starting at the set's first member
SortOK(o, r) ==
    LET c == o.c
        q == IF o.all THEN pool[c] ELSE o.sub
        exp == SortReflexive(c, q, o.rel, o.ph)
    IN IF exp.e # "" \/ r.e # "" THEN r.e = exp.e
       ELSE LET oph == OtherPhrase(c, o.rel, o.ph)[1]
                nxt(i) == NavFrom(c, i, c, o.rel, oph)
                prv(i) == NavFrom(c, i, c, o.rel, o.ph)
                heads == {i \in Rng(q) : prv(i) = <<>>}
                RECURSIVE Back(_, _, _)
                \* does following the successors of j lead back to i
                Back(i, j, fuel) == IF fuel = 0 \/ nxt(j) = <<>> THEN FALSE
                                    ELSE nxt(j)[1] = i \/ Back(i, nxt(j)[1], fuel - 1)
                onring == {i \in Rng(q) : Back(i, i, MaxI)}
                whole == \A i \in Rng(q) : Rng(nxt(i)) \subseteq Rng(q) /\ Rng(prv(i)) \subseteq Rng(q)
                indomain == /\ NoDup(q) /\ whole
                            /\ \A i \in Rng(q) : Len(nxt(i)) <= 1 /\ Len(prv(i)) <= 1
                            /\ (onring = {} \/ (onring = Rng(q) /\ \A i \in onring : (Back(i, q[1], MaxI) \/ i = q[1])))
            IN ~indomain \/
               IF onring = {}
               THEN /\ NoDup(r.r) /\ Rng(r.r) = Rng(q)
                    /\ \A k \in DOMAIN r.r :
                          /\ (nxt(r.r[k]) # <<>>) => (k < Len(r.r) /\ r.r[k + 1] = nxt(r.r[k])[1])
                          /\ (k = 1 \/ nxt(r.r[k - 1]) = <<>>) => r.r[k] \in heads
               ELSE /\ NoDup(r.r) /\ Rng(r.r) = Rng(q) /\ r.r[1] = q[1]
                    /\ \A k \in 1..(Len(r.r) - 1) : r.r[k + 1] = nxt(r.r[k])[1]

OneObsOK(o, r) == ~InDomain(o) \/ (IF o.k = "sort" THEN SortOK(o, r) ELSE Eval(o) = r)
ObsOK(e) == \A j \in DOMAIN e.q : OneObsOK(e.q[j], e.qr[j])

FirstBadObs(e) == LET b == {j \in DOMAIN e.q : ~OneObsOK(e.q[j], e.qr[j])}
                  IN IF b = {} THEN <<>> ELSE <<e.q[Min(b)], Eval(e.q[Min(b)])>>

\* serialisation writes an unset value as the null value of its type
NullOf(ty) == CASE ty = "UNIQUE_ID" -> "u:0" [] ty = "STRING" -> "s:" [] ty = "INTEGER" -> "i:0"
                [] ty = "REAL" -> "r:0.0" [] ty = "BOOLEAN" -> "b:0" [] OTHER -> "?"
SerOK(e) == \A c \in ClassSet : \A k \in DOMAIN e.ser[c] :
               LET row == ProjAttr[c][k] IN
               (\E n \in DOMAIN row : row[n] = "absent") \/
               \A n \in DOMAIN row : e.ser[c][k][n] = (IF row[n] = "unset" THEN NullOf(AttrType(c, n)) ELSE row[n])

\* an instance whose attribute was deleted cannot be printed, so the message of a
\* documented exception cannot be built: the rejection then surfaces as AttributeError
HasAbsent == \E c \in ClassSet : \E i \in Live(c) : \E n \in DOMAIN val[c][i] : val[c][i][n] = "absent"
ResOK(e) == res = e.res \/ (HasAbsent /\ res \in {"RelateException", "UnrelateException"} /\ e.res = "PY:AttributeError")

\* the schema of a loaded metamodel: classes with ordered typed attributes, unique
\* identifiers, associations with keys, multiplicity, conditionality and phrases
\* A class whose CREATE TABLE statement has not been accepted when the metamodel is built (e.undecl[c], given by the
\* schedule: "pos" / "named" = the first accepted row of the class is a positional / named insert, "none" = no row) is
\* inferred from that row: attributes _0, _1, ... (or the names given) with the type guessed from each value.
\* (e.infer[c], on a load event: the same for a population loaded without the CREATE TABLE statement of c; "ser" = as
\* serialize_instances writes it: positional, a boolean as 0 / 1, from which an integer is guessed)
Undecl(e, c) == IF "undecl" \in DOMAIN e /\ c \in DOMAIN e.undecl THEN e.undecl[c]
                ELSE IF "infer" \in DOMAIN e /\ c \in DOMAIN e.infer THEN (IF pool[c] = <<>> THEN "none" ELSE e.infer[c])
                ELSE "declared"
DeclAttrs(c) == [j \in DOMAIN Attrs[c] |-> <<Attrs[c][j].n, Attrs[c][j].t>>]
ExpAttrs(e, c) == CASE Undecl(e, c) = "pos" -> [j \in DOMAIN Attrs[c] |-> <<"_" \o ToString(j - 1), Attrs[c][j].t>>]
                    [] Undecl(e, c) = "ser" -> [j \in DOMAIN Attrs[c] |-> <<"_" \o ToString(j - 1),
                                                    IF Attrs[c][j].t = "BOOLEAN" THEN "INTEGER" ELSE Attrs[c][j].t>>]
                    [] Undecl(e, c) = "none" -> <<<<"?", "?">>>>
                    \* inferred from a named insert: the column names as the insert spells them (e.names, given by the schedule)
                    [] Undecl(e, c) = "named" /\ "names" \in DOMAIN e /\ c \in DOMAIN e.names ->
                          [j \in DOMAIN Attrs[c] |-> <<e.names[c][j], Attrs[c][j].t>>]
                    [] OTHER -> DeclAttrs(c)
SchemaOK(e) ==
    e.schema.extra = <<"-">> \/
    /\ e.schema.extra = <<>>
    /\ \A c \in ClassSet : /\ e.schema.attrs[c] = ExpAttrs(e, c)
                           /\ {e.schema.uniques[c][j] : j \in DOMAIN e.schema.uniques[c]}
                                = {<<Uniques[c][j].name, Uniques[c][j].attrs>> : j \in DOMAIN Uniques[c]}
                           /\ Len(e.schema.uniques[c]) = Len(Uniques[c])
    /\ {e.schema.assocs[j] : j \in DOMAIN e.schema.assocs} = {Assocs[a] : a \in AIdx}
    /\ Len(e.schema.assocs) = NA

\* after the rejected creation of an instance with an attribute of unknown type only
\* the outcome is fixed by the property (the trace ends there)
\* A metamodel's id generator is its own: what peek() shows changes only through calls that draw ids from it.
DrawsIds(e) == e.op \in {"New", "NewRow", "NewUnknown", "BuildFocus", "LoadBuild", "LoadInto", "SaveLoad", "GenNext", "Adopt"}
PeekOK(e) == "peek" \notin DOMAIN e \/ lastpeek = "" \/ DrawsIds(e) \/ e.peek = lastpeek
Conform(e) == IF e.op = "NewUnknown" \/ "nocheck" \in DOMAIN e THEN (IF res = e.res THEN "" ELSE "res") ELSE FirstBad(<<
    <<"res", ResOK(e)>>,
    <<"generator", PeekOK(e)>>,
    <<"observable", e.oerr = "">>,
    <<"pool", ProjPool = e.pool>>,
    <<"nav", ProjNav = e.nav>>,
    <<"attr", ProjAttr = e.attr>>,
    <<"schema", SchemaOK(e)>>,
    <<"fixpoint", e.fix # "no">>,
    <<"spelling", SpellOK(e)>>,
    <<"serialized", SerOK(e)>>,
    <<"query", ObsOK(e)>>
  >>)

\* a call outside the domain of the property ends the validation of its trace
Apply == /\ ph = 0 /\ TEnabled
         /\ Step(Ev)
         /\ stmts' = IF Ev.op = "Input" THEN stmts \o Ev.rows ELSE stmts
         /\ UNCHANGED lastpeek
         /\ IF res' = "OutOfDomain"
            THEN ph' = 0 /\ l' = TLen + 1 /\ tid' = tid /\ bad' = "" /\ PrintT(<<"DONE", tid>>)
            ELSE IF Admissible(Ev) THEN ph' = 1 /\ UNCHANGED tvars
                 ELSE ph' = 0 /\ Advance("admissible", <<>>)

Check == /\ ph = 1 /\ UNCHANGED <<vars, stmts>> /\ ph' = 0
         /\ lastpeek' = IF "peek" \in DOMAIN Ev /\ "nocheck" \notin DOMAIN Ev THEN Ev.peek ELSE lastpeek
         /\ LET b == Conform(Ev) IN
            Advance(b, IF b = "query" THEN FirstBadObs(Ev) ELSE <<res, ProjPool, ProjNav, ProjAttr>>)

TNext == Apply \/ Check
=============================================================================
