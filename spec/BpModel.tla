------------------------------- MODULE BpModel -------------------------------
(* What pyxtuml must extract from a BridgePoint class model (C14, C20).  The     *)
(* model is an abstract class diagram d:                                         *)
(*   d.classes : sequence of [kl, comp, attrs : sequence of [n, k, ty], ids :    *)
(*               sequence of sequences of attribute names]                       *)
(*               (k = "base" | "derived" | "ref"; ty = data type name)           *)
(*   d.rels    : sequence of relationships                                       *)
(*               simple  [k, num, comp, form, part, fm, fc, pm, pc, fph, pph, keys] *)
(*               linked  [k, num, comp, one, oth, link, om, oc, oph, tm, tc, tph,  *)
(*                        okeys, tkeys]                                          *)
(*               subsup  [k, num, comp, sup, subs, keys : [sub |-> pairs]]       *)
(*               (keys = sequence of <<referential attribute, identifying attr>>) *)
(*   d.udts    : sequence of [n, base, comp];  d.enums : sequence of [n, items, comp] *)
(* Component(d, root, derived) is the set of class, identifier and association   *)
(* definitions of the built component; Xsd(d, root) the declarations of its      *)
(* schema.  root = "" means the whole model.                                     *)
EXTENDS Naturals, Sequences, FiniteSets, TLC

Rng(q) == {q[i] : i \in DOMAIN q}
Core == {"boolean", "integer", "real", "string", "unique_id"}
Upper(ty) == CASE ty = "boolean" -> "BOOLEAN" [] ty = "integer" -> "INTEGER" [] ty = "real" -> "REAL"
               [] ty = "string" -> "STRING" [] ty = "unique_id" -> "UNIQUE_ID" [] OTHER -> ""
DigitStr == <<"0", "1", "2", "3", "4", "5", "6", "7", "8", "9">>
RECURSIVE NatStr(_)
NatStr(n) == IF n < 10 THEN DigitStr[n + 1] ELSE NatStr(n \div 10) \o DigitStr[(n % 10) + 1]

ClassOf(d, kl) == CHOOSE c \in Rng(d.classes) : c.kl = kl
AttrOf(d, kl, n) == CHOOSE a \in Rng(ClassOf(d, kl).attrs) : a.n = n
IsEnum(d, ty) == \E u \in Rng(d.enums) : u.n = ty
IsUdt(d, ty) == \E u \in Rng(d.udts) : u.n = ty
UdtBase(d, ty) == (CHOOSE u \in Rng(d.udts) : u.n = ty).base

\* the pyxtuml type of a data type: core types by name, enumerations as integers,
\* user types as their base; "" for anything else (such attributes are left out)
RECURSIVE TypeName(_, _, _)
TypeName(d, ty, fuel) ==
    IF ty \in Core THEN Upper(ty)
    ELSE IF IsEnum(d, ty) THEN "INTEGER"
    ELSE IF IsUdt(d, ty) /\ fuel > 0 THEN TypeName(d, UdtBase(d, ty), fuel - 1)
    ELSE ""

\* per relationship: the referring class, the referred class and the key pairs
Formalisations(r) ==
    CASE r.k = "simple" -> <<[src |-> r.form, tgt |-> r.part, pairs |-> r.keys]>>
      [] r.k = "linked" -> <<[src |-> r.link, tgt |-> r.one, pairs |-> r.okeys], [src |-> r.link, tgt |-> r.oth, pairs |-> r.tkeys]>>
      [] r.k = "subsup" -> [i \in DOMAIN r.subs |-> [src |-> r.subs[i], tgt |-> r.sup, pairs |-> r.keys[r.subs[i]]]]

\* the attribute a referential attribute refers to: the first formalisation (relationship order) that uses it
RefTargets(d, kl, n) ==
    LET RECURSIVE Scan(_)
        Scan(i) == IF i > Len(d.rels) THEN <<>>
                   ELSE LET fs == Formalisations(d.rels[i])
                            hit == {j \in DOMAIN fs : fs[j].src = kl /\ \E p \in Rng(fs[j].pairs) : p[1] = n}
                        IN IF hit = {} THEN Scan(i + 1)
                           ELSE LET j == CHOOSE x \in hit : \A y \in hit : x <= y
                                    p == CHOOSE q \in Rng(fs[j].pairs) : q[1] = n
                                IN <<[kl |-> fs[j].tgt, n |-> p[2]]>>
    IN Scan(1)

RECURSIVE AttrType(_, _, _, _)
AttrType(d, kl, n, fuel) ==
    LET a == AttrOf(d, kl, n) IN
    IF a.k = "ref" THEN (IF fuel = 0 \/ RefTargets(d, kl, n) = <<>> THEN ""
                         ELSE LET t == RefTargets(d, kl, n)[1] IN AttrType(d, t.kl, t.n, fuel - 1))
    ELSE TypeName(d, a.ty, 8)

\* components may be nested: d.nest is a sequence of <<component, the component it is nested in>> (absent = none);
\* what a component contains is what it or a component nested in it (at any depth) holds
Nest(d) == IF "nest" \in DOMAIN d THEN d.nest ELSE <<>>
RECURSIVE Within(_, _, _, _)
Within(d, c, root, fuel) == c = root \/ (fuel > 0 /\ \E p \in Rng(Nest(d)) : p[1] = c /\ Within(d, p[2], root, fuel - 1))
InScope(d, x, root) == root = "" \/ (x.comp # "" /\ Within(d, x.comp, root, 8))

\* attributes of a class in modeled order, with core types; derived attributes only on request
ClassDef(d, c, derived) ==
    LET keep == SelectSeq(c.attrs, LAMBDA a : (derived \/ a.k # "derived") /\ AttrType(d, c.kl, a.n, 8) # "")
    IN [i \in DOMAIN keep |-> <<keep[i].n, AttrType(d, c.kl, keep[i].n, 8)>>]

HasDerived(d, c, names) == \E n \in Rng(names) : AttrOf(d, c.kl, n).k = "derived"
\* (an identifier without attributes - BridgePoint keeps three slots per class - is not a modeled identifier; the numbering
\* follows the slots)
UniqueDefs(d, c, derived) ==
    {<<"I" \o NatStr(k), Rng(c.ids[k])>> : k \in {j \in DOMAIN c.ids : c.ids[j] # <<>> /\ (derived \/ ~HasDerived(d, c, c.ids[j]))}}

Assoc(num, src, tgt, pairs, smany, scond, tmany, tcond, sph, tph) ==
    [rel |-> "R" \o NatStr(num), src |-> src, tgt |-> tgt, pairs |-> Rng(pairs), smany |-> smany, scond |-> scond,
     tmany |-> tmany, tcond |-> tcond, sphrase |-> sph, tphrase |-> tph]

AssocDefs(r) ==
    CASE r.k = "simple" ->
            \* the formalising class is the source; phrases only matter when the relationship is reflexive
            {Assoc(r.num, r.form, r.part, r.keys, r.fm = 1, r.fc = 1, r.pm = 1, r.pc = 1,
                   IF r.form = r.part THEN r.pph ELSE "", IF r.form = r.part THEN r.fph ELSE "")}
      [] r.k = "linked" ->
            \* two associations from the link class; each carries the multiplicity of the opposite side
            {Assoc(r.num, r.link, r.one, r.okeys, r.tm = 1, r.tc = 1, FALSE, FALSE,
                   IF r.one = r.oth THEN r.oph ELSE "", IF r.one = r.oth THEN r.tph ELSE ""),
             Assoc(r.num, r.link, r.oth, r.tkeys, r.om = 1, r.oc = 1, FALSE, FALSE,
                   IF r.one = r.oth THEN r.tph ELSE "", IF r.one = r.oth THEN r.oph ELSE "")}
      [] r.k = "subsup" ->
            {Assoc(r.num, r.subs[i], r.sup, r.keys[r.subs[i]], FALSE, TRUE, FALSE, FALSE, "", "") : i \in DOMAIN r.subs}

Component(d, root, derived) ==
    LET cs == {c \in Rng(d.classes) : InScope(d, c, root)}
    IN [classes |-> {<<c.kl, ClassDef(d, c, derived)>> : c \in cs},
        uniques |-> {<<c.kl, UniqueDefs(d, c, derived)>> : c \in cs},
        assocs |-> UNION {AssocDefs(r) : r \in {x \in Rng(d.rels) : InScope(d, x, root)}}]

-----------------------------------------------------------------------------
(* XSD (C20): one element per class of the component with one attribute per      *)
(* non-derived attribute of a supported type, typed by the base data type of the *)
(* (referred) attribute; one simple type per core, enumeration and user type.    *)
RECURSIVE BaseType(_, _, _)
\* user types are followed to their base; core and enumeration names are kept; "" = unsupported
BaseType(d, ty, fuel) ==
    IF ty \in Core \/ IsEnum(d, ty) THEN ty
    ELSE IF IsUdt(d, ty) /\ fuel > 0 THEN BaseType(d, UdtBase(d, ty), fuel - 1)
    ELSE ""
RECURSIVE RootAttr(_, _, _, _)
RootAttr(d, kl, n, fuel) ==
    LET a == AttrOf(d, kl, n) IN
    IF a.k = "ref" /\ fuel > 0 /\ RefTargets(d, kl, n) # <<>>
    THEN LET t == RefTargets(d, kl, n)[1] IN RootAttr(d, t.kl, t.n, fuel - 1)
    ELSE [kl |-> kl, n |-> n]
XsdAttrType(d, kl, n) == LET r == RootAttr(d, kl, n, 8)
                             a == AttrOf(d, r.kl, r.n)
                         IN IF a.k = "ref" THEN "" ELSE BaseType(d, a.ty, 8)
XsdElement(d, c) == {<<a.n, XsdAttrType(d, c.kl, a.n)>> : a \in {x \in Rng(c.attrs) : x.k # "derived" /\ XsdAttrType(d, c.kl, x.n) # ""}}
XsType(ty) == CASE ty = "boolean" -> "xs:boolean" [] ty = "integer" -> "xs:integer" [] ty = "real" -> "xs:decimal"
                [] ty = "string" -> "xs:string" [] ty = "unique_id" -> "xs:integer"
TypeNameOf(d, ty) == IF ty \in Core \/ IsEnum(d, ty) \/ IsUdt(d, ty) THEN ty ELSE ""
\* data types of the model are in scope when global (outside every component) or inside the component
TypeInScope(d, u, root) == u.comp = "" \/ Within(d, u.comp, root, 8)
Xsd(d, root) ==
    [elements |-> {<<c.kl, XsdElement(d, c)>> : c \in {x \in Rng(d.classes) : x.comp # "" /\ Within(d, x.comp, root, 8)}},
     core |-> {<<ty, XsType(ty)>> : ty \in Core},
     enums |-> {<<u.n, u.items>> : u \in {x \in Rng(d.enums) : TypeInScope(d, x, root)}},
     udts |-> {<<u.n, TypeNameOf(d, u.base)>> : u \in {x \in Rng(d.udts) : TypeInScope(d, x, root) /\ TypeNameOf(d, x.base) # ""}}]
=============================================================================
