------------------------------- MODULE OalType -------------------------------
(* What prebuilding an OAL body must put into the Body / Value subsystems (C06): *)
(* for every statement its kind, the block it belongs to and its predecessor in   *)
(* that block; for every value its OAL type; for every variable its type and the  *)
(* block that declares it; for every invocation the succession of its parameters. *)
(* Everything is derived from the syntax tree (OalSyntax.tla) and the declared     *)
(* types of the model; positions are token ranges (OalSyntax!Ranges).              *)
EXTENDS OalSyntax

CONSTANTS AttrTypes,     \* [key letters |-> [attribute |-> data type name]]
          ParamTypes,    \* [parameter |-> data type name] of the action's own parameters
          RetTypes,      \* [callable name |-> data type name] ("fact", "A::cop", "EE1::br", "A.iop")
          ConstTypes,    \* [constant name |-> data type name]
          NavTarget      \* not used for typing; kept for documentation of the class model

\* instance-reference data types: the model declares one pair per class; `selected` is typed generically
InstTy == "inst_ref<Object>"
InstTyOf(c) == "inst_ref<" \o c \o ">"
SetTyOf(c) == "inst_ref_set<" \o c \o ">"
RelOps == CmpOps \cup {"and", "or"}
IsSignal(inv) == inv.t = "icall" /\ RetTypes[inv.ns \o "::" \o inv.n] = "signal"
EvTy == "inst<Event>"
CreateEventStmts == {"create_ev_class", "create_ev_inst"}
EventStmts == {"gen_class", "gen_inst"} \cup CreateEventStmts

\* a typing environment maps a variable to [ty |-> data type name, c |-> key letters ("" for scalars)]
TV(ty, c) == [ty |-> ty, c |-> c]
Bind(env, n, v) == [x \in (DOMAIN env) \cup {n} |-> IF x = n THEN v ELSE env[x]]

RECURSIVE TypeOf(_, _, _)
\* type of an expression: [ty, c]; self and selected are looked up as variables "self" / "selected"
TypeOf(e, env, home) ==
    CASE e.t = "int" -> TV("integer", "")
      [] e.t = "real" -> TV("real", "")
      [] e.t = "str" -> TV("string", "")
      [] e.t = "bool" -> TV("boolean", "")
      [] e.t = "paren" -> TypeOf(e.e, env, home)
      [] e.t = "var" -> IF e.n \in DOMAIN env THEN env[e.n] ELSE TV("", "")
      [] e.t = "self" -> TV(InstTyOf(home), home)
      [] e.t = "selected" -> IF "selected" \in DOMAIN env THEN env["selected"] ELSE TV(InstTy, "")
      [] e.t = "param" -> TV(ParamTypes[e.n], "")
      [] e.t = "enum" -> IF e.n \in DOMAIN ConstTypes THEN TV(ConstTypes[e.n], "") ELSE TV(e.ns, "")
      [] e.t = "field" -> LET h == TypeOf(e.h, env, home) IN TV(AttrTypes[h.c][e.n], "")
      \* an array element has the type of the array (of the variable it is an element of)
      [] e.t = "index" -> TypeOf(e.h, env, home)
      [] e.t = "un" -> IF e.op \in {"not", "empty", "not_empty"} THEN TV("boolean", "")
                       ELSE IF e.op = "cardinality" THEN TV("integer", "")
                       ELSE TypeOf(e.e, env, home)
      [] e.t = "bin" -> IF e.op \in RelOps THEN TV("boolean", "") ELSE TypeOf(e.l, env, home)
      [] e.t = "fcall" -> TV(RetTypes[e.n], "")
      [] e.t = "icall" -> TV(RetTypes[e.ns \o "::" \o e.n], "")
      [] e.t = "ocall" -> LET h == TypeOf(e.h, env, home) IN TV(RetTypes[h.c \o "." \o e.n], "")

-----------------------------------------------------------------------------
(* One entry per node of OalSyntax!Ranges, in the same pre-order:                 *)
(*   [val |-> the node is a value instance, ty |-> its type]  for expressions      *)
(*   [val |-> FALSE, ty |-> ""]                               for statements        *)
\* lit: the keyword-valued attribute of the value instance (operator of a binary / unary operation, TRUE / FALSE of a boolean
\* literal) in its canonical letter case, "" for the others
EntL(isval, ty, lit) == [val |-> isval, ty |-> ty, lit |-> lit]
Ent(isval, ty) == EntL(isval, ty, "")

RECURSIVE EE(_, _, _, _), EPs(_, _, _)
\* entries of expression e; `asval`: the node itself becomes a value instance
EE(e, env, home, asval) ==
    CASE e.t = "paren" -> EE(e.e, env, home, asval)
      [] e.t = "bin" -> <<EntL(asval, TypeOf(e, env, home).ty, e.op)>> \o EE(e.l, env, home, TRUE) \o EE(e.r, env, home, TRUE)
      [] e.t = "un" -> <<EntL(asval, TypeOf(e, env, home).ty, e.op)>> \o EE(e.e, env, home, TRUE)
      [] e.t = "bool" -> <<EntL(asval, "boolean", IF e.v = "true" THEN "TRUE" ELSE "FALSE")>>
      [] e.t = "field" -> <<Ent(asval, TypeOf(e, env, home).ty)>> \o EE(e.h, env, home, TRUE)
      [] e.t = "index" -> <<Ent(asval, TypeOf(e, env, home).ty)>> \o EE(e.h, env, home, TRUE) \o EE(e.e, env, home, TRUE)
      [] e.t \in {"fcall", "icall"} -> <<Ent(asval, TypeOf(e, env, home).ty)>> \o EPs(e.ps, env, home)
      [] e.t = "ocall" -> <<Ent(asval, TypeOf(e, env, home).ty)>> \o EE(e.h, env, home, TRUE) \o EPs(e.ps, env, home)
      [] OTHER -> <<Ent(asval, TypeOf(e, env, home).ty)>>
EPs(ps, env, home) == IF ps = <<>> THEN <<>> ELSE EE(ps[1].e, env, home, TRUE) \o EPs(Tail(ps), env, home)

\* the class a navigation chain ends in
ChainEnd(ch) == ch[Len(ch)].k

\* the variable an assignment declares when it is new: the target itself, or the array whose element the target is
RECURSIVE RootOf(_)
RootOf(e) == IF e.t = "index" THEN RootOf(e.h) ELSE e

RECURSIVE ES(_, _, _), EB(_, _, _), EElifs(_, _, _)
\* entries of a statement and the environment after it: [es, env]
EB(b, env, home) == IF b = <<>> THEN [es |-> <<>>, env |-> env]
                    ELSE LET X == ES(b[1], env, home)
                             R == EB(Tail(b), X.env, home)
                         IN [es |-> X.es \o R.es, env |-> R.env]
EElifs(es, env, home) ==
    IF es = <<>> THEN <<>>
    ELSE EE(es[1].c, env, home, TRUE) \o EB(es[1].b, env, home).es \o EElifs(Tail(es), env, home)
ES(s, env, home) ==
    LET own == <<Ent(FALSE, "")>> IN
    CASE s.t = "assign" ->
            LET rt == TypeOf(s.e, env, home)
                root == RootOf(s.lhs)
                env2 == IF root.t = "var" /\ root.n \notin DOMAIN env THEN Bind(env, root.n, rt) ELSE env
            IN [es |-> own \o EE(s.lhs, env2, home, TRUE) \o EE(s.e, env, home, TRUE), env |-> env2]
      \* the invocation of an invocation statement is a value as well (typed by what the callable returns)
      \* (a signal across a port has no value: RetTypes says "signal")
      [] s.t = "call" -> [es |-> own \o EE(s.inv, env, home, ~IsSignal(s.inv)), env |-> env]
      \* a signal sent to a target: the arguments and the target are values
      [] s.t = "send_event" -> [es |-> own \o EPs(s.ps, env, home) \o EE(s.to, env, home, TRUE), env |-> env]
      [] s.t = "return" -> [es |-> own \o (IF s.has THEN EE(s.e, env, home, TRUE) ELSE <<>>), env |-> env]
      [] s.t = "if" -> [es |-> own \o EE(s.c, env, home, TRUE) \o EB(s.b, env, home).es \o EElifs(s.elifs, env, home)
                                \o (IF s.haselse THEN EB(s.els, env, home).es ELSE <<>>), env |-> env]
      [] s.t = "while" -> [es |-> own \o EE(s.c, env, home, TRUE) \o EB(s.b, env, home).es, env |-> env]
      [] s.t = "for" -> LET env2 == Bind(env, s.v, TV(InstTyOf(env[s.s].c), env[s.s].c))
                        IN [es |-> own \o EB(s.b, env2, home).es, env |-> env2]
      [] s.t = "create" -> [es |-> own, env |-> Bind(env, s.v, TV(InstTyOf(s.k), s.k))]
      [] s.t = "select_from" ->
            LET envw == Bind(env, "selected", TV(InstTy, s.k))
            IN [es |-> own \o (IF s.haswhere THEN EE(s.w, envw, home, TRUE) ELSE <<>>),
                env |-> Bind(env, s.v, TV(IF s.card = "many" THEN SetTyOf(s.k) ELSE InstTyOf(s.k), s.k))]
      [] s.t = "select_related" ->
            LET k == ChainEnd(s.chain)
                envw == Bind(env, "selected", TV(InstTy, k))
            IN [es |-> own \o EE(s.h, env, home, TRUE) \o (IF s.haswhere THEN EE(s.w, envw, home, TRUE) ELSE <<>>),
                env |-> Bind(env, s.v, TV(IF s.card = "many" THEN SetTyOf(k) ELSE InstTyOf(k), k))]
      \* event statements: the values of the data items are value instances; the receiving variable (or self) is a
      \* variable, not a value; a create event statement declares its event variable (type inst<Event>) when it is new
      [] s.t \in EventStmts ->
            [es |-> own \o EPs(s.ev.data, env, home) \o (IF s.t \in {"gen_inst", "create_ev_inst"} THEN <<Ent(FALSE, "")>> ELSE <<>>),
             env |-> IF s.t \in CreateEventStmts /\ s.v \notin DOMAIN env THEN Bind(env, s.v, TV(EvTy, "")) ELSE env]
      \* generating an event instance created before reads the event variable
      [] s.t = "gen_pre" -> [es |-> own \o EE(s.e, env, home, TRUE), env |-> env]
      [] OTHER -> [es |-> own, env |-> env]

Entries(body, home) == EB(body, <<>>, home).es

-----------------------------------------------------------------------------
(* statements: for each statement (pre-order) the range of its predecessor in its *)
(* block (<<>> for the first) and the range of the first statement of its block    *)
RECURSIVE SB(_, _), SS(_, _, _, _)
SB(b, a) ==
    LET RECURSIVE Walk(_, _, _, _)
        Walk(i, at, prev, first) ==
            IF i > Len(b) THEN <<>>
            ELSE LET n == Len(US(b[i]))
                     me == [a |-> at, b |-> at + n - 1]
                     fst == IF i = 1 THEN me ELSE first
                 IN SS(b[i], at, prev, fst) \o Walk(i + 1, at + n + 1, <<me>>, fst)
    IN Walk(1, a, <<>>, [a |-> a, b |-> a])
\* entries of statement s at token index a, then those of its nested blocks
SS(s, a, prev, first) ==
    LET me == <<[k |-> s.t, tag |-> IF s.t \in {"select_from", "select_related"} THEN s.card ELSE "",
                links |-> IF s.t = "select_related" THEN [i \in DOMAIN s.chain |-> <<s.chain[i].k, s.chain[i].rel, s.chain[i].ph>>] ELSE <<>>,
                a |-> a, b |-> a + Len(US(s)) - 1, prev |-> prev, first |-> first]>> IN
    CASE s.t = "if" ->
            LET cn == Len(UE(s.c))
                b0 == a + 1 + cn + 1
                RECURSIVE El(_, _)
                El(k, at) == IF k > Len(s.elifs) THEN [es |-> <<>>, at |-> at]
                             ELSE LET c2 == Len(UE(s.elifs[k].c))
                                      bb == at + 1 + c2 + 1
                                      R == El(k + 1, bb + Len(UB(s.elifs[k].b)))
                                  IN [es |-> SB(s.elifs[k].b, bb) \o R.es, at |-> R.at]
                E == El(1, b0 + Len(UB(s.b)))
            IN me \o SB(s.b, b0) \o E.es \o (IF s.haselse THEN SB(s.els, E.at + 1) ELSE <<>>)
      [] s.t = "while" -> me \o SB(s.b, a + 1 + Len(UE(s.c)) + 1)
      [] s.t = "for" -> me \o SB(s.b, a + 6)
      [] OTHER -> me

StmtInfo(body) == SB(body, 1)

\* the variables an action declares: name, type, and the first statement of the declaring block
RECURSIVE VB(_, _, _, _), VS(_, _, _, _)
\* [vs, env]; `first` = range of the first statement of the current block; `a` = token index
VB(b, a, env, home) ==
    LET RECURSIVE Walk(_, _, _, _)
        Walk(i, at, e, first) ==
            IF i > Len(b) THEN [vs |-> <<>>, env |-> e]
            ELSE LET n == Len(US(b[i]))
                     fst == IF i = 1 THEN [a |-> at, b |-> at + n - 1] ELSE first
                     X == VS(b[i], at, e, <<fst, home>>)
                     R == Walk(i + 1, at + n + 1, X.env, fst)
                 IN [vs |-> X.vs \o R.vs, env |-> R.env]
    IN Walk(1, a, env, [a |-> a, b |-> a])
VS(s, a, env, ctx) ==
    LET first == ctx[1]
        home == ctx[2]
        decl(n, tv) == IF n \in DOMAIN env THEN <<>> ELSE <<[n |-> n, ty |-> tv.ty, first |-> first]>>
    IN
    CASE s.t = "assign" /\ RootOf(s.lhs).t = "var" ->
            LET tv == TypeOf(s.e, env, home)
                n == RootOf(s.lhs).n
            IN [vs |-> decl(n, tv), env |-> IF n \in DOMAIN env THEN env ELSE Bind(env, n, tv)]
      [] s.t = "create" -> [vs |-> decl(s.v, TV(InstTyOf(s.k), s.k)), env |-> Bind(env, s.v, TV(InstTyOf(s.k), s.k))]
      [] s.t \in CreateEventStmts -> [vs |-> decl(s.v, TV(EvTy, "")), env |-> IF s.v \in DOMAIN env THEN env ELSE Bind(env, s.v, TV(EvTy, ""))]
      [] s.t = "select_from" ->
            LET tv == TV(IF s.card = "many" THEN SetTyOf(s.k) ELSE InstTyOf(s.k), s.k) IN [vs |-> decl(s.v, tv), env |-> Bind(env, s.v, tv)]
      [] s.t = "select_related" ->
            LET tv == TV(IF s.card = "many" THEN SetTyOf(ChainEnd(s.chain)) ELSE InstTyOf(ChainEnd(s.chain)), ChainEnd(s.chain)) IN [vs |-> decl(s.v, tv), env |-> Bind(env, s.v, tv)]
      [] s.t = "for" ->
            \* the loop variable is declared in the block that contains the loop
            LET tv == TV(InstTyOf(env[s.s].c), env[s.s].c)
                env2 == Bind(env, s.v, tv)
            IN [vs |-> decl(s.v, tv) \o VB(s.b, a + 6, env2, home).vs, env |-> env2]
      [] s.t = "while" -> [vs |-> VB(s.b, a + 1 + Len(UE(s.c)) + 1, env, home).vs, env |-> env]
      [] s.t = "if" ->
            LET cn == Len(UE(s.c))
                b0 == a + 1 + cn + 1
                RECURSIVE El(_, _)
                El(k, at) == IF k > Len(s.elifs) THEN [vs |-> <<>>, at |-> at]
                             ELSE LET bb == at + 1 + Len(UE(s.elifs[k].c)) + 1
                                      R == El(k + 1, bb + Len(UB(s.elifs[k].b)))
                                  IN [vs |-> VB(s.elifs[k].b, bb, env, home).vs \o R.vs, at |-> R.at]
                E == El(1, b0 + Len(UB(s.b)))
            IN [vs |-> VB(s.b, b0, env, home).vs \o E.vs \o (IF s.haselse THEN VB(s.els, E.at + 1, env, home).vs ELSE <<>>), env |-> env]
      [] OTHER -> [vs |-> <<>>, env |-> env]

VarInfo(body, home) == VB(body, 1, <<>>, home).vs

\* succession of the parameters of every invocation: pairs <<name, name of the next one or "">>
RECURSIVE PE(_), PPs(_), PS(_), PBk(_)
Chain(ps) == [i \in DOMAIN ps |-> <<ps[i].n, IF i < Len(ps) THEN ps[i + 1].n ELSE "">>]
PPs(ps) == IF ps = <<>> THEN <<>> ELSE PE(ps[1].e) \o PPs(Tail(ps))
PE(e) == CASE e.t = "paren" -> PE(e.e)
           [] e.t = "bin" -> PE(e.l) \o PE(e.r)
           [] e.t = "un" -> PE(e.e)
           [] e.t = "field" -> PE(e.h)
           [] e.t = "index" -> PE(e.h) \o PE(e.e)
           [] e.t \in {"fcall", "icall", "ocall"} -> Chain(e.ps) \o PPs(e.ps)
           [] OTHER -> <<>>
PBk(b) == IF b = <<>> THEN <<>> ELSE PS(b[1]) \o PBk(Tail(b))
PS(s) == CASE s.t = "assign" -> PE(s.lhs) \o PE(s.e)
           [] s.t = "call" -> PE(s.inv)
           [] s.t = "return" -> IF s.has THEN PE(s.e) ELSE <<>>
           [] s.t = "if" -> PE(s.c) \o PBk(s.b) \o PBk([i \in DOMAIN s.elifs |-> [t |-> "if", c |-> s.elifs[i].c, b |-> s.elifs[i].b,
                                                                                   elifs |-> <<>>, haselse |-> FALSE, els |-> <<>>]])
                            \o (IF s.haselse THEN PBk(s.els) ELSE <<>>)
           [] s.t = "while" -> PE(s.c) \o PBk(s.b)
           [] s.t = "for" -> PBk(s.b)
           [] s.t \in {"select_from", "select_related"} -> IF s.haswhere THEN PE(s.w) ELSE <<>>
           \* the data items of an event specification succeed one another like the parameters of an invocation
           [] s.t \in EventStmts -> Chain(s.ev.data) \o PPs(s.ev.data)
           [] s.t = "send_event" -> Chain(s.ps) \o PPs(s.ps) \o PE(s.to)
           [] OTHER -> <<>>
ParamPairs(body) == PBk(body)
=============================================================================
