------------------------------ MODULE OalTypeTrace ------------------------------
(* Validates the population that prebuilding an action created (C06) against      *)
(* OalType.tla.  Event as for OalTrace plus home, consistent and                   *)
(* facts |-> [stmts, vals, vars, ppairs, subtype_counts].                          *)
EXTENDS OalType, TraceBase

VARIABLE dummy
TInit == TBaseInit /\ dummy = 0

Rng(q) == {q[i] : i \in DOMAIN q}
HomeClass(e) == IF e.home \in {"op", "derived", "state", "transition"} THEN "A" ELSE ""
FirstPresent(tp, a, b) == CHOOSE i \in a..b : tp[i].p /\ \A j \in a..(i - 1) : ~tp[j].p
LastPresent(tp, a, b) == CHOOSE i \in a..b : tp[i].p /\ \A j \in (i + 1)..b : ~tp[j].p
StartOf(tp, r) == <<tp[FirstPresent(tp, r.a, r.b)].sl, tp[FirstPresent(tp, r.a, r.b)].sc>>
EndCol(tp, r) == tp[LastPresent(tp, r.a, r.b)].ec

ExpStmts(e) == {[k |-> s.k, tag |-> s.tag, links |-> s.links, line |-> StartOf(e.tokpos, s)[1], sc |-> StartOf(e.tokpos, s)[2], ec |-> EndCol(e.tokpos, s),
                 prev |-> IF s.prev = <<>> THEN <<>> ELSE StartOf(e.tokpos, s.prev[1]),
                 first |-> StartOf(e.tokpos, s.first)] : s \in Rng(StmtInfo(e.src))}
ExpVals(e) == LET rs == Ranges(e.src)
                  es == Entries(e.src, HomeClass(e))
              IN {[line |-> StartOf(e.tokpos, rs[i])[1], sc |-> StartOf(e.tokpos, rs[i])[2], ec |-> EndCol(e.tokpos, rs[i]),
                   ty |-> es[i].ty, lit |-> es[i].lit] : i \in {j \in DOMAIN rs : es[j].val}}
ExpVars(e) == {[n |-> v.n, ty |-> v.ty, first |-> StartOf(e.tokpos, v.first)] : v \in Rng(VarInfo(e.src, HomeClass(e)))}
Count(q, x) == Cardinality({i \in DOMAIN q : q[i] = x})
BagEq(p, q) == Len(p) = Len(q) /\ \A x \in Rng(p) \cup Rng(q) : Count(p, x) = Count(q, x)
\* the implicit variables of the homes (self, selected) are not variables of the body
OwnVars(e) == {v \in Rng(e.facts.vars) : v.n \notin {"self", "selected", "Self", "Selected", "SELF", "SELECTED"}}

RECURSIVE SumLinks(_)
SumLinks(q) == IF q = <<>> THEN 0 ELSE Len(Head(q).links) + SumLinks(Tail(q))
Conform(e) == IF e.err # "" THEN "prebuilds" ELSE FirstBad(<<
    <<"prebuilds", e.err = "">>,
    <<"consistent", e.consistent # "no">>,
    <<"one_subtype", \A i \in DOMAIN e.facts.subtype_counts : e.facts.subtype_counts[i] = 1>>,
    <<"entries", Len(Ranges(e.src)) = Len(Entries(e.src, HomeClass(e)))>>,
    <<"statements", Rng(e.facts.stmts) = ExpStmts(e) /\ Len(e.facts.stmts) = Cardinality(ExpStmts(e))>>,
    \* every navigation step belongs to the chain of its statement (the chains themselves are part of "statements")
    <<"links", e.facts.nlinks = SumLinks(StmtInfo(e.src))>>,
    <<"values", Rng(e.facts.vals) = ExpVals(e)>>,
    <<"variables", OwnVars(e) = ExpVars(e)>>,
    <<"parameters", BagEq(e.facts.ppairs, ParamPairs(e.src))>>,
    \* C08: the keyword-valued attributes are stored in one letter case whatever the case of the source text
    <<"keyword_case", e.strict = "no" \/ \A i \in DOMAIN e.facts.rawkw : e.facts.rawkw[i][1] = e.facts.rawkw[i][2]>>,
    \* C08: the population is a function of the tokens and their positions; e.casediff lists the instances (all attribute
    \* values except identifiers) by which it differs from the one prebuilt from the same text with lower-case keywords
    <<"case_independent", e.casediff = <<>>>>
  >>)

TNext == /\ TEnabled /\ UNCHANGED dummy
         /\ LET b == Conform(Ev) IN
            Advance(b, CASE b = "statements" -> <<ExpStmts(Ev) \ Rng(Ev.facts.stmts), Rng(Ev.facts.stmts) \ ExpStmts(Ev)>>
                         [] b = "values" -> <<ExpVals(Ev) \ Rng(Ev.facts.vals), Rng(Ev.facts.vals) \ ExpVals(Ev)>>
                         [] b = "variables" -> <<ExpVars(Ev) \ OwnVars(Ev), OwnVars(Ev) \ ExpVars(Ev)>>
                         [] b = "parameters" -> <<ParamPairs(Ev.src)>>
                         [] OTHER -> <<>>)
=============================================================================
