----------------------------- MODULE LoadIOTrace -----------------------------
(* Validates traces recorded from a real ModelLoader against LoadIO.tla.        *)
(* Event: [op |-> "Input" | "Build", res, n (len(loader.statements) afterwards), *)
(*         c (every statement the loader holds afterwards, written out in full), *)
(*         twin (does a twin loader fed only the accepted texts build the same)] *)
EXTENDS LoadIO, TraceBase

TInit == Init /\ TBaseInit

\* the statements an accepted text added: what the loader holds beyond what it held (nothing when the recorded content
\* does not continue the old one - the clause `content` then names the difference)
Added(e) == IF IsPrefixOf(content, e.c) THEN SubSeq(e.c, Len(content) + 1, Len(e.c)) ELSE <<>>

Step(e) ==
    CASE e.op = "Input" -> IF e.res = "accepted" THEN Accept(Added(e)) ELSE RejectInput
      [] e.op = "Build" -> IF e.res \in BuildOutcomes THEN Build(e.res) ELSE Build("built")

Conform(e) == FirstBad(<<
    <<"outcome", res' = e.res>>,          \* only the documented outcomes exist in the specification
    <<"statements", n' = e.n>>,
    \* the statements held before the call are there afterwards, each exactly as it was
    <<"content", content' = e.c>>,
    <<"twin", e.twin>>,
    \* a rejected text is rejected by a loader that never saw the earlier rejected texts, too
    <<"history_independent", e.fresh>>
  >>)

TNext == /\ TEnabled
         /\ Step(Ev)
         /\ Advance(Conform(Ev), <<res', n', content'>>)
=============================================================================
