----------------------------- MODULE LoadIOTrace -----------------------------
(* Validates traces recorded from a real ModelLoader against LoadIO.tla.        *)
(* Event: [op |-> "Input" | "Build", res, n (len(loader.statements) afterwards), *)
(*         twin (does a twin loader fed only the accepted texts build the same)] *)
EXTENDS LoadIO, TraceBase

TInit == Init /\ TBaseInit

Step(e) ==
    CASE e.op = "Input" -> IF e.res = "accepted" THEN (e.n >= n /\ Accept(e.n - n)) \/ (e.n < n /\ Accept(0))
                           ELSE RejectInput
      [] e.op = "Build" -> IF e.res \in BuildOutcomes THEN Build(e.res) ELSE Build("built")

Conform(e) == FirstBad(<<
    <<"outcome", res' = e.res>>,          \* only the documented outcomes exist in the specification
    <<"statements", n' = e.n>>,
    <<"twin", e.twin>>,
    \* a rejected text is rejected by a loader that never saw the earlier rejected texts, too
    <<"history_independent", e.fresh>>
  >>)

TNext == /\ TEnabled
         /\ Step(Ev)
         /\ Advance(Conform(Ev), <<res', n'>>)
=============================================================================
