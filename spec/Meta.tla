-------------------------------- MODULE Meta --------------------------------
(* xtuml.meta: a metamodel (classes, associations, unique identifiers) with its *)
(* instance pools, attribute values and the two directed link maps of every    *)
(* association, and every public mutation as one total action computing the    *)
(* outcome `res` of the call.  Pure observation operators (queries, navigation, *)
(* consistency counts, reflexive sorting) are defined over the state and are    *)
(* compared with what the implementation returns during trace validation.      *)
(*                                                                              *)
(* Values are tokens (strings): "u:3" a unique id, "i:-2", "b:1", "r:0.5",      *)
(* "s:text", "unset" (None), "absent" (attribute deleted).                      *)
EXTENDS Naturals, Integers, Sequences, FiniteSets, TLC

CONSTANTS
    Classes,    \* sequence of class names, in definition order
    Attrs,      \* [class |-> sequence of [n |-> name, t |-> type]]
    Assocs,     \* sequence of [rel, src, skeys, smany, scond, sphrase,
                \*              tgt, tkeys, tmany, tcond, tphrase]; src = referring class
    Uniques,    \* [class |-> sequence of [name |-> index name, attrs |-> sequence of names]]
    MaxI,       \* bound on the creation ordinal per class
    Bound,      \* [class |-> creation bound] (model checking only)
    GenKind,    \* "int" (1, 2, 3, ...), "user" (UserIds), "uuid" (any fresh non-null)
    UserIds,    \* ids a user-supplied generator hands out, in order
    Vals,       \* [type |-> set of tokens] written by the value alphabet (model checking only)
    Alpha,      \* which groups of calls the value alphabet contains (model checking only)
    RealNorm,   \* [real token |-> the token of its six-decimal form] (serialisation keeps six decimals)
    RowChoices, \* rows a loaded population is made of (model checking only)
    MaxRows     \* bound on the length of a loaded population (model checking only)

VARIABLES
    pool,       \* [class -> sequence of live ordinals, storage order]
    born,       \* [class -> number of instances ever created]
    val,        \* [class -> [ordinal -> [attribute name -> token]]] (stored values)
    fwd,        \* [assoc index -> [referred ordinal -> sequence of referring ordinals]]
    bwd,        \* [assoc index -> [referring ordinal -> sequence of referred ordinals]]
    gen,        \* number of ids the generator has handed out
    used,       \* set of id tokens handed out so far (defaulted values, next() results)
    pk,         \* the id a peek has shown and the next draw must deliver ("" when unknown)
    res         \* outcome of the last call

mvars == <<pool, born, val, fwd, bwd, gen, used, pk>>
vars == <<pool, born, val, fwd, bwd, gen, used, pk, res>>

-----------------------------------------------------------------------------
(* helpers *)
Rng(q) == {q[i] : i \in DOMAIN q}
InSeq(x, q) == \E i \in DOMAIN q : q[i] = x
Drop(q, x) == SelectSeq(q, LAMBDA e : e # x)
NoDup(q) == \A i, j \in DOMAIN q : q[i] = q[j] => i = j
Min(S) == CHOOSE x \in S : \A y \in S : x <= y
ClassSet == Rng(Classes)
NA == Len(Assocs)
AIdx == 1..NA
Ord == 1..MaxI
Src(a) == Assocs[a].src
Tgt(a) == Assocs[a].tgt
AttrNames(c) == [i \in DOMAIN Attrs[c] |-> Attrs[c][i].n]
\* (the tables below are constant-level and without parameters: TLC evaluates each once, which matters for schemas
\* with dozens of classes and associations - the ooaofooa parts of C11)
AttrTypeF == [c \in ClassSet |-> [n \in {Attrs[c][j].n : j \in DOMAIN Attrs[c]} |->
                 LET i == CHOOSE j \in DOMAIN Attrs[c] : Attrs[c][j].n = n IN Attrs[c][i].t]]
AttrType(c, n) == IF c \in ClassSet /\ n \in DOMAIN AttrTypeF[c] THEN AttrTypeF[c][n]
                  ELSE LET i == CHOOSE j \in DOMAIN Attrs[c] : Attrs[c][j].n = n IN Attrs[c][i].t
\* referential attributes of class c (source keys of an association formalised by c)
SrcAssocsF == [c \in ClassSet |-> {b \in AIdx : Src(b) = c}]
RefAttrsF == [c \in ClassSet |-> UNION {Rng(Assocs[a].skeys) : a \in SrcAssocsF[c]}]
RefAttrs(c) == RefAttrsF[c]
\* identifying attributes: members of a unique identifier or referred to by an association
IdAttrsF == [c \in ClassSet |-> UNION ({Rng(Uniques[c][k].attrs) : k \in DOMAIN Uniques[c]} \cup
                                       {Rng(Assocs[a].tkeys) : a \in {b \in AIdx : Tgt(b) = c}})]
IdAttrs(c) == IdAttrsF[c]
Live(c) == Rng(pool[c])
IsLive(c, i) == i \in Live(c)
Index(q, x) == CHOOSE i \in DOMAIN q : q[i] = x

DigitStr == <<"0", "1", "2", "3", "4", "5", "6", "7", "8", "9">>
RECURSIVE Digits(_)
Digits(n) == IF n < 10 THEN DigitStr[n + 1] ELSE Digits(n \div 10) \o DigitStr[(n % 10) + 1]
IdTok(n) == "u:" \o Digits(n)

Default(t) == CASE t = "BOOLEAN" -> "b:0" [] t = "INTEGER" -> "i:0" [] t = "REAL" -> "r:0.0"
                [] t = "STRING" -> "s:" [] OTHER -> "?"

-----------------------------------------------------------------------------
(* reading an attribute: a stored value, or for a referential attribute the     *)
(* identifying value of the instance it is linked to ("unset" when unlinked).   *)
(* When one attribute formalises several associations the most recently defined *)
(* association that has a partner supplies the value.                           *)
RECURSIVE Read(_, _, _)
Read(c, i, n) ==
    IF n \in RefAttrs(c) THEN
        LET cand == {a \in SrcAssocsF[c] : InSeq(n, Assocs[a].skeys) /\ bwd[a][i] # <<>>}
        IN IF cand = {} THEN "unset"
           ELSE LET a == CHOOSE x \in cand : \A y \in cand : y <= x
                    k == Index(Assocs[a].skeys, n)
                    v == Read(Tgt(a), bwd[a][i][1], Assocs[a].tkeys[k])
                IN IF v = "absent" THEN "unset" ELSE v     \* the referred instance lost its identifying attribute
    ELSE val[c][i][n]

-----------------------------------------------------------------------------
Init ==
    /\ pool = [c \in ClassSet |-> <<>>]
    /\ born = [c \in ClassSet |-> 0]
    /\ val = [c \in ClassSet |-> [i \in Ord |-> [n \in {} |-> ""]]]
    /\ fwd = [a \in AIdx |-> [i \in Ord |-> <<>>]]
    /\ bwd = [a \in AIdx |-> [i \in Ord |-> <<>>]]
    /\ gen = 0
    /\ used = {}
    /\ pk = ""
    /\ res = "none"

Reject(r) == res' = r /\ UNCHANGED mvars

\* ids handed out by the generator: the k-th id
GenId(k) == IF GenKind = "user" THEN UserIds[k] ELSE IdTok(k)

(* New(c, pos, kw): defaults by type for every non-referential attribute (unique *)
(* ids drawn from the generator in attribute order), then positional values,    *)
(* then keyword values.  Referential arguments are handled by NewRef.           *)
NonRefF == [c \in ClassSet |-> SelectSeq(AttrNames(c), LAMBDA n : n \notin RefAttrs(c))]
NonRef(c) == NonRefF[c]
IdSlots(c) == SelectSeq(NonRef(c), LAMBDA n : AttrType(c, n) = "UNIQUE_ID")
KnownType(t) == t \in {"BOOLEAN", "INTEGER", "REAL", "STRING", "UNIQUE_ID"}
\* the attributes before the first one of unknown type get their defaults, so
\* ids are drawn for them before the exception is raised
FirstUnknown(c) == LET bad == {i \in DOMAIN NonRef(c) : ~KnownType(AttrType(c, NonRef(c)[i]))}
                   IN IF bad = {} THEN 0 ELSE Min(bad)

\* ids: the id drawn for each slot of IdSlots(c); g2: ids handed out afterwards.
\* A slot overridden by a positional or keyword value does not show its id.
Overridden(c, n, pos, kw) == Index(AttrNames(c), n) <= Len(pos) \/ n \in DOMAIN kw
NewIds(c, pos, kw, ids, g2) ==
    LET i == born[c] + 1
        nr == NonRef(c)
        slots == IdSlots(c)
        dflt == [n \in Rng(nr) |->
                    IF AttrType(c, n) = "UNIQUE_ID" THEN ids[Index(slots, n)]
                    ELSE Default(AttrType(c, n))]
        names == AttrNames(c)
        posv == [n \in Rng(nr) |->
                    IF Index(names, n) <= Len(pos) THEN pos[Index(names, n)] ELSE dflt[n]]
        final == [n \in Rng(nr) |-> IF n \in DOMAIN kw THEN kw[n] ELSE posv[n]]
        shown == {ids[k] : k \in {j \in DOMAIN slots : ~Overridden(c, slots[j], pos, kw)}}
    IN /\ born[c] < MaxI
       /\ FirstUnknown(c) = 0
       /\ born' = [born EXCEPT ![c] = i]
       /\ pool' = [pool EXCEPT ![c] = Append(@, i)]
       /\ val' = [val EXCEPT ![c][i] = final]
       /\ gen' = g2
       /\ used' = used \cup shown
       /\ pk' = IF Len(slots) > 0 THEN "" ELSE pk
       /\ UNCHANGED <<fwd, bwd>>
       /\ res' = "none"

\* what the property requires of the ids that show: fresh, non-null, distinct, and
\* (for the counting generators) among those handed out by this call
IdsOK(c, pos, kw, ids, g2) ==
    LET slots == IdSlots(c)
        vis == {j \in DOMAIN slots : ~Overridden(c, slots[j], pos, kw)}
    IN /\ Len(ids) = Len(slots)
       /\ g2 >= gen + Cardinality(vis)
       /\ \A j \in vis : ids[j] # "u:0" /\ ids[j] \notin used
       /\ \A j, k \in vis : ids[j] = ids[k] => j = k
       /\ GenKind # "uuid" => \A j \in vis : \E k \in (gen + 1)..g2 : ids[j] = GenId(k)
       \* a peeked id is the next one drawn (when no explicitly supplied slot may have taken it)
       /\ (pk # "" /\ vis = DOMAIN slots /\ vis # {}) => ids[1] = pk

\* the generator draws one id per slot, in attribute order (what the code does)
New(c, pos, kw) ==
    NewIds(c, pos, kw, [k \in 1..Len(IdSlots(c)) |-> GenId(gen + k)], gen + Len(IdSlots(c)))

\* an attribute of unknown type: MetaException.  (The instance is in the pool
\* already when the exception is raised; the property only fixes the outcome.)
NewUnknown(c) ==
    /\ FirstUnknown(c) > 0
    /\ res' = "MetaException"

(* attribute access by declared name n (the spelling used by the caller does not *)
(* appear: every spelling addresses the value stored under the declared name)   *)
SetAttr(c, i, n, v) ==
    IF n \in RefAttrs(c) THEN Reject("MetaException")
    ELSE /\ val' = [val EXCEPT ![c][i][n] = v]
         /\ res' = "none"
         /\ UNCHANGED <<pool, born, fwd, bwd, gen, used, pk>>

\* deleting a stored value makes the attribute absent; deleting what is not stored
\* (absent already, or referential) changes nothing whatever the call answers
Stored(c, i, n) == n \notin RefAttrs(c) /\ val[c][i][n] # "absent"
DelAttr(c, i, n) ==
    IF Stored(c, i, n)
    THEN /\ val' = [val EXCEPT ![c][i][n] = "absent"]
         /\ res' = "none"
         /\ UNCHANGED <<pool, born, fwd, bwd, gen, used, pk>>
    ELSE /\ UNCHANGED mvars
         /\ res' \in {"none", "AttributeError", "KeyError"}

\* the id generator: peek shows the id the next draw delivers and never advances
GenNext(id) ==
    /\ IF GenKind = "uuid" THEN id # "u:0" /\ id \notin used /\ (pk # "" => id = pk)
                           ELSE id = GenId(gen + 1)
    /\ gen' = gen + 1 /\ used' = used \cup {id} /\ pk' = "" /\ res' = id
    /\ UNCHANGED <<pool, born, val, fwd, bwd>>
GenPeek(id) ==
    /\ IF GenKind = "uuid" THEN id # "u:0" /\ id \notin used /\ (pk # "" => id = pk)
                           ELSE id = GenId(gen + 1)
    /\ pk' = id /\ res' = id
    /\ UNCHANGED <<pool, born, val, fwd, bwd, gen, used>>

(* Link resolution: the first association (definition order) with this number   *)
(* whose referred->referring direction matches (kinds of x and y, phrase), else *)
(* whose referring->referred direction matches.  Result <<a, referred ordinal,  *)
(* referring ordinal>> or <<0, 0, 0>>.                                          *)
MatchXY(a, cx, cy, ph) == Tgt(a) = cx /\ Src(a) = cy /\ Assocs[a].tphrase = ph
MatchYX(a, cx, cy, ph) == Src(a) = cx /\ Tgt(a) = cy /\ Assocs[a].sphrase = ph
FindLink(cx, ix, cy, iy, rel, ph) ==
    LET cand == {a \in AIdx : Assocs[a].rel = rel /\ (MatchXY(a, cx, cy, ph) \/ MatchYX(a, cx, cy, ph))}
    IN IF cand = {} THEN <<0, 0, 0>>
       ELSE LET a == Min(cand)
            IN IF MatchXY(a, cx, cy, ph) THEN <<a, ix, iy>> ELSE <<a, iy, ix>>

Related(a, t, s) == InSeq(s, fwd[a][t]) /\ InSeq(t, bwd[a][s])

Relate(cx, ix, cy, iy, rel, ph) ==
    LET f == FindLink(cx, ix, cy, iy, rel, ph)
        a == f[1]  t == f[2]  s == f[3]
    IN IF a = 0 THEN Reject("UnknownLinkException")
       ELSE IF Related(a, t, s) THEN Reject("True")           \* already related: no-op
       ELSE IF \/ (fwd[a][t] # <<>> /\ ~Assocs[a].smany)
               \/ (bwd[a][s] # <<>> /\ ~Assocs[a].tmany)
            THEN Reject("RelateException")
       ELSE /\ fwd' = [fwd EXCEPT ![a][t] = Append(@, s)]
            /\ bwd' = [bwd EXCEPT ![a][s] = Append(@, t)]
            /\ res' = "True"
            /\ UNCHANGED <<pool, born, val, gen, used, pk>>

Unrelate(cx, ix, cy, iy, rel, ph) ==
    LET f == FindLink(cx, ix, cy, iy, rel, ph)
        a == f[1]  t == f[2]  s == f[3]
    IN IF a = 0 THEN Reject("UnknownLinkException")
       ELSE IF ~Related(a, t, s) THEN Reject("UnrelateException")
       ELSE /\ fwd' = [fwd EXCEPT ![a][t] = Drop(@, s)]
            /\ bwd' = [bwd EXCEPT ![a][s] = Drop(@, t)]
            /\ res' = "True"
            /\ UNCHANGED <<pool, born, val, gen, used, pk>>

\* relate / unrelate with None in place of an instance
RelateNone == Reject("False")

(* Delete(c, i): DeleteException when i is not in the pool; otherwise the       *)
(* instance leaves the pool and every link it takes part in is removed.         *)
Delete(c, i) ==
    IF ~IsLive(c, i) THEN Reject("DeleteException")
    ELSE /\ pool' = [pool EXCEPT ![c] = Drop(@, i)]
         /\ fwd' = [a \in AIdx |-> [k \in Ord |->
                      IF Tgt(a) = c /\ k = i THEN <<>>
                      ELSE IF Src(a) = c THEN Drop(fwd[a][k], i) ELSE fwd[a][k]]]
         /\ bwd' = [a \in AIdx |-> [k \in Ord |->
                      IF Src(a) = c /\ k = i THEN <<>>
                      ELSE IF Tgt(a) = c THEN Drop(bwd[a][k], i) ELSE bwd[a][k]]]
         /\ res' = "none"
         /\ UNCHANGED <<born, val, gen, used, pk>>

-----------------------------------------------------------------------------
(* Loading (xtuml.load.ModelLoader.build_metamodel): instances are created in    *)
(* statement order with the values of their rows; a referring instance is linked *)
(* to a referred instance of an association exactly when every referential value *)
(* is non-null and equals the corresponding identifying value (a relational      *)
(* join, no multiplicity check); afterwards referential values are read through  *)
(* the links.  A row is [c |-> class, v |-> [attribute |-> token]] ("unset" for  *)
(* a value that a named insert omits).                                           *)
IsNullTok(ty, v) == v = "unset" \/ (ty = "UNIQUE_ID" /\ v = "u:0") \/ (ty = "STRING" /\ v = "s:")
RowsOf(c, rows) == SelectSeq(rows, LAMBDA r : r.c = c)
Matches(a, srow, trow) ==
    \A k \in DOMAIN Assocs[a].skeys :
        LET sv == srow.v[Assocs[a].skeys[k]]
            tv == trow.v[Assocs[a].tkeys[k]]
        IN /\ ~IsNullTok(AttrType(Src(a), Assocs[a].skeys[k]), sv)
           /\ ~IsNullTok(AttrType(Tgt(a), Assocs[a].tkeys[k]), tv)
           /\ sv = tv
Upto(n) == [i \in 1..n |-> i]
RowOfInst(c, i) == [c |-> c, v |-> [n \in Rng(AttrNames(c)) |-> Read(c, i, n)]]

LoadBuild(rows, g2) ==
    \* (Rf is evaluated once per step; an operator with a parameter would be evaluated again at every use)
    LET Rf == [c \in ClassSet |-> RowsOf(c, rows)]
        R(c) == Rf[c] IN
    /\ \A c \in ClassSet : Len(R(c)) <= MaxI
    /\ pool' = [c \in ClassSet |-> Upto(Len(R(c)))]
    /\ born' = [c \in ClassSet |-> Len(R(c))]
    /\ val' = [c \in ClassSet |-> [i \in Ord |->
                  IF i <= Len(R(c)) THEN [n \in Rng(NonRef(c)) |-> R(c)[i].v[n]] ELSE <<>>]]
    /\ fwd' = [a \in AIdx |-> [t \in Ord |->
                  IF t <= Len(R(Tgt(a)))
                  THEN SelectSeq(Upto(Len(R(Src(a)))), LAMBDA s : Matches(a, R(Src(a))[s], R(Tgt(a))[t]))
                  ELSE <<>>]]
    /\ bwd' = [a \in AIdx |-> [s \in Ord |->
                  IF s <= Len(R(Src(a)))
                  THEN SelectSeq(Upto(Len(R(Tgt(a)))), LAMBDA t : Matches(a, R(Src(a))[s], R(Tgt(a))[t]))
                  ELSE <<>>]]
    /\ gen' = g2 /\ used' = {} /\ pk' = ""
    /\ res' = "none"

(* Populating an existing metamodel from a loader that holds rows only            *)
(* (ModelLoader.populate): the rows become instances after the existing ones and  *)
(* the join runs over everything the metamodel then holds - an existing instance  *)
(* takes part with the values it reads (referential values through its links), so  *)
(* existing links stay, and new links are added after them in pool order.          *)
LoadInto(rows, g2) ==
    LET Rf == [c \in ClassSet |-> RowsOf(c, rows)]
        R(c) == Rf[c]
        pool2(c) == pool[c] \o [k \in 1..Len(R(c)) |-> born[c] + k]
        RowAt(c, i) == IF i <= born[c] THEN RowOfInst(c, i) ELSE R(c)[i - born[c]]
    IN /\ \A c \in ClassSet : born[c] + Len(R(c)) <= MaxI
       /\ pool' = [c \in ClassSet |-> pool2(c)]
       /\ born' = [c \in ClassSet |-> born[c] + Len(R(c))]
       /\ val' = [c \in ClassSet |-> [i \in Ord |->
                     IF i > born[c] /\ i <= born[c] + Len(R(c))
                     THEN [n \in Rng(NonRef(c)) |-> R(c)[i - born[c]].v[n]] ELSE val[c][i]]]
       /\ fwd' = [a \in AIdx |-> [t \in Ord |->
                     IF InSeq(t, pool2(Tgt(a)))
                     THEN fwd[a][t] \o SelectSeq(pool2(Src(a)), LAMBDA s :
                              ~InSeq(s, fwd[a][t]) /\ Matches(a, RowAt(Src(a), s), RowAt(Tgt(a), t)))
                     ELSE fwd[a][t]]]
       /\ bwd' = [a \in AIdx |-> [s \in Ord |->
                     IF InSeq(s, pool2(Src(a)))
                     THEN bwd[a][s] \o SelectSeq(pool2(Tgt(a)), LAMBDA t :
                              ~InSeq(t, bwd[a][s]) /\ Matches(a, RowAt(Src(a), s), RowAt(Tgt(a), t)))
                     ELSE bwd[a][s]]]
       /\ gen' = g2 /\ UNCHANGED <<used, pk>>          \* (creating the rows draws default ids, as a build does)
       /\ res' = "none"

(* Association.batch_relate: every referring instance is connected to every        *)
(* instance whose identifying values equal the values it reads (a referential      *)
(* value is read through the first existing link): the join of one association is  *)
(* closed, nothing is removed, no multiplicity is checked.                         *)
BatchRelate(a) ==
    /\ fwd' = [fwd EXCEPT ![a] = [t \in Ord |->
                   IF InSeq(t, pool[Tgt(a)])
                   THEN fwd[a][t] \o SelectSeq(pool[Src(a)], LAMBDA s :
                            ~InSeq(s, fwd[a][t]) /\ Matches(a, RowOfInst(Src(a), s), RowOfInst(Tgt(a), t)))
                   ELSE fwd[a][t]]]
    /\ bwd' = [bwd EXCEPT ![a] = [s \in Ord |->
                   IF InSeq(s, pool[Src(a)])
                   THEN bwd[a][s] \o SelectSeq(pool[Tgt(a)], LAMBDA t :
                            ~InSeq(t, bwd[a][s]) /\ Matches(a, RowOfInst(Src(a), s), RowOfInst(Tgt(a), t)))
                   ELSE bwd[a][s]]]
    /\ UNCHANGED <<pool, born, val, gen, used, pk>>
    /\ res' = "none"

(* Creating a row through the API with referential values (MetaClass.new with     *)
(* referential arguments, MetaModel.clone): the instance gets its non-referential *)
(* values and is related to every existing referred instance whose identifying   *)
(* values match its non-null referential values.  The API relates with the       *)
(* multiplicity check, which loading does not have: when a match would give a    *)
(* single-valued end a second partner the call is outside the domain of C03.     *)
RowAsRef(c, i, row) == [c |-> c, v |-> [n \in Rng(AttrNames(c)) |-> IF n \in DOMAIN row.v THEN row.v[n] ELSE "unset"]]
Partners(a, row) == SelectSeq(pool[Tgt(a)], LAMBDA t : Matches(a, row, RowOfInst(Tgt(a), t)))
Over(row) == \E a \in {b \in AIdx : Src(b) = row.c} :
                \/ (Len(Partners(a, row)) > 1 /\ ~Assocs[a].tmany)
                \/ \E k \in DOMAIN Partners(a, row) : fwd[a][Partners(a, row)[k]] # <<>> /\ ~Assocs[a].smany
NewRowCore(row, g2, used2, pk2) ==
    LET c == row.c
        i == born[c] + 1
        mine == {a \in AIdx : Src(a) = c}
    IN /\ born[c] < MaxI
       /\ IF Over(row) THEN res' = "OutOfDomain" /\ UNCHANGED mvars
          ELSE /\ born' = [born EXCEPT ![c] = i]
               /\ pool' = [pool EXCEPT ![c] = Append(@, i)]
               /\ val' = [val EXCEPT ![c][i] = [n \in Rng(NonRef(c)) |-> row.v[n]]]
               /\ fwd' = [a \in AIdx |-> [t \in Ord |->
                             IF a \in mine /\ InSeq(t, Partners(a, row)) THEN Append(fwd[a][t], i) ELSE fwd[a][t]]]
               /\ bwd' = [a \in AIdx |-> [s \in Ord |->
                             IF a \in mine /\ s = i THEN Partners(a, row) ELSE bwd[a][s]]]
               /\ gen' = g2 /\ used' = used2 /\ pk' = pk2
               /\ res' = "none"
NewRow(row, g2) == NewRowCore(row, g2, used, pk)

(* The general creation call (C19 with referential arguments): keyword over        *)
(* positional (by position in the whole attribute list, referential attributes     *)
(* included) over the default of the type; a referential attribute that is not      *)
(* supplied is unset.  Without referential values this is NewIds.                   *)
CallRow(c, pos, kw, ids) ==
    LET names == AttrNames(c)
        slots == IdSlots(c)
    IN [c |-> c, v |-> [n \in Rng(names) |->
            IF n \in DOMAIN kw THEN kw[n]
            ELSE IF Index(names, n) <= Len(pos) THEN pos[Index(names, n)]
            ELSE IF n \in RefAttrs(c) THEN "unset"
            ELSE IF AttrType(c, n) = "UNIQUE_ID" THEN ids[Index(slots, n)]
            ELSE Default(AttrType(c, n))]]
NewCall(c, pos, kw, ids, g2) ==
    LET slots == IdSlots(c)
        shown == {ids[k] : k \in {j \in DOMAIN slots : ~Overridden(c, slots[j], pos, kw)}}
    IN /\ FirstUnknown(c) = 0
       /\ NewRowCore(CallRow(c, pos, kw, ids), g2, used \cup shown, IF Len(slots) > 0 THEN "" ELSE pk)
NewC(c, pos, kw) ==
    NewCall(c, pos, kw, [k \in 1..Len(IdSlots(c)) |-> GenId(gen + k)], gen + Len(IdSlots(c)))

\* what serialisation writes for a value: an unset value becomes the null value of
\* its type, a real its six-decimal form
NullTok(ty) == CASE ty = "UNIQUE_ID" -> "u:0" [] ty = "STRING" -> "s:" [] ty = "INTEGER" -> "i:0"
                 [] ty = "REAL" -> "r:0.0" [] ty = "BOOLEAN" -> "b:0" [] OTHER -> "?"
SerTok(ty, v) == IF v = "unset" THEN NullTok(ty)
                 ELSE IF ty = "REAL" /\ v \in DOMAIN RealNorm THEN RealNorm[v] ELSE v
RECURSIVE Flatten(_)
Flatten(qs) == IF qs = <<>> THEN <<>> ELSE Head(qs) \o Flatten(Tail(qs))
\* the rows a serialisation of the current model consists of (classes in definition
\* order, instances in pool order, every attribute through a read)
SavedRows == Flatten([k \in DOMAIN Classes |->
                 LET c == Classes[k] IN
                 [j \in DOMAIN pool[c] |->
                     [c |-> c, v |-> [n \in Rng(AttrNames(c)) |-> SerTok(AttrType(c, n), Read(c, pool[c][j], n))]]]])
NoAbsent == \A c \in ClassSet : \A i \in Live(c) : \A n \in DOMAIN val[c][i] : val[c][i][n] # "absent"

\* persisting the model and loading the text again
SaveLoad(g2) == NoAbsent /\ LoadBuild(SavedRows, g2)

(* The persistable domain of C01: the links are exactly what the join of the      *)
(* values written for the instances gives back ("referential values resolve"):  *)
(* linked instances have non-null, matching keys and no unlinked pair matches.   *)
Persistable ==
    /\ NoAbsent
    /\ \A a \in AIdx : \A s \in Live(Src(a)) : \A t \in Live(Tgt(a)) :
          InSeq(t, bwd[a][s]) <=> Matches(a, RowOfInst(Src(a), s), RowOfInst(Tgt(a), t))

-----------------------------------------------------------------------------
(* The history alphabet of C02: creation with defaults, relate / unrelate in    *)
(* both argument orders with every known and one unknown association number and *)
(* phrase, None arguments, delete (also of an already deleted instance).        *)
RelIds == {Assocs[a].rel : a \in AIdx} \cup {"R99"}
PhraseSet == {Assocs[a].sphrase : a \in AIdx} \cup {Assocs[a].tphrase : a \in AIdx} \cup {"", "bogus"}
LiveInsts == {x \in ClassSet \X Ord : IsLive(x[1], x[2])}
EverInsts == {x \in ClassSet \X Ord : x[2] <= born[x[1]]}

AllInsts == ClassSet \X Ord
\* (the quantifier bounds below are constant so that TLC names every step by its
\* action and parameters in the dumped state graph)
HNew(c) == born[c] < Bound[c] /\ New(c, <<>>, <<>>)
\* one unknown number and one unknown phrase are enough: they are not combined
Alphabet(r, p) == ~(r = "R99" /\ p # "") /\ (p = "bogus" => r = Assocs[1].rel)
HRelate(x, y, r, p) == x \in LiveInsts /\ y \in LiveInsts /\ Alphabet(r, p) /\ Relate(x[1], x[2], y[1], y[2], r, p)
HUnrelate(x, y, r, p) == x \in LiveInsts /\ y \in LiveInsts /\ Alphabet(r, p) /\ Unrelate(x[1], x[2], y[1], y[2], r, p)
HRelateNone == RelateNone /\ TRUE
HDelete(x) == x \in EverInsts /\ Delete(x[1], x[2])

Next ==
    \/ \E c \in ClassSet : HNew(c)
    \/ \E x \in AllInsts, y \in AllInsts, r \in RelIds, p \in PhraseSet :
          HRelate(x, y, r, p) \/ HUnrelate(x, y, r, p)
    \/ HRelateNone
    \/ \E x \in AllInsts : HDelete(x)

Spec == Init /\ [][Next]_vars

-----------------------------------------------------------------------------
(* The value alphabet (C10, C19, C09): creation with every mix of positional,   *)
(* keyword and omitted arguments, attribute writes and deletions (referential   *)
(* attributes included: they are rejected), generator peek/next, plus the link  *)
(* operations above.                                                            *)
AllVals == UNION {Vals[ty] : ty \in DOMAIN Vals}
TypedVals(ty) == IF ty \in DOMAIN Vals THEN Vals[ty] ELSE {}
\* positional arguments stop before the first referential attribute
\* ("newref" in the alphabet: positional and keyword arguments run through the referential attributes too)
MaxPos(c) == LET r == {j \in DOMAIN AttrNames(c) : AttrNames(c)[j] \in RefAttrs(c)}
             IN IF r = {} \/ "newref" \in Alpha THEN Len(AttrNames(c)) ELSE Min(r) - 1
KwNames(c) == IF "newref" \in Alpha THEN Rng(AttrNames(c)) ELSE Rng(NonRef(c))
PosOK(c, pos) == Len(pos) <= MaxPos(c) /\ \A j \in DOMAIN pos : pos[j] \in TypedVals(AttrType(c, AttrNames(c)[j]))
KwOK(c, kw) == DOMAIN kw \subseteq KwNames(c) /\ \A n \in DOMAIN kw : kw[n] \in TypedVals(AttrType(c, n))
MaxPosAll == CHOOSE m \in 0..20 : (\E c \in ClassSet : MaxPos(c) = m) /\ \A c \in ClassSet : MaxPos(c) <= m
AllNames == UNION {Rng(AttrNames(c)) : c \in ClassSet}
\* (constant-level functions: TLC evaluates them once)
\* (only where creation calls are enumerated: TLC evaluates constant-level definitions at start-up, trace
\* specifications - empty alphabet - must not pay for argument sets of classes with many attributes)
PosSets == IF "newv" \notin Alpha THEN [c \in ClassSet |-> {}]
           ELSE [c \in ClassSet |-> UNION {{p \in [1..k -> AllVals] : PosOK(c, p)} : k \in 0..MaxPos(c)}]
KwSets == IF "newv" \notin Alpha THEN [c \in ClassSet |-> {}]
          ELSE [c \in ClassSet |-> UNION {{f \in [S -> AllVals] : KwOK(c, f)} : S \in SUBSET KwNames(c)}]
PosSetC(c) == PosSets[c]
KwSetC(c) == KwSets[c]

VNew(c, pos, kw) == "newv" \in Alpha /\ born[c] < Bound[c] /\ FirstUnknown(c) = 0 /\ PosOK(c, pos) /\ KwOK(c, kw)
                    /\ NewC(c, pos, kw) /\ res' # "OutOfDomain"
\* (persisting renumbers the instances and lets creation start over: bound the ids handed out)
VNewD(c) == "new" \in Alpha /\ ("save" \in Alpha => gen < 2 * MaxI) /\ HNew(c)
VNewUnknown(c) == "unknown" \in Alpha /\ born[c] < Bound[c] /\ NewUnknown(c) /\ UNCHANGED mvars
VSetAttr(x, n, v) == "set" \in Alpha /\ x \in LiveInsts /\ n \in Rng(AttrNames(x[1]))
                     /\ v \in TypedVals(AttrType(x[1], n)) /\ SetAttr(x[1], x[2], n, v)
VDelAttr(x, n) == "del" \in Alpha /\ x \in LiveInsts /\ n \in Rng(AttrNames(x[1])) /\ DelAttr(x[1], x[2], n)
VGenNext == "gen" \in Alpha /\ GenKind # "uuid" /\ gen < 2 * MaxI /\ GenNext(GenId(gen + 1))
VGenPeek == "gen" \in Alpha /\ GenKind # "uuid" /\ GenPeek(GenId(gen + 1))
VRelate(x, y, r, p) == "link" \in Alpha /\ r # "R99" /\ p # "bogus" /\ HRelate(x, y, r, p)
VUnrelate(x, y, r, p) == "link" \in Alpha /\ r # "R99" /\ p # "bogus" /\ HUnrelate(x, y, r, p)
VDelete(x) == "delete" \in Alpha /\ HDelete(x)
\* loading a population (only as the first step) and persisting + reloading the model
Populations == UNION {[1..n -> RowChoices] : n \in 0..MaxRows}
VLoad(rows) == "load" \in Alpha /\ (\A c \in ClassSet : born[c] = 0) /\ gen = 0 /\ LoadBuild(rows, 0)
VSaveLoad == "save" \in Alpha /\ SaveLoad(gen)
\* further rows reach a metamodel that exists already (another loader populates it); together at most MaxRows rows
RECURSIVE SumBorn(_)
SumBorn(k) == IF k = 0 THEN 0 ELSE born[Classes[k]] + SumBorn(k - 1)
VLoadInto(rows) == "loadinto" \in Alpha /\ rows # <<>> /\ SumBorn(Len(Classes)) + Len(rows) <= MaxRows /\ LoadInto(rows, gen)

NextVal ==
    \/ \E c \in ClassSet : \E pos \in PosSetC(c) : \E kw \in KwSetC(c) : VNew(c, pos, kw)
    \/ \E c \in ClassSet : VNewD(c) \/ VNewUnknown(c)
    \/ \E x \in AllInsts, n \in AllNames : (\E v \in AllVals : VSetAttr(x, n, v)) \/ VDelAttr(x, n)
    \/ VGenNext \/ VGenPeek
    \/ \E x \in AllInsts, y \in AllInsts, r \in RelIds, p \in PhraseSet : VRelate(x, y, r, p) \/ VUnrelate(x, y, r, p)
    \/ \E x \in AllInsts : VDelete(x)
    \/ \E rows \in Populations : VLoad(rows) \/ VLoadInto(rows)
    \/ VSaveLoad

SpecVal == Init /\ [][NextVal]_vars

(* C03: loading links exactly the key-matching pairs, whatever the statement order *)
JoinPairs(a, rows) == {p \in (DOMAIN rows) \X (DOMAIN rows) :
                          rows[p[1]].c = Src(a) /\ rows[p[2]].c = Tgt(a) /\ Matches(a, rows[p[1]], rows[p[2]])}
\* position of the i-th row of class c within rows
RowIndex(c, i, rows) == CHOOSE k \in DOMAIN rows :
                           rows[k].c = c /\ Cardinality({j \in 1..k : rows[j].c = c}) = i
LoadIsJoin ==
    [][\A rows \in Populations : VLoad(rows) =>
          \A a \in AIdx :
             \A s \in 1..born'[Src(a)], t \in 1..born'[Tgt(a)] :
                    (InSeq(s, fwd'[a][t]) <=> <<RowIndex(Src(a), s, rows), RowIndex(Tgt(a), t, rows)>> \in JoinPairs(a, rows))
                 /\ (InSeq(t, bwd'[a][s]) <=> <<RowIndex(Src(a), s, rows), RowIndex(Tgt(a), t, rows)>> \in JoinPairs(a, rows))]_vars
\* ... and however the rows are split between a build and later populate calls: in every state reached by loading
\* only, two live instances are linked exactly when the values they read match
JoinClosed ==
    \A a \in AIdx : \A s \in Live(Src(a)), t \in Live(Tgt(a)) :
        Related(a, t, s) <=> Matches(a, RowOfInst(Src(a), s), RowOfInst(Tgt(a), t))
\* the join does not depend on the order of the statements
Perms(n) == {f \in [1..n -> 1..n] : \A i, j \in 1..n : f[i] = f[j] => i = j}
PermutationInvariant ==
    \A rows \in Populations : \A f \in Perms(Len(rows)) : \A a \in AIdx :
        JoinPairs(a, [i \in 1..Len(rows) |-> rows[f[i]]]) = {p \in (DOMAIN rows) \X (DOMAIN rows) : <<f[p[1]], f[p[2]]>> \in JoinPairs(a, rows)}

(* C01: persisting and loading a persistable model gives the same model back    *)
(* (instances renumbered in pool order, unset = null of the type, reals to six  *)
(* decimals); links compared as sets.                                           *)
SaveLoadIdentity ==
    [][(VSaveLoad /\ Persistable) =>
         /\ \A c \in ClassSet :
               /\ Len(pool'[c]) = Len(pool[c])
               /\ \A j \in DOMAIN pool[c] : \A n \in Rng(AttrNames(c)) :
                     SerTok(AttrType(c, n), Read(c, j, n)') = SerTok(AttrType(c, n), Read(c, pool[c][j], n))
         /\ \A a \in AIdx : \A j \in DOMAIN pool[Tgt(a)] : \A k \in DOMAIN pool[Src(a)] :
               InSeq(k, fwd'[a][j]) <=> InSeq(pool[Src(a)][k], fwd[a][pool[Tgt(a)][j]])
         /\ \A a \in AIdx : \A k \in DOMAIN pool[Src(a)] : \A j \in DOMAIN pool[Tgt(a)] :
               InSeq(j, bwd'[a][k]) <=> InSeq(pool[Tgt(a)][j], bwd[a][pool[Src(a)][k]])]_vars

\* every stored value is addressed by its declared name only (C10): the state has
\* exactly one entry per non-referential attribute of every instance ever created
OneValuePerName == \A c \in ClassSet : \A i \in 1..born[c] : DOMAIN val[c][i] = Rng(NonRef(c))
\* defaults by type, then positional, then keyword (C19): checked on the step
DefaultsOK == [][\A c \in ClassSet : born'[c] = born[c] + 1 =>
                  \A n \in Rng(NonRef(c)) :
                     LET v == val'[c][born'[c]][n] IN
                     \/ v \in AllVals                       \* supplied by the caller
                     \/ (AttrType(c, n) = "UNIQUE_ID" /\ v \in used' /\ v \notin used)
                     \/ (AttrType(c, n) # "UNIQUE_ID" /\ v = Default(AttrType(c, n)))]_vars

-----------------------------------------------------------------------------
(* Properties of the design (C02) *)
TypeOK ==
    /\ \A c \in ClassSet : NoDup(pool[c]) /\ Rng(pool[c]) \subseteq 1..born[c]
    /\ \A a \in AIdx, i \in Ord : NoDup(fwd[a][i]) /\ NoDup(bwd[a][i])

\* navigating from x reaches y exactly when navigating back from y reaches x
Symmetric == \A a \in AIdx, t \in Ord, s \in Ord : InSeq(s, fwd[a][t]) <=> InSeq(t, bwd[a][s])

\* only live instances take part in links
OnlyLive == \A a \in AIdx, k \in Ord :
               /\ (fwd[a][k] # <<>> => IsLive(Tgt(a), k)) /\ Rng(fwd[a][k]) \subseteq Live(Src(a))
               /\ (bwd[a][k] # <<>> => IsLive(Src(a), k)) /\ Rng(bwd[a][k]) \subseteq Live(Tgt(a))

\* a single-valued end never has a second partner
Bounded == \A a \in AIdx, k \in Ord :
               /\ (~Assocs[a].smany => Len(fwd[a][k]) <= 1)
               /\ (~Assocs[a].tmany => Len(bwd[a][k]) <= 1)

Rejections == {"UnknownLinkException", "RelateException", "UnrelateException", "DeleteException", "False"}
RejectedIsNoop == [][res' \in Rejections => UNCHANGED mvars]_vars

\* a referential attribute reads as the identifying value of the linked instance
RefReadOK == \A a \in AIdx : \A s \in Live(Src(a)) :
                (Cardinality({b \in AIdx : Src(b) = Src(a) /\ Rng(Assocs[b].skeys) \cap Rng(Assocs[a].skeys) # {}}) = 1)
                => \A k \in DOMAIN Assocs[a].skeys :
                      Read(Src(a), s, Assocs[a].skeys[k]) =
                         IF bwd[a][s] = <<>> THEN "unset"
                         ELSE LET v == Read(Tgt(a), bwd[a][s][1], Assocs[a].tkeys[k])
                              IN IF v = "absent" THEN "unset" ELSE v

\* defaulted ids are fresh and never null
FreshIds == "u:0" \notin used /\ Cardinality(used) <= gen
=============================================================================
