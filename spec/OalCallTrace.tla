----------------------------- MODULE OalCallTrace -----------------------------
(* Validates invocations of the callable elements of a BridgePoint model (C15):   *)
(* functions, class and instance operations, bridges, derived attributes,         *)
(* enumerators and constants, invoked from OAL bodies (scripts run as functions)   *)
(* and directly from Python, against OalExec.                                      *)
(* Event: [env, scripts |-> bodies run in order, calls |-> Python invocations run   *)
(*         afterwards, results |-> token per script and per call, err,              *)
(*         pool, nav, attr |-> final population]                                    *)
EXTENDS OalExec, TraceBase

VARIABLE dummy
TInit == TBaseInit /\ dummy = 0

CallExpr(c) == CASE c.k = "func" -> [t |-> "fcall", n |-> c.n, ps |-> c.ps]
                 [] c.k \in {"classop", "bridge"} -> [t |-> "icall", kind |-> "implicit", ns |-> c.ns, n |-> c.n, ps |-> c.ps]
                 [] c.k = "enum" -> [t |-> "enum", ns |-> c.ns, n |-> c.n]
                 [] c.k = "const" -> [t |-> "var", n |-> c.n]

StateOf(env, M) == [vars |-> <<>>, m |-> M, ret |-> NoVal, ctl |-> "run", fuel |-> Fuel, kw |-> <<>>, self |-> NoVal,
                    env |-> env, dattr |-> ""]

RECURSIVE RunScripts(_, _, _, _), RunCalls(_, _, _, _)
\* [toks, m, ok]
RunScripts(bs, env, M, acc) ==
    IF bs = <<>> THEN [toks |-> acc, m |-> M, ok |-> TRUE]
    ELSE LET R == RunIn(bs[1], <<>>, NoVal, env, M)
         IN IF R.ctl = "ood" THEN [toks |-> acc, m |-> R.m, ok |-> FALSE]
            ELSE RunScripts(Tail(bs), env, R.m, Append(acc, Tok(R.ret)))
RunCalls(cs, env, M, acc) ==
    IF cs = <<>> THEN [toks |-> acc, m |-> M, ok |-> TRUE]
    ELSE LET x == EvalE(CallExpr(cs[1]), StateOf(env, M))
         IN IF IsOOD(x.v) THEN [toks |-> acc, m |-> x.s.m, ok |-> FALSE]
            ELSE RunCalls(Tail(cs), env, x.s.m, Append(acc, Tok(x.v)))

Expected(e) == LET A == RunScripts(e.scripts, e.env, EmptyModel, <<>>)
                   B == IF A.ok THEN RunCalls(e.calls, e.env, A.m, A.toks) ELSE A
               IN B

Conform(e) ==
    LET X == Expected(e) IN
    IF ~X.ok THEN "ood"
    ELSE FirstBad(<<
        <<"error", e.err = "">>,
        <<"results", e.results = X.toks>>,
        <<"pool", e.pool = ProjPool(X.m)>>,
        <<"nav", e.nav = ProjNav(X.m)>>,
        <<"attr", e.attr = ProjAttr(X.m)>>,
        \* C08: the same tokens at the same positions with lower-case keywords compute the same results and population
        <<"case_independent", e.casediff = <<>>>>
      >>)

TNext == /\ TEnabled /\ UNCHANGED dummy
         /\ LET b == Conform(Ev) IN
            IF b = "ood" THEN Advance("", <<>>) /\ PrintT(<<"OOD", tid, l>>)
            ELSE Advance(b, IF b = "" THEN <<>> ELSE LET X == Expected(Ev) IN <<X.toks, ProjPool(X.m), ProjAttr(X.m)>>)
=============================================================================
