---- MODULE MC_LoadIO ----
EXTENDS LoadIO
====
