------------------------------ MODULE TraceBase ------------------------------
(* Common part of every trace specification.                                    *)
(* IOEnv.TRACE_FILE is a JSON array of traces; a trace is an array of events    *)
(* recorded from the real implementation (one per public call, logged after the *)
(* call returned, on the exception path too).  All traces are validated in one  *)
(* TLC run: `tid` selects the trace, `l` is the next event, `bad` is the name of *)
(* the first clause that failed ("" while the trace conforms).  The verdict per  *)
(* trace is total: exactly one line <<"DONE", tid>> or <<"MISMATCH", tid, l,    *)
(* clause, expected>> is printed for every trace.                               *)
EXTENDS Naturals, Sequences, TLC, Json, IOUtils

Traces == JsonDeserialize(IOEnv.TRACE_FILE)

VARIABLES tid, l, bad
tvars == <<tid, l, bad>>

NTraces == Len(Traces)
TLen == Len(Traces[tid])
Ev == Traces[tid][l]

TBaseInit == tid \in 1..NTraces /\ l = 1 /\ bad = ""
TEnabled == bad = "" /\ l <= TLen

\* b: name of the failing clause or ""; info: what the specification expected
Advance(b, info) ==
    /\ l' = l + 1 /\ tid' = tid /\ bad' = b
    /\ (b # "" => PrintT(<<"MISMATCH", tid, l, b, info>>))
    /\ (b = "" /\ l' > TLen => PrintT(<<"DONE", tid>>))

\* first failing clause of a sequence of <<name, holds>> pairs
RECURSIVE FirstBad(_)
FirstBad(cs) == IF cs = <<>> THEN ""
                ELSE IF ~Head(cs)[2] THEN Head(cs)[1] ELSE FirstBad(Tail(cs))
=============================================================================
