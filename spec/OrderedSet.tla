---------------------------- MODULE OrderedSet ----------------------------
(* xtuml.tools.OrderedSet and xtuml.meta.QuerySet as a state machine.           *)
(* State: s, the elements in iteration order.  Every public operation is one    *)
(* total action that also computes the outcome `res` of the call.               *)
(* Where the property (C17) is silent -- the iteration order of the *result* of *)
(* a pure operator, and where ^= places elements that were not members -- the   *)
(* action is nondeterministic over all orders the property allows.              *)
EXTENDS Naturals, Sequences, FiniteSets, TLC

CONSTANTS Elem,        \* finite universe of elements (naturals)
          MaxArg       \* maximal length of a sequence argument

VARIABLES s,           \* duplicate-free sequence: the set in iteration order
          res          \* outcome of the last call

vars == <<s, res>>

Rng(q) == {q[i] : i \in DOMAIN q}
Front(q) == SubSeq(q, 1, Len(q) - 1)
Last(q) == q[Len(q)]
Reverse(q) == [i \in 1..Len(q) |-> q[Len(q) + 1 - i]]
NoDup(q) == \A i, j \in DOMAIN q : q[i] = q[j] => i = j
Keep(q, X) == SelectSeq(q, LAMBDA e : e \in X)
Drop(q, X) == SelectSeq(q, LAMBDA e : e \notin X)

RECURSIVE AppendNew(_, _)
\* q followed by the elements of r that are new, in order of first occurrence
AppendNew(q, r) == IF r = <<>> THEN q
                   ELSE AppendNew(IF Head(r) \in Rng(q) THEN q ELSE Append(q, Head(r)), Tail(r))

Args == UNION {[1..n -> Elem] : n \in 0..MaxArg}          \* may contain duplicates
DArgs == {q \in Args : NoDup(q)}                          \* duplicate-free ones
Orders(X) == {q \in [1..Cardinality(X) -> X] : NoDup(q)}  \* all iteration orders of X

\* q is an admissible iteration order: exactly the set X, the members of `old`
\* in their previous relative order
OrderOK(q, X, old) == /\ NoDup(q) /\ Rng(q) = X
                      /\ Keep(q, Rng(old)) = Keep(old, X)

None == [k |-> "none"]
Val(v) == [k |-> "val", v |-> v]
Err(e) == [k |-> "err", e |-> e]
SeqRes(q) == [k |-> "seq", q |-> q]
Bool(b) == [k |-> "bool", b |-> b]

Init == s = <<>> /\ res = None

Add(x) == /\ s' = AppendNew(s, <<x>>) /\ res' = None
Discard(x) == /\ s' = Drop(s, {x}) /\ res' = None
Remove(x) == IF x \in Rng(s) THEN s' = Drop(s, {x}) /\ res' = None
                             ELSE s' = s /\ res' = Err("KeyError")
PopLast == IF s = <<>> THEN s' = s /\ res' = Err("KeyError")
                       ELSE s' = Front(s) /\ res' = Val(Last(s))
PopFirst == IF s = <<>> THEN s' = s /\ res' = Err("KeyError")
                        ELSE s' = Tail(s) /\ res' = Val(Head(s))
Clear == s' = <<>> /\ res' = None

\* in-place operators with an ordered argument q (any iterable)
IOr(q) == s' = AppendNew(s, q) /\ res' = None
IAnd(q) == s' = Keep(s, Rng(q)) /\ res' = None
ISub(q) == s' = Drop(s, Rng(q)) /\ res' = None
XorSet(q) == (Rng(s) \ Rng(q)) \cup (Rng(q) \ Rng(s))
IXor(q) == /\ s' \in {t \in Orders(XorSet(q)) : OrderOK(t, XorSet(q), s)}
           /\ res' = None

\* pure operators: s unchanged, result is a new ordered set with the right members
PureSet(op, q) == CASE op = "or" -> Rng(s) \cup Rng(q)
                    [] op = "and" -> Rng(s) \cap Rng(q)
                    [] op = "sub" -> Rng(s) \ Rng(q)
                    [] op = "xor" -> XorSet(q)
PureOps == {"or", "and", "sub", "xor"}
Pure(op, q) == /\ s' = s
               /\ \E t \in Orders(PureSet(op, q)) : res' = SeqRes(t)

\* iterate over the set, removing the element being visited when it is in F;
\* the visit sequence is the outcome
IterRemove(F) == s' = Drop(s, F) /\ res' = SeqRes(s)
\* the same walking backwards (reversed)
RevIterRemove(F) == s' = Drop(s, F) /\ res' = SeqRes(Reverse(s))

\* comparison with an ordered collection holding q (duplicate-free)
Eq(q) == s' = s /\ res' = Bool(s = q)
Ne(q) == s' = s /\ res' = Bool(s # q)

\* construction from an iterable (the constructor uses |=)
New(q) == s' = AppendNew(<<>>, q) /\ res' = None

\* the aliased forms  s op= s
ISelf(op) == CASE op = "or" -> IOr(s) [] op = "and" -> IAnd(s)
               [] op = "sub" -> ISub(s) [] op = "xor" -> IXor(s)

Next == \/ \E x \in Elem : Add(x) \/ Discard(x) \/ Remove(x)
        \/ PopLast \/ PopFirst \/ Clear
        \/ \E q \in Args : IOr(q) \/ IAnd(q) \/ ISub(q) \/ IXor(q) \/ New(q)
        \/ \E q \in DArgs : (\E op \in PureOps : Pure(op, q)) \/ Eq(q) \/ Ne(q)
        \/ \E F \in SUBSET Elem : IterRemove(F) \/ RevIterRemove(F)
        \/ \E op \in PureOps : ISelf(op)

Spec == Init /\ [][Next]_vars

----------------------------------------------------------------------------
(* Properties (C17) *)
TypeOK == s \in Seq(Elem)
NoDuplicates == NoDup(s)

\* observations a client can make; the trace specification compares these
ObsList == s
ObsReversed == Reverse(s)
ObsLen == Len(s)
ObsMember(x) == x \in Rng(s)
ObsFirst == IF s = <<>> THEN <<>> ELSE <<Head(s)>>
ObsLast == IF s = <<>> THEN <<>> ELSE <<Last(s)>>

\* elements that stay keep their relative order; elements that arrive one at a
\* time or by |= are appended in argument order (first-insertion order)
SurvivorsKeepOrder == [][(\E q \in Args : New(q)) \/ Keep(s', Rng(s)) = Keep(s, Rng(s'))]_vars
\* single-element operations change membership of that element only
Frame == [][\A x \in Elem :
             (Add(x) => Rng(s') = Rng(s) \cup {x}) /\
             (Discard(x) => Rng(s') = Rng(s) \ {x})]_vars
PopsAreEnds == [][(PopLast /\ s # <<>> => s = Append(s', res'.v)) /\
                  (PopFirst /\ s # <<>> => s = <<res'.v>> \o s')]_vars
=============================================================================
