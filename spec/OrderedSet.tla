---------------------------- MODULE OrderedSet ----------------------------
(* xtuml.tools.OrderedSet and xtuml.meta.QuerySet as a state machine.           *)
(* State: s, the elements in iteration order.  Every public operation is one    *)
(* total action that also computes the outcome `res` of the call.  A second set  *)
(* r is the result of the latest pure operator: it is a set of its own - what    *)
(* happens to one of the two never shows in the other; Swap makes r the set the   *)
(* following calls address (and parks s), so both are driven through every action. *)
(* Where the property (C17) is silent -- the iteration order of the *result* of *)
(* a pure operator, and where ^= places elements that were not members -- the   *)
(* action is nondeterministic over all orders the property allows.              *)
EXTENDS Naturals, Sequences, FiniteSets, TLC

CONSTANTS Elem,        \* finite universe of elements (naturals)
          MaxArg       \* maximal length of a sequence argument

VARIABLES s,           \* duplicate-free sequence: the set in iteration order
          r,           \* the other set: result of the latest pure operator (or the set parked by Swap)
          res          \* outcome of the last call

vars == <<s, r, res>>

Rng(q) == {q[i] : i \in DOMAIN q}
Front(q) == SubSeq(q, 1, Len(q) - 1)
Last(q) == q[Len(q)]
Reverse(q) == [i \in 1..Len(q) |-> q[Len(q) + 1 - i]]
NoDup(q) == \A i, j \in DOMAIN q : q[i] = q[j] => i = j
Keep(q, X) == SelectSeq(q, LAMBDA e : e \in X)
Drop(q, X) == SelectSeq(q, LAMBDA e : e \notin X)

RECURSIVE AppendNew(_, _)
\* q followed by the elements of w that are new, in order of first occurrence
AppendNew(q, w) == IF w = <<>> THEN q
                   ELSE AppendNew(IF Head(w) \in Rng(q) THEN q ELSE Append(q, Head(w)), Tail(w))

Args == UNION {[1..n -> Elem] : n \in 0..MaxArg}          \* may contain duplicates
DArgs == {q \in Args : NoDup(q)}                          \* duplicate-free ones
Orders(X) == {q \in [1..Cardinality(X) -> X] : NoDup(q)}  \* all iteration orders of X

\* q is an admissible iteration order: exactly the set X, the members of `old`
\* in their previous relative order
OrderOK(q, X, old) == /\ NoDup(q) /\ Rng(q) = X
                      /\ Keep(q, Rng(old)) = Keep(old, X)

None == [k |-> "none"]
Val(v) == [k |-> "val", v |-> v]
Err(e) == [k |-> "err", e |-> e]
SeqRes(q) == [k |-> "seq", q |-> q]
Bool(b) == [k |-> "bool", b |-> b]

Init == s = <<>> /\ r = <<>> /\ res = None

\* (the actions below say what happens to the addressed set; OnS adds that the other set stays as it is)
Add0(x) == /\ s' = AppendNew(s, <<x>>) /\ res' = None
Discard0(x) == /\ s' = Drop(s, {x}) /\ res' = None
Remove0(x) == IF x \in Rng(s) THEN s' = Drop(s, {x}) /\ res' = None
                              ELSE s' = s /\ res' = Err("KeyError")
PopLast0 == IF s = <<>> THEN s' = s /\ res' = Err("KeyError")
                        ELSE s' = Front(s) /\ res' = Val(Last(s))
PopFirst0 == IF s = <<>> THEN s' = s /\ res' = Err("KeyError")
                         ELSE s' = Tail(s) /\ res' = Val(Head(s))
Clear0 == s' = <<>> /\ res' = None
Add(x) == Add0(x) /\ r' = r
Discard(x) == Discard0(x) /\ r' = r
Remove(x) == Remove0(x) /\ r' = r
PopLast == PopLast0 /\ r' = r
PopFirst == PopFirst0 /\ r' = r
Clear == Clear0 /\ r' = r
\* the other set becomes the addressed one
Swap == s' = r /\ r' = s /\ res' = None

\* in-place operators with an ordered argument q (any iterable)
IOr(q) == s' = AppendNew(s, q) /\ res' = None /\ r' = r
IAnd(q) == s' = Keep(s, Rng(q)) /\ res' = None /\ r' = r
ISub(q) == s' = Drop(s, Rng(q)) /\ res' = None /\ r' = r
XorSet(q) == (Rng(s) \ Rng(q)) \cup (Rng(q) \ Rng(s))
IXor(q) == /\ s' \in {t \in Orders(XorSet(q)) : OrderOK(t, XorSet(q), s)}
           /\ res' = None /\ r' = r

\* pure operators: s unchanged, result is a new ordered set with the right members
PureSet(op, q) == CASE op = "or" -> Rng(s) \cup Rng(q)
                    [] op = "and" -> Rng(s) \cap Rng(q)
                    [] op = "sub" -> Rng(s) \ Rng(q)
                    [] op = "xor" -> XorSet(q)
PureOps == {"or", "and", "sub", "xor"}
Pure(op, q) == /\ s' = s
               /\ \E t \in Orders(PureSet(op, q)) : res' = SeqRes(t) /\ r' = t

\* iterate over the set, removing the element being visited when it is in F;
\* the visit sequence is the outcome
IterRemove(F) == s' = Drop(s, F) /\ res' = SeqRes(s) /\ r' = r
\* the same walking backwards (reversed)
RevIterRemove(F) == s' = Drop(s, F) /\ res' = SeqRes(Reverse(s)) /\ r' = r

\* comparison with an ordered collection holding q (duplicate-free)
Eq(q) == s' = s /\ res' = Bool(s = q) /\ r' = r
Ne(q) == s' = s /\ res' = Bool(s # q) /\ r' = r

\* construction from an iterable (the constructor uses |=)
New(q) == s' = AppendNew(<<>>, q) /\ res' = None /\ r' = r

\* the aliased forms  s op= s
ISelf(op) == CASE op = "or" -> IOr(s) [] op = "and" -> IAnd(s)
               [] op = "sub" -> ISub(s) [] op = "xor" -> IXor(s)

Next == \/ \E x \in Elem : Add(x) \/ Discard(x) \/ Remove(x)
        \/ PopLast \/ PopFirst \/ Clear \/ Swap
        \/ \E q \in Args : IOr(q) \/ IAnd(q) \/ ISub(q) \/ IXor(q) \/ New(q)
        \/ \E q \in DArgs : (\E op \in PureOps : Pure(op, q)) \/ Eq(q) \/ Ne(q)
        \/ \E F \in SUBSET Elem : IterRemove(F) \/ RevIterRemove(F)
        \/ \E op \in PureOps : ISelf(op)

Spec == Init /\ [][Next]_vars

----------------------------------------------------------------------------
(* Properties (C17) *)
TypeOK == s \in Seq(Elem) /\ r \in Seq(Elem)
NoDuplicates == NoDup(s) /\ NoDup(r)
\* no call on the addressed set changes the other set (only a pure operator replaces it, only Swap exchanges the two)
OtherSetUntouched == [][r' = r \/ Swap \/ (\E op \in PureOps, q \in DArgs : Pure(op, q))]_vars

\* observations a client can make; the trace specification compares these
ObsList == s
ObsReversed == Reverse(s)
ObsLen == Len(s)
ObsMember(x) == x \in Rng(s)
ObsFirst == IF s = <<>> THEN <<>> ELSE <<Head(s)>>
ObsLast == IF s = <<>> THEN <<>> ELSE <<Last(s)>>

\* elements that stay keep their relative order; elements that arrive one at a
\* time or by |= are appended in argument order (first-insertion order)
SurvivorsKeepOrder == [][(\E q \in Args : New(q)) \/ Swap \/ Keep(s', Rng(s)) = Keep(s, Rng(s'))]_vars
\* single-element operations change membership of that element only
Frame == [][\A x \in Elem :
             (Add(x) => Rng(s') = Rng(s) \cup {x}) /\
             (Discard(x) => Rng(s') = Rng(s) \ {x})]_vars
PopsAreEnds == [][(PopLast /\ s # <<>> => s = Append(s', res'.v)) /\
                  (PopFirst /\ s # <<>> => s = <<res'.v>> \o s')]_vars
=============================================================================
