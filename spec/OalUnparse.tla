------------------------------ MODULE OalUnparse ------------------------------
(* Batch evaluation of the syntax operators: reads programs (syntax trees) from  *)
(* IOEnv.PROG_FILE and writes their canonical token sequences to IOEnv.OUT_FILE; *)
(* with IOEnv.TREE_DEPTH set it first enumerates every expression tree up to     *)
(* that depth, checks the round-trip theorem RefParse(Unparse(t)) = t on each    *)
(* and exports them as programs `return <tree>;`.                                *)
EXTENDS OalSyntax, Json, IOUtils, SequencesExt

Depth == IF "TREE_DEPTH" \in DOMAIN IOEnv THEN IOEnv.TREE_DEPTH ELSE "0"
Leaves == IF "TREE_LEAVES" \in DOMAIN IOEnv /\ IOEnv.TREE_LEAVES = "2"
          THEN {[t |-> "var", n |-> "x"], [t |-> "int", v |-> "7"]}
          ELSE {[t |-> "var", n |-> "x"]}
D == CASE Depth = "1" -> 1 [] Depth = "2" -> 2 [] Depth = "3" -> 3 [] OTHER -> 0

TreeSet == IF D = 0 THEN {} ELSE Trees(D, Leaves)
ASSUME \A t \in TreeSet : RoundTrip(t)
TreeProgs == LET q == SetToSeq(TreeSet)
             IN [i \in DOMAIN q |-> [body |-> <<[t |-> "return", has |-> TRUE, e |-> q[i]]>>]]

FileProgs == IF "PROG_FILE" \in DOMAIN IOEnv THEN JsonDeserialize(IOEnv.PROG_FILE) ELSE <<>>
All == TreeProgs \o FileProgs
ASSUME JsonSerialize(IOEnv.OUT_FILE, [i \in DOMAIN All |-> [body |-> All[i].body, toks |-> Unparse(All[i].body)]])
\* A theorem about the specification itself, checked on every program that passes through here: the token spans of the
\* nodes (C13) lie within the text, and in pre-order every later node lies inside or completely after every earlier one.
RangesOK(body) ==
    LET rs == Ranges(body)
        n == Len(Unparse(body))
    IN /\ \A i \in DOMAIN rs : 1 <= rs[i].a /\ rs[i].a <= rs[i].b /\ rs[i].b <= n
       /\ \A i, j \in DOMAIN rs : i < j => /\ rs[j].a >= rs[i].a
                                            /\ (rs[j].b <= rs[i].b \/ rs[j].a > rs[i].b)
ASSUME \A i \in DOMAIN All : RangesOK(All[i].body)
ASSUME PrintT(<<"UNPARSED", Len(All), Cardinality(TreeSet)>>)

VARIABLE v
Init == v = 0
Next == v' = v
=============================================================================
