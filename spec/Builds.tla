-------------------------------- MODULE Builds --------------------------------
(* Interleavings of input calls, builds and mutations on one loader (C18).      *)
(* This module only enumerates the *schedules*; what each metamodel must look    *)
(* like is decided by Meta.tla (MetaTrace validates every schedule once per      *)
(* metamodel: its own calls as Meta actions, all other calls as stutter steps).  *)
EXTENDS Naturals, Sequences, FiniteSets

CONSTANTS Chunks,     \* number of input chunks (chunk 1 carries the schema)
          MaxModels, MaxMut,
          Late        \* TRUE: the schema chunk may arrive after rows and after builds, or never (inferred classes)

VARIABLES fed,        \* sequence of chunks given to the loader so far
          nm,         \* number of metamodels built
          mut         \* [model -> number of mutations applied to it]

vars == <<fed, nm, mut>>

Init == fed = <<>> /\ nm = 0 /\ mut = [k \in 1..MaxModels |-> 0]

Fed == {fed[i] : i \in DOMAIN fed}
Feed(c) == c \notin Fed /\ (Late \/ c = 1 \/ 1 \in Fed) /\ fed' = Append(fed, c) /\ UNCHANGED <<nm, mut>>
BuildModel == (IF Late THEN fed # <<>> ELSE 1 \in Fed) /\ nm < MaxModels /\ nm' = nm + 1 /\ UNCHANGED <<fed, mut>>
Mutate(k) == k <= nm /\ mut[k] < MaxMut /\ mut' = [mut EXCEPT ![k] = @ + 1] /\ UNCHANGED <<fed, nm>>
\* a change of the metamodel's own schema (new attribute, identifier, class): its last mutation
SchemaMutate(k) == k <= nm /\ mut[k] < MaxMut /\ mut' = [mut EXCEPT ![k] = MaxMut] /\ UNCHANGED <<fed, nm>>

Next == \/ \E c \in 1..Chunks : Feed(c)
        \/ BuildModel
        \/ \E k \in 1..MaxModels : Mutate(k) \/ SchemaMutate(k)

Spec == Init /\ [][Next]_vars
TypeOK == nm \in 0..MaxModels /\ Len(fed) <= Chunks
=============================================================================
