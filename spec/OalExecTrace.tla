----------------------------- MODULE OalExecTrace -----------------------------
(* Validates what the real interpreter computed (return value, final population) *)
(* against OalExec!Run.  Event: [src |-> body, err, res |-> token of the return    *)
(* value, pool, nav, attr |-> projection of the final model]                       *)
EXTENDS OalExec, TraceBase

VARIABLE dummy
TInit == TBaseInit /\ dummy = 0

KwOf(e) == IF "kw" \in DOMAIN e THEN [n \in (DOMAIN e.kw) \ {"_"} |->
                 LET t == e.kw[n] IN
                 IF SubSeq(t, 1, 2) = "i:" THEN VInt(IF SubSeq(t, 3, 3) = "-" THEN 0 - StrNat(SubSeq(t, 4, Len(t)), 0) ELSE StrNat(SubSeq(t, 3, Len(t)), 0))
                 ELSE IF SubSeq(t, 1, 2) = "b:" THEN VBool(t = "b:1") ELSE VStr(SubSeq(t, 3, Len(t)))]
           ELSE <<>>

Conform(e) ==
    LET R == Run(e.src, KwOf(e), NoVal) IN
    IF R.ctl = "ood" THEN "ood"
    ELSE FirstBad(<<
        <<"error", e.err = "">>,
        <<"result", e.res = Tok(R.ret)>>,
        <<"pool", e.pool = ProjPool(R.m)>>,
        <<"nav", e.nav = ProjNav(R.m)>>,
        <<"attr", e.attr = ProjAttr(R.m)>>
      >>)

\* a program outside the domain is not judged (it is counted)
TNext == /\ TEnabled /\ UNCHANGED dummy
         /\ LET b == Conform(Ev) IN
            IF b = "ood" THEN Advance("", <<>>) /\ PrintT(<<"OOD", tid, l>>)
            ELSE Advance(b, IF b = "" THEN <<>> ELSE LET R == Run(Ev.src, KwOf(Ev), NoVal) IN <<Tok(R.ret), R.ctl, ProjPool(R.m), ProjNav(R.m), ProjAttr(R.m)>>)
=============================================================================
