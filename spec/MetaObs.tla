------------------------------- MODULE MetaObs -------------------------------
(* Observation operators over a Meta.tla state: queries, navigation chains,     *)
(* cardinality, the consistency checks and reflexive sorting.  They are pure    *)
(* relational definitions; during trace validation TLC evaluates them on the    *)
(* specification's state and compares with what the implementation returned.    *)
EXTENDS Meta

CONSTANT Rank      \* [token |-> integer]: the total order of values used by order_by and < <=

-----------------------------------------------------------------------------
Dedup(q) ==   \* first occurrences, in order
    LET RECURSIVE D(_, _)
        D(r, acc) == IF r = <<>> THEN acc
                     ELSE D(Tail(r), IF InSeq(Head(r), acc) THEN acc ELSE Append(acc, Head(r)))
    IN D(q, <<>>)

RECURSIVE Concat(_)
Concat(qs) == IF qs = <<>> THEN <<>> ELSE Head(qs) \o Concat(Tail(qs))

\* uniform result record of every observation
Res(e, r, n, b, s) == [e |-> e, r |-> r, n |-> n, b |-> b, s |-> s]
RSeq(r) == Res("", r, 0, FALSE, "")
RInt(n) == Res("", <<>>, n, FALSE, "")
RBool(b) == Res("", <<>>, 0, b, "")
RErr(e) == Res(e, <<>>, 0, FALSE, "")

-----------------------------------------------------------------------------
(* query operators, applied left to right to a sequence of ordinals of class c *)
Cmp(op, a, b) == CASE op = "eq" -> a = b [] op = "ne" -> a # b
                   [] op = "lt" -> Rank[a] < Rank[b] [] op = "le" -> Rank[a] <= Rank[b]
                   [] op = "gt" -> Rank[a] > Rank[b] [] op = "ge" -> Rank[a] >= Rank[b]

\* lexicographic comparison of key tuples
RECURSIVE KeyLess(_, _)
KeyLess(ka, kb) == IF ka = <<>> THEN FALSE
                   ELSE IF Rank[Head(ka)] # Rank[Head(kb)] THEN Rank[Head(ka)] < Rank[Head(kb)]
                   ELSE KeyLess(Tail(ka), Tail(kb))

\* stable insertion sort; descending keeps ties in input order too (as Python's sorted(reverse=True))
StableSort(q, Key(_), rev) ==
    LET Before(x, y) == IF rev THEN KeyLess(Key(y), Key(x)) ELSE KeyLess(Key(x), Key(y))
        RECURSIVE Ins(_, _)
        \* insert x after every element that is not strictly after it
        Ins(acc, x) == IF acc = <<>> THEN <<x>>
                       ELSE IF Before(x, Head(acc)) THEN <<x>> \o acc
                       ELSE <<Head(acc)>> \o Ins(Tail(acc), x)
        RECURSIVE S(_, _)
        S(r, acc) == IF r = <<>> THEN acc ELSE S(Tail(r), Ins(acc, Head(r)))
    IN S(q, <<>>)

ApplyOp(c, q, op) ==
    CASE op.k = "eq" -> SelectSeq(q, LAMBDA i : \A j \in DOMAIN op.kv : Read(c, i, op.kv[j][1]) = op.kv[j][2])
      [] op.k = "lam" -> SelectSeq(q, LAMBDA i : Cmp(op.cmp, Read(c, i, op.n), op.v))
      [] op.k = "ord" -> StableSort(q, LAMBDA i : [j \in DOMAIN op.ns |-> Read(c, i, op.ns[j])], op.rev)

RECURSIVE ApplyOps(_, _, _)
ApplyOps(c, q, ops) == IF ops = <<>> THEN q ELSE ApplyOps(c, ApplyOp(c, q, Head(ops)), Tail(ops))

Select(c, ops) == Dedup(ApplyOps(c, pool[c], ops))

\* a query is in the domain when every value it may touch exists (the attribute was
\* not deleted) and, where it is ordered or compared with < <=, is orderable
OpDomain(c, op) ==
    CASE op.k = "eq" -> \A i \in Live(c) : \A j \in DOMAIN op.kv : Read(c, i, op.kv[j][1]) # "absent"
      [] op.k = "lam" -> \A i \in Live(c) : /\ Read(c, i, op.n) # "absent"
                                            /\ (op.cmp \in {"eq", "ne"} \/ Read(c, i, op.n) \in DOMAIN Rank)
                         /\ (op.cmp \in {"eq", "ne"} \/ op.v \in DOMAIN Rank)
      [] op.k = "ord" -> \A i \in Live(c) : \A j \in DOMAIN op.ns : Read(c, i, op.ns[j]) \in DOMAIN Rank
OpsDomain(c, ops) == \A j \in DOMAIN ops : OpDomain(c, ops[j])

-----------------------------------------------------------------------------
(* navigation *)
\* the directed links that start at class c, in the order they were defined:
\* <<kind reached, number, phrase, association, direction>>
LinksOf0(c) ==
    LET RECURSIVE L(_)
        L(a) == IF a > NA THEN <<>>
                ELSE (IF Tgt(a) = c THEN <<[kind |-> Src(a), rel |-> Assocs[a].rel, ph |-> Assocs[a].tphrase, a |-> a, d |-> "fwd"]>> ELSE <<>>)
                  \o (IF Src(a) = c THEN <<[kind |-> Tgt(a), rel |-> Assocs[a].rel, ph |-> Assocs[a].sphrase, a |-> a, d |-> "bwd"]>> ELSE <<>>)
                  \o L(a + 1)
    IN L(1)
LinksOfF == [c \in ClassSet |-> LinksOf0(c)]
LinksOf(c) == IF c \in ClassSet THEN LinksOfF[c] ELSE LinksOf0(c)

Across(lk, i) == IF lk.d = "fwd" THEN fwd[lk.a][i] ELSE bwd[lk.a][i]

\* the link of class c with this key; a later definition with the same key replaces an earlier one
Direct(c, kind, rel, ph) ==
    LET ls == LinksOf(c)
        m == {j \in DOMAIN ls : ls[j].kind = kind /\ ls[j].rel = rel /\ ls[j].ph = ph}
    IN IF m = {} THEN <<>> ELSE <<ls[CHOOSE j \in m : \A k \in m : k <= j]>>

\* two hops through an association class: the first link of c with this number and
\* phrase whose far class has a link with the key
Hops(c, kind, rel, ph) ==
    LET ls == LinksOf(c)
        m == {j \in DOMAIN ls : ls[j].rel = rel /\ ls[j].ph = ph /\ Direct(ls[j].kind, kind, rel, ph) # <<>>}
    IN IF m = {} THEN <<>>
       ELSE LET j == Min(m) IN <<ls[j], Direct(ls[j].kind, kind, rel, ph)[1]>>

\* a two-hop step is well defined when only one association class path offers it
HopCandidates(c, kind, rel, ph) ==
    LET ls == LinksOf(c) IN {j \in DOMAIN ls : ls[j].rel = rel /\ ls[j].ph = ph /\ Direct(ls[j].kind, kind, rel, ph) # <<>>}
StepUnambiguous(c, kind, rel, ph) == Direct(c, kind, rel, ph) # <<>> \/ Cardinality(HopCandidates(c, kind, rel, ph)) <= 1
RECURSIVE ChainUnambiguous(_, _)
ChainUnambiguous(c, chain) ==
    chain = <<>> \/ (StepUnambiguous(c, chain[1][1], chain[1][2], chain[1][3]) /\ ChainUnambiguous(chain[1][1], Tail(chain)))

NavKnown(c, kind, rel, ph) == Direct(c, kind, rel, ph) # <<>> \/ Hops(c, kind, rel, ph) # <<>>

\* instances of `kind` reached from instance i of class c
NavFrom(c, i, kind, rel, ph) ==
    IF Direct(c, kind, rel, ph) # <<>> THEN Across(Direct(c, kind, rel, ph)[1], i)
    ELSE LET h == Hops(c, kind, rel, ph)
             mid == Across(h[1], i)
         IN Dedup(Concat([k \in DOMAIN mid |-> Across(h[2], mid[k])]))

\* a chain applied to a sequence q of ordinals of class c: <<class reached, sequence>> or an error
RECURSIVE NavChain(_, _, _)
NavChain(c, q, chain) ==
    IF chain = <<>> THEN [e |-> "", c |-> c, q |-> q]
    ELSE LET st == Head(chain) IN
         IF q = <<>> THEN NavChain(st[1], <<>>, Tail(chain))    \* nothing to navigate from: no lookup happens
         ELSE IF ~NavKnown(c, st[1], st[2], st[3]) THEN [e |-> "UnknownLinkException", c |-> c, q |-> <<>>]
         ELSE NavChain(st[1], Concat([k \in DOMAIN q |-> NavFrom(c, q[k], st[1], st[2], st[3])]), Tail(chain))

Navigate(c, q, chain, ops) ==
    LET r == NavChain(c, q, chain)
    IN IF r.e # "" THEN RErr(r.e) ELSE RSeq(Dedup(ApplyOps(r.c, r.q, ops)))

FirstOf(r) == IF r.e # "" THEN r ELSE RSeq(IF r.r = <<>> THEN <<>> ELSE <<r.r[1]>>)

\* supertype -> the related subtype instance across rel (first link of the class
\* with that number that has a partner, navigated without phrase)
NavSubtype(c, i, rel) ==
    LET ls == LinksOf(c)
        m == {j \in DOMAIN ls : ls[j].rel = rel /\ Direct(c, ls[j].kind, rel, "") # <<>>
                                 /\ Across(Direct(c, ls[j].kind, rel, "")[1], i) # <<>>}
    IN IF m = {} THEN Res("", <<>>, 0, FALSE, "")
       ELSE LET j == Min(m) IN Res("", <<Across(Direct(c, ls[j].kind, rel, "")[1], i)[1]>>, 0, FALSE, ls[j].kind)

-----------------------------------------------------------------------------
(* consistency checks (C11) *)
LinkViolations(a) ==
    Cardinality({t \in Live(Tgt(a)) : (Len(fwd[a][t]) < 1 /\ ~Assocs[a].scond) \/ (Len(fwd[a][t]) > 1 /\ ~Assocs[a].smany)})
  + Cardinality({s \in Live(Src(a)) : (Len(bwd[a][s]) < 1 /\ ~Assocs[a].tcond) \/ (Len(bwd[a][s]) > 1 /\ ~Assocs[a].tmany)})

RECURSIVE SumSeq(_)
SumSeq(q) == IF q = <<>> THEN 0 ELSE Head(q) + SumSeq(Tail(q))

AssocViolations(rel) == SumSeq([a \in AIdx |-> IF rel = "" \/ Assocs[a].rel = rel THEN LinkViolations(a) ELSE 0])

IsNullId(c, n, v) == v = "unset" \/ (AttrType(c, n) = "UNIQUE_ID" /\ v = "u:0")
NullIds(c) == SumSeq([k \in DOMAIN pool[c] |->
                 Cardinality({n \in IdAttrs(c) : IsNullId(c, n, Read(c, pool[c][k], n))})])
KeyOf(c, i, u) == [j \in DOMAIN Uniques[c][u].attrs |-> Read(c, i, Uniques[c][u].attrs[j])]
Repeats(c) == SumSeq([k \in DOMAIN pool[c] |->
                 Cardinality({u \in DOMAIN Uniques[c] :
                     \E k2 \in 1..(k - 1) : KeyOf(c, pool[c][k2], u) = KeyOf(c, pool[c][k], u)})])
IdViolationsOf(c) == NullIds(c) + Repeats(c)
IdViolations(c) == IF c = "" THEN SumSeq([k \in DOMAIN Classes |-> IdViolationsOf(Classes[k])])
                   ELSE IdViolationsOf(c)
Consistent == AssocViolations("") = 0 /\ IdViolations("") = 0
SubtypeViolations(c, rel) == Cardinality({i \in Live(c) : NavSubtype(c, i, rel).r = <<>>})

-----------------------------------------------------------------------------
(* sort_reflexive (C16): heads are the members with no partner across `ph` (in    *)
(* set order; the first member when there is none); each head is followed along *)
(* the opposite phrase, yielding the members of the set.                        *)
OtherPhrase(c, rel, ph) ==
    LET ls == LinksOf(c)
        m == {j \in DOMAIN ls : ls[j].kind = c /\ ls[j].rel = rel /\ ls[j].ph # ph}
    IN IF m = {} THEN <<>> ELSE <<ls[Min(m)].ph>>

SortReflexive(c, q, rel, ph) ==
    IF q = <<>> THEN RSeq(<<>>)
    ELSE IF OtherPhrase(c, rel, ph) = <<>> THEN RErr("UnknownLinkException")
    ELSE IF Direct(c, c, rel, ph) = <<>> THEN RErr("UnknownLinkException")
    ELSE
    LET oph == OtherPhrase(c, rel, ph)[1]
        nxt(i) == NavFrom(c, i, c, rel, oph)
        heads0 == SelectSeq(q, LAMBDA i : NavFrom(c, i, c, rel, ph) = <<>>)
        heads == IF heads0 = <<>> THEN <<q[1]>> ELSE heads0
        RECURSIVE Walk(_, _, _)
        \* follow the chain from i; `first` stops a ring; `fuel` bounds the walk
        Walk(i, first, fuel) ==
            LET me == IF InSeq(i, q) THEN <<i>> ELSE <<>>
            IN IF fuel = 0 \/ nxt(i) = <<>> \/ nxt(i)[1] = first THEN me
               ELSE me \o Walk(nxt(i)[1], first, fuel - 1)
    IN RSeq(Dedup(Concat([k \in DOMAIN heads |-> Walk(heads[k], heads[k], MaxI)])))

-----------------------------------------------------------------------------
(* evaluation of one observation record (see vt/adapters/meta.py)               *)
StartSeq(f) == CASE f.k = "none" -> <<>>
                 [] f.k = "inst" -> <<f.i>>
                 [] f.k = "all" -> pool[f.c]
                 [] f.k = "sel" -> Select(f.c, f.ops)

Card(f) == CASE f.k = "none" -> 0 [] f.k = "inst" -> 1 [] OTHER -> Len(StartSeq(f))

\* The tool checks what it loads from the persisted text.  That is the model itself when the links are the join of the
\* values (Persistable) and no value is written differently from how it reads: an unset value is written as the null
\* value of its type, which for integers, reals, booleans and strings is an ordinary value (it may match a key, and it
\* is not a null identifier any more) - only an unset id stays null.
CliDomain == /\ Persistable
             /\ \A c \in ClassSet : \A i \in Live(c) : \A n \in Rng(AttrNames(c)) :
                    Read(c, i, n) = "unset" => AttrType(c, n) = "UNIQUE_ID"

FromDomain(f) == f.k # "sel" \/ OpsDomain(f.c, f.ops)
InDomain(o) ==
    CASE o.k = "sel" -> OpsDomain(o.c, o.ops)
      [] o.k = "nav" -> /\ FromDomain(o.from) /\ (o.chain = <<>> \/ OpsDomain(o.chain[Len(o.chain)][1], o.ops))
                        /\ ChainUnambiguous(o.from.c, o.chain)
      [] o.k = "card" -> FromDomain(o.from)
      \* the command-line tool checks the model it loads from the persisted text
      [] o.k = "cli" -> CliDomain
      \* the identifier check reads every identifying attribute: a deleted attribute cannot be read
      [] o.k \in {"chk_id", "consistent"} -> NoAbsent
      [] OTHER -> TRUE

\* xtuml.consistency_check.main: every -r number (all associations when none is given) and every -k class (all classes
\* when none is given) contributes its violations; the process exits non-zero exactly when the sum is positive
CliCount(o) == (IF o.rels = <<>> THEN AssocViolations("") ELSE SumSeq([j \in DOMAIN o.rels |-> AssocViolations(o.rels[j])]))
             + (IF o.kinds = <<>> THEN IdViolations("") ELSE SumSeq([j \in DOMAIN o.kinds |-> IdViolations(o.kinds[j])]))

Eval(o) ==
    CASE o.k = "sel" -> IF o.form = "many" THEN RSeq(Select(o.c, o.ops)) ELSE FirstOf(RSeq(Select(o.c, o.ops)))
      [] o.k = "nav" -> LET r == Navigate(o.from.c, StartSeq(o.from), o.chain, o.ops)
                        IN IF o.form = "many" THEN r ELSE FirstOf(r)
      [] o.k = "sub" -> NavSubtype(o.c, o.i, o.rel)
      [] o.k = "card" -> RInt(Card(o.from))
      [] o.k = "chk_assoc" -> RInt(AssocViolations(o.rel))
      [] o.k = "chk_id" -> RInt(IdViolations(o.c))
      [] o.k = "consistent" -> RBool(Consistent)
      [] o.k = "chk_sub" -> RInt(SubtypeViolations(o.c, o.rel))
      [] o.k = "cli" -> Res("", <<>>, CliCount(o), CliCount(o) > 0, "")
      [] o.k = "sort" -> SortReflexive(o.c, IF o.all THEN pool[o.c] ELSE o.sub, o.rel, o.ph)
=============================================================================
