#!/bin/sh
# re-evaluate every filed seeded change against the current checks, N at a time, each worker in its own scratch worktree of
# /repo (never /repo itself).  usage: tools_seed_all_par.sh [N] [tier]   output: /tmp/seedsweep/results.txt (one line per change)
N=${1:-4}; tier=${2:-quick}
cd "$(dirname "$0")" || exit 2
mkdir -p /tmp/seedsweep; : > /tmp/seedsweep/results.txt
ls seeded > /tmp/seedsweep/all.txt
for k in $(seq 1 $N); do
  (
    wt=/tmp/wtsweep_$k
    git -C /repo worktree remove --force $wt 2>/dev/null
    git -C /repo worktree add --detach $wt main -q
    awk -v n=$N -v k=$k 'NR % n == k - 1' /tmp/seedsweep/all.txt | while read name; do
      pid=${name%%-*}
      git -C $wt checkout -q -- .
      if git -C $wt apply "$PWD/seeded/$name/patch.diff" 2>/dev/null; then
        out=$(sh tools_seed_eval_wt.sh $wt $pid $tier | head -1)
        echo "$name $out" >> /tmp/seedsweep/results.txt
      else
        echo "$name patch no longer applies to the current tree" >> /tmp/seedsweep/results.txt
      fi
    done
    git -C /repo worktree remove --force $wt
  ) &
done
wait
sort /tmp/seedsweep/results.txt > /tmp/seedsweep/sorted.txt
echo "caught: $(grep -c 'rc=1' /tmp/seedsweep/sorted.txt)  not caught: $(grep -vc 'rc=1' /tmp/seedsweep/sorted.txt)"
